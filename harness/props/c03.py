"""C03  DXF tag encodings are lossless and mutually consistent (DESIGN.md section 7, C03)."""
from __future__ import annotations

import io
import json
import struct

from leanfmt import cps, lean_list

ID = "C03"
LEAN_MODULES = ["EzdxfVerif.Props.C03", "EzdxfVerif.Props.C03Text"]
DRIVER_DEPS = ["EzdxfVerif.Model.Codec", "EzdxfVerif.Model.XTags", "EzdxfVerif.Model.AsciiTags", "EzdxfVerif.Model.JsonTags", "Drivers.Proto"]
RULE = (
    "correspondence: for every group code 0..1071 x boundary values of its class the real BinaryTagWriter.write_tag2 "
    "bytes and the real binary_tags_loader result vs the Lean encTag/decTag (R12 and R2000+ framing, overflow errors "
    "included); DXFTag/DXFBinaryTag.dxfstr and int()/unhexlify vs showCode/showInt/hexlify/parseInt/unhexlify; "
    "tag_compiler point logic on random raw tag streams (malformed included) vs compile; ExtendedTags._setup/__iter__ "
    "on random structured tag sequences vs setup/iter. Session 3 (text layer): json.dumps of EVERY code point (block "
    "checksums) and of random strings vs escape; json string/number scanners on arbitrary literals (valid and invalid) vs "
    "scanStr/scanNumber; JSONTagWriter text (compact+verbose) vs jsonWrite; json.loads document structure and "
    "json_tag_loader+tag_compiler on written and mutated documents vs parseDoc/jsonLoad; TagWriter text vs render; "
    "ascii_tags_loader+tag_compiler, internal_tag_compiler, recover bytes_loader+byte_tag_compiler on written, CRLF, "
    "truncated and mutated texts vs asciiLoad/internalLoad/recoverLoad (typed values, error classes); universal "
    "newlines, readline, strip, int() vs univNL/readLines/strip/pyIntWs; VertexArray export/from_tags, binary "
    "chunking vs vaExport/vaFromTags/binChunks; the width the real binary loader decodes with for head variants vs loaderR12. non-trivial = not the class default value / a stream with a point or "
    "a structure marker / a mutated or escaped text; distinct by hash. oracle: writer -> matching loader equality on the "
    "real code for ASCII, CRLF file in text mode, internal compiler, recover (LF and CRLF), binary (both widths) and "
    "JSON (compact and verbose), points at sequence start/end, JSON strings with control characters / non-BMP / lone "
    "surrogates, non-finite floats, empty binary payload, iter(setup(ts)) == ts, new_app_data, and O6: every public "
    "writer/loader entry point equals the modelled one (table ENTRY_POINTS, copied into the evidence notes)."
)
TRUSTED_BASE = [
    "float text: repr(x) of every finite double passes the per-literal checks floatLitOK (float(repr x) == x, printable ASCII) and isFloatLit (one JSON float token) - an assumption on CPython's repr, sampled per run (X22, X9); float() itself is modelled (parseFloat) and corresponded; struct.pack('<d') is trusted; doubles are bit patterns in the model",
    "text codec of string values (encode/decode) is C09's subject: strings are byte lists in the binary model and code point lists in the text models; the recover model covers ASCII content (decode = identity)",
    "CPython json.dumps/json.loads, int(), str.strip(), io text layer: modelled (JsonTags.escape/scanStr/scanNumber/parseDoc, pyIntWs, strip, univNL/readLines) and tied by correspondence incl. every code point for the escape table and the isspace set by decide; not proved against CPython's source",
]
ASSUMPTIONS = [
    "group codes > 65535 and Python objects of the wrong type for a class are outside the quantifier",
    "model subset of json.loads: arrays of [int, string | number | array of numbers] with white space; objects, true/false/null, NaN/Infinity are reported as `none` and never produced by the writer",
    "int()/float() acceptance beyond what a writer produces (underscores, non-ASCII digits) and the repair paths (ProE int(float(text)), recover_int/recover_float, _search_int on code lines, \\U+XXXX / \\M+ decoding in recover) are reported as `unsupported` by the model and excluded from the generators",
]
OPEN = [
    "the float text: float() is now a MODEL (parseFloat: correctly rounded decimal -> binary64, corresponded with CPython on ~10k literals per run incl. halfway cases, denormals, overflow) and the assumption on repr() is reduced to the decidable per-literal checks floatLitOK/isFloatLit (floatText_checked, formats_agree_checked), evaluated for repr of >= 1 double per binary exponent + random bit patterns per run (X22); that CPython's repr passes them for EVERY finite double stays an assumption (repr's shortest-digits algorithm is not modelled)",
    "recover_agrees_on_input / recover_loader_agrees cover ASCII content and the fast paths; the repair paths of byte_tag_compiler (recover_int/recover_float, decoding fixes, \\U+ decoding) and safe_tag_loader's repair filters are C07's subject (correspondence only skips them)",
    "binary file header: the version/width half of scan_params is modelled and proved (scan_version_agrees, loader_width_agrees, X19); the $DWGCODEPAGE half and the text codec of binary strings are oracle-only (C09)",
]

CLS = {"bytes": 0, "int16": 1, "int32": 2, "int64": 3, "double": 4, "binary": 5, "str": 6}
R2000_HDR = b"\x09\x00$ACADVER\x00\x01\x00AC1021\x00"  # >= AC1021: 2-byte codes, utf8
SIG = b"AutoCAD Binary DXF\r\n\x1a\x00"


def _probe_writer(code: int) -> int:
    from ezdxf.lldxf.tagwriter import BinaryTagWriter

    s = io.BytesIO()
    w = BinaryTagWriter(s, dxfversion="AC1015")
    if code == 999:
        return CLS["str"]  # `assert code != 999`: binary DXF has no comments; a comment would be a string
    try:
        w.write_tag2(code, 65)
    except TypeError:
        return CLS["binary"]
    body = s.getvalue()[2:]
    if body == b"A":
        return CLS["bytes"]
    if body == struct.pack("<h", 65):
        return CLS["int16"]
    if body == struct.pack("<i", 65):
        return CLS["int32"]
    if body == struct.pack("<q", 65):
        return CLS["int64"]
    if body == struct.pack("<d", 65.0):
        return CLS["double"]
    if body == b"65\x00":
        return CLS["str"]
    raise ValueError(f"writer probe: unexpected bytes for code {code}: {body!r}")


def _probe_loader(code: int) -> int:
    from ezdxf.lldxf.tagger import binary_tags_loader
    from ezdxf.lldxf.types import DXFBinaryTag

    payload = bytes([2, 0x41, 0x42, 0, 5, 6, 7, 8, 0, 0, 0, 0])
    data = SIG + R2000_HDR + code.to_bytes(2, "little") + payload
    tags = binary_tags_loader(data)
    next(tags), next(tags)
    t = next(tags)
    v = t.value
    if isinstance(t, DXFBinaryTag):
        return CLS["binary"]
    if isinstance(v, float):
        return CLS["double"]
    if isinstance(v, str):
        return CLS["str"]
    return {2: CLS["bytes"], 0x4102: CLS["int16"], struct.unpack("<i", payload[:4])[0]: CLS["int32"],
            struct.unpack("<q", payload[:8])[0]: CLS["int64"]}[v]


def _probe_compile(code: int) -> int:
    from ezdxf.lldxf.tagger import tag_compiler
    from ezdxf.lldxf.types import DXFTag, DXFBinaryTag, DXFVertex

    t = next(tag_compiler(iter([DXFTag(code, "10"), DXFTag(code + 10, "10"), DXFTag(0, "X")])))
    if isinstance(t, DXFVertex):
        return 4
    if isinstance(t, DXFBinaryTag):
        return 3
    return {float: 2, int: 1, str: 0}[type(t.value)]


def regenerate(ctx):
    srcs = ["src/ezdxf/lldxf/types.py", "src/ezdxf/lldxf/tagwriter.py", "src/ezdxf/lldxf/tagger.py"]
    for s in srcs:
        ctx.src(s)
    from ezdxf.lldxf import types as T

    def L(name, st):
        big = [c for c in st if c >= 1200]
        if big:
            raise ValueError(f"{name} has members >= 1200: {big}")
        return f"def {name} : List Nat := {lean_list(str(c) for c in sorted(st))}\n"

    text = "\nnamespace EzdxfVerif.Gen.TagTables\n\n"
    text += L("bytesL", T.BYTES) + L("int16L", T.INT16) + L("int32L", T.INT32) + L("int64L", T.INT64)
    text += L("doubleL", T.DOUBLE) + L("binaryL", T.BINARY_DATA) + L("pointL", T.POINT_CODES)
    text += f"def obsWriter : List Nat := {lean_list((str(_probe_writer(c)) for c in range(1072)), 40)}\n"
    text += f"def obsLoader : List Nat := {lean_list((str(_probe_loader(c)) for c in range(1072)), 40)}\n"
    text += f"def obsCompile : List Nat := {lean_list((str(_probe_compile(c)) for c in range(1072)), 40)}\n"
    # session 3: Python's str.isspace() set (str.strip() in tag_compiler), probed over all of Unicode
    text += f"def pySpaceL : List Nat := {lean_list((str(c) for c in range(0x110000) if chr(c).isspace()), 16)}\n"
    if T.MAX_GROUP_CODE != 1071:
        raise ValueError("MAX_GROUP_CODE changed")
    text += "\nend EzdxfVerif.Gen.TagTables\n"
    ctx.write_gen("TagTables", text, srcs)


# ------------------------------------------------------------------ helpers
def nats(bs) -> str:
    return " ".join(str(b) for b in bs)


def _err(e):
    return "err " + type(e).__name__


def cls_of(code: int) -> str:
    from ezdxf.lldxf import types as T

    if code in T.BINARY_DATA:
        return "binary"
    for name, st in (("bytes", T.BYTES), ("int16", T.INT16), ("int32", T.INT32), ("int64", T.INT64), ("double", T.DOUBLE)):
        if code in st:
            return name
    return "str"


INTVALS = {
    "bytes": [0, 1, 255, 256, -1, 127, 128],
    "int16": [0, 1, -1, 32767, -32768, 32768, -32769, 255, 256],
    "int32": [0, -1, 2**31 - 1, -(2**31), 2**31, -(2**31) - 1, 65536],
    "int64": [0, -1, 2**63 - 1, -(2**63), 2**63, -(2**63) - 1, 2**32],
}
FLOATS = [0.0, -0.0, 5e-324, 2.2250738585072014e-308, 1.7976931348623157e308, 0.1, 1 / 3, 1234567.8901234567,
          -9.87654321e-5, 1e16, 123456789012345678.0, 2.5, -1.0]
STRS = ["", "A", " lead", "trail ", " both ", "é€ß", "0", "  0", "x\ty", "{", "}", "\\U+00E4", "100%", "a" * 300,
        # characters str.splitlines() treats as line boundaries but the DXF tag format does not
        "a\u2028b", "a\u2029b", "a\x85b", "a\x0bb", "a\x0cb", "a\x1cb", "a\x1db", "a\x1eb"]


def val_req(cls, v) -> str:
    """protocol form of a value"""
    if cls in INTVALS:
        return f"i{v}"
    if cls == "double":
        return "d" + str(struct.unpack("<Q", struct.pack("<d", v))[0])
    if cls == "binary":
        return "b" + nats(v)
    return "s" + nats(v)  # already encoded bytes


def show_tag(code, cls, v) -> str:
    return f"{code}:{val_req(cls, v)}"


def impl_enc(r12: bool, code: int, value) -> str:
    from ezdxf.lldxf.tagwriter import BinaryTagWriter

    s = io.BytesIO()
    w = BinaryTagWriter(s, dxfversion="AC1009" if r12 else "AC1015", encoding="utf8")
    try:
        w.write_tag2(code, value)
    except (OverflowError, TypeError, ValueError) as e:
        return _err(e)
    return "ok " + nats(s.getvalue())


def impl_dec(r12: bool, data: bytes) -> str:
    """decode a tag stream with the real loader (header chosen so that scan_params picks the width)"""
    from ezdxf.lldxf.tagger import binary_tags_loader
    from ezdxf.lldxf.types import DXFBinaryTag

    hdr = b"" if r12 else R2000_HDR
    try:
        tags = list(binary_tags_loader(SIG + hdr + data))
    except (IndexError, struct.error, ValueError) as e:
        name = type(e).__name__
        return "err " + {"error": "structError"}.get(name, name)
    if not r12:
        tags = tags[2:]
    out = []
    for t in tags:
        v = t.value
        if isinstance(t, DXFBinaryTag):
            out.append(f"{t.code}:b{nats(v)}")
        elif isinstance(v, float):
            out.append(f"{t.code}:d{struct.unpack('<Q', struct.pack('<d', v))[0]}")
        elif isinstance(v, int):
            out.append(f"{t.code}:i{v}")
        else:
            out.append(f"{t.code}:s{nats(v.encode('cp1252' if r12 else 'utf8', 'surrogateescape'))}")
    return "ok " + ";".join(out)


def correspond(ctx):
    rng = ctx.rng("c03")
    cases = []
    # --- X1: binary encode/decode per code and class
    for code in list(range(0, 1072)) + [1072, 5000, 65535, 65536, 70000]:
        cls = cls_of(code) if code <= 1071 else "str"
        if code == 999:
            continue  # the binary writer asserts code != 999 (comments do not exist in binary DXF)
        ctx.hist("X1 binary tag codec", cls)
        if cls in INTVALS:
            vals = INTVALS[cls] if (code % 7 == 0 or ctx.tier == "thorough") else rng.sample(INTVALS[cls], 3)
            pyvals = vals
        elif cls == "double":
            vals = FLOATS if (code % 7 == 0 or ctx.tier == "thorough") else rng.sample(FLOATS, 3)
            pyvals = vals
        elif cls == "binary":
            lens = [0, 1, 126, 127, 128, 254, 255, 300] if ctx.quick else list(range(0, 601, 7)) + [127, 128, 254, 255, 381]
            vals = [bytes(rng.randrange(256) for _ in range(n)) for n in (lens if code in (310, 1004) else [0, 5, 128])]
            pyvals = vals
        else:
            ss = rng.sample(STRS, 3) if code % 11 else STRS
            vals = [s.encode("utf8") for s in ss]
            pyvals = ss
        for v, pv in zip(vals, pyvals):
            for r12 in (False, True):
                enc = impl_enc(r12, code, pv)
                cases.append((f"enc|{int(r12)}|{show_tag(code, cls, v)}", enc, True))
                if enc.startswith("ok "):
                    data = bytes(int(x) for x in enc[3:].split()) if enc[3:] else b""
                    cases.append((f"dec|{int(r12)}|{nats(data)}", impl_dec(r12, data), True))
    # truncated / garbage streams for the decoder (error classes)
    for _ in range(ctx.n(300, 3000)):
        r12 = rng.random() < 0.5
        code = rng.choice([1, 5, 70, 90, 160, 40, 290, 310, 1004, 1000, 1071, 255, 10])
        body = bytes(rng.randrange(256) for _ in range(rng.randrange(0, 12)))
        head = (bytes([255]) + code.to_bytes(2, "little") if code >= 1000 else bytes([code % 256])) if r12 else code.to_bytes(2, "little")
        if cls_of(code) == "str" and rng.random() < 0.7:
            body = bytes(b for b in body if b) + b"\x00"
            body = bytes(b if b < 128 else 65 for b in body)
        data = head + body
        cases.append((f"dec|{int(r12)}|{nats(data)}", impl_dec(r12, data), True))
    ctx.correspond("X1 binary tag codec", "C03", cases, build=DRIVER_DEPS)

    # --- X2: text forms
    from binascii import hexlify, unhexlify
    from ezdxf.lldxf.types import DXFTag, DXFBinaryTag

    cases = []
    ints = sorted(set(sum(INTVALS.values(), []) + [rng.randrange(-10**12, 10**12) for _ in range(ctx.n(200, 2000))]))
    for v in ints:
        cases.append((f"showint|{v}", cps(DXFTag(70, v).dxfstr().split("\n")[1]), True))
    for c in list(range(0, 1072)) + [5000, 65535]:
        cases.append((f"showcode|{c}", cps(DXFTag(c, "x").dxfstr().split("\n")[0]), True))
    texts = [str(v) for v in ints[:60]] + ["%3d" % c for c in (0, 5, 10, 100, 1071)] + [
        "", " ", "+5", "-0", "+", "-", " 12", "12 ", "1 2", "1e3", "0x10", "٣", "1_0", "--1", "007", "  -42", "1.0"]
    for t in texts:
        try:
            r = "ok " + str(int(t))
        except ValueError:
            r = "none"
        if any(ch in t for ch in "_٣") or t.endswith(" ") and t.strip():
            continue  # int() accepts underscores, Unicode digits and trailing blanks: outside the modelled subset
        cases.append((f"parseint|{cps(t)}", r, True))
    for n in [0, 1, 2, 3, 16, 127, 128]:
        d = bytes(rng.randrange(256) for _ in range(n))
        cases.append((f"hex|{nats(d)}", cps(DXFBinaryTag(310, d).dxfstr().split("\n")[1]), True))
    for t in ["", "0", "00", "0a", "0A", "fF10", "0g", "abc", "zz", " 00", "FFFFFFFF"] + [hexlify(bytes(rng.randrange(256) for _ in range(5))).decode() for _ in range(50)]:
        try:
            r = "ok " + nats(unhexlify(t))
        except ValueError:
            r = "none"
        cases.append((f"unhex|{cps(t)}", r, True))
    ctx.correspond("X2 text forms", "C03", cases, build=DRIVER_DEPS)

    # --- X3: point compilation on raw tag streams
    from ezdxf.lldxf.tagger import tag_compiler
    from ezdxf.lldxf.const import DXFStructureError
    from ezdxf.lldxf.types import DXFVertex

    cases = []
    codes_pool = [10, 20, 30, 11, 21, 31, 1, 40, 0, 210, 220, 230, 1010, 1020, 1030, 18, 28, 38, 110, 120, 130, 1013, 1023, 1033, 39, 19]
    for i in range(ctx.n(4000, 40000)):
        n = rng.randrange(0, 9)
        if rng.random() < 0.6:  # structured: mostly valid point runs
            raw = []
            while len(raw) < n:
                c = rng.choice([10, 11, 210, 1010, 18, 110, 1013])
                k = rng.choice([2, 3, 3, 1])
                if rng.random() < 0.4:
                    raw.append(rng.choice([1, 40, 0, 30, 31, 39, 230]))
                else:
                    raw += [c + 10 * j for j in range(k)]
        else:
            raw = [rng.choice(codes_pool) for _ in range(n)]
        tags = [DXFTag(c, "1" if c not in (0, 1) else "X") for c in raw]
        try:
            out = []
            for t in tag_compiler(iter(tags)):
                out.append(f"p{t.code}/{len(t.value)}" if isinstance(t, DXFVertex) else f"s{t.code}")
            r = "ok " + " ".join(out)
        except DXFStructureError:
            r = "err dxfStructureError"
        nontriv = any(c in (10, 11, 210, 1010, 18, 110, 1013) for c in raw)
        cases.append((f"compile|{nats(raw)}", r, nontriv))
    ctx.correspond("X3 point compile", "C03", cases, build=DRIVER_DEPS)

    # --- X4: ExtendedTags setup / iter
    from ezdxf.lldxf.extendedtags import ExtendedTags

    cases = []
    for i in range(ctx.n(3000, 30000)):
        ts = gen_entity_tags(rng, malformed=rng.random() < 0.25)
        req = "xtags|" + ";".join(f"{c}:{cps(v)}" for c, v in ts)
        try:
            x = ExtendedTags([DXFTag(c, v) for c, v in ts])
            shape = f"{len(x.subclasses)},{len(x.appdata)},{len(x.embedded_objects or [])},{len(x.xdata)}"
            it = ";".join(f"{t.code}:{cps(t.value)}" for t in x)
            r = f"ok {shape}|{it}"
        except DXFStructureError as e:
            r = "err missingAppClose" if "closing" in str(e) else "err unexpectedTag"
        cases.append((req, r, len(ts) > 2))
    ctx.correspond("X4 extended tags", "C03", cases, build=DRIVER_DEPS)

    # --- X5: internal_tag_compiler line splitting (Tags.from_text / write_str paths)
    from ezdxf.lldxf.tagger import internal_tag_compiler

    cases = []
    seps = ["\u2028", "\u2029", "\x85", "\x0b", "\x0c", "\x1c", "\x1d", "\x1e", "\r", " ", "x"]
    for i in range(ctx.n(1500, 15000)):
        n = rng.randrange(0, 5)
        lines = []
        for _ in range(n):
            code = rng.choice([1, 2, 3, 8, 70, 1000, 0, 5])
            val = "".join(rng.choice(["a", "7", rng.choice(seps), ""]) for _ in range(rng.randrange(0, 5)))
            if code == 70:
                val = str(rng.randrange(-5, 300))
            lines += ["%3d" % code, val]
        text = "\n".join(lines) + ("\n" if rng.random() < 0.7 and lines else "")
        if rng.random() < 0.1 and lines:
            text = text[: rng.randrange(len(text) + 1)]  # cut anywhere: odd line counts, broken codes
        try:
            out = "ok " + ";".join(f"{t.code}:{cps(str(t.value))}" for t in internal_tag_compiler(text))
        except (ValueError, IndexError):
            out = "err"
        cases.append((f"internal|{cps(text)}", out, any(sp in text for sp in seps[:9])))
    ctx.correspond("X5 internal compiler lines", "C03", cases, build=DRIVER_DEPS)

    # --- X6: application data added to a NAMED subclass (placeholder outside the base class)
    cases = []
    for i in range(ctx.n(800, 8000)):
        ts = gen_entity_tags(rng, malformed=False)
        try:
            x = ExtendedTags([DXFTag(c, v) for c, v in ts])
        except DXFStructureError:
            continue
        sub = rng.randrange(0, len(x.subclasses))
        grp = [(102, "{NEWAPP"), (330, "%X" % rng.randrange(1, 99)), (102, "}")]
        req = "xtagsapp|" + ";".join(f"{c}:{cps(v)}" for c, v in ts) + f"|{sub}|" + ";".join(f"{c}:{cps(v)}" for c, v in grp)
        # new_app_data() addresses subclasses by name; do what it does on the chosen subclass directly
        x.appdata.append(type(x.subclasses[0])([DXFTag(c, v) for c, v in grp]))
        x.subclasses[sub].append(DXFTag(102, len(x.appdata) - 1))
        out = "ok " + ";".join(f"{t.code}:{cps(t.value)}" for t in x)
        cases.append((req, out, sub > 0))
    ctx.correspond("X6 app data in subclasses", "C03", cases, build=DRIVER_DEPS)
    correspond_text(ctx)


# ------------------------------------------------------------------ session 3: text layer, JSON, recover, packed tags
def _bits(x: float) -> int:
    return struct.unpack("<Q", struct.pack("<d", x))[0]


def typed_tag(t) -> str:
    """protocol form of a compiled tag of the real code"""
    from ezdxf.lldxf.types import DXFVertex, DXFBinaryTag

    v = t.value
    if isinstance(t, DXFVertex):
        return f"{t.code}:p" + ",".join(str(_bits(x)) for x in v)
    if isinstance(t, DXFBinaryTag):
        return f"{t.code}:b{nats(v)}"
    if isinstance(v, float):
        return f"{t.code}:d{_bits(v)}"
    if isinstance(v, bool) or not isinstance(v, (int, str)):
        return f"{t.code}:?{type(v).__name__}"
    if isinstance(v, int):
        return f"{t.code}:i{v}"
    return f"{t.code}:s{cps(v)}"


def ft_table(floats=(), texts=()) -> str:
    """float text table of the driver: canonical repr first, then the texts float() accepts"""
    ent, seen = [], set()
    for x in floats:
        e = (_bits(x), repr(x))
        if e not in seen:
            seen.add(e); ent.append(e)
    for t in texts:
        try:
            x = float(t)
        except (ValueError, OverflowError):
            continue
        e = (_bits(x), t)
        if e not in seen:
            seen.add(e); ent.append(e)
    return ",".join(f"{b}:{cps(t)}" for b, t in ent)


def tag_floats(tags):
    from ezdxf.lldxf.types import DXFVertex

    out = []
    for t in tags:
        if isinstance(t, DXFVertex):
            out += list(t.value)
        elif isinstance(t.value, float):
            out.append(t.value)
    return out


JSTR_POOL = ['"', "\\", "/", "\b", "\f", "\n", "\r", "\t", "\x00", "\x1f", " ", "~", "\x7f", "\x80", "é", "€", "\u2028",
             "\ud7ff", "\ud800", "\udbff", "\udc00", "\udc80", "\udfff", "\ue000", "\uffff", "\U00010000", "\U0001F600", "\U0010FFFF", "a", "0"]


def gen_str(rng, n=None):
    n = rng.randrange(0, 7) if n is None else n
    return "".join(rng.choice(JSTR_POOL) if rng.random() < 0.8 else chr(rng.choice([rng.randrange(0, 0x300), rng.randrange(0xD780, 0xE080), rng.randrange(0x10000, 0x110000)])) for _ in range(n))


def gen_typed_tags(rng, n=None, strs=None, with_points=True, end_point=None):
    """a well-typed tag list: every value has the type its group code prescribes; 2D points are never followed by their z code"""
    from ezdxf.lldxf.types import DXFTag, DXFVertex, DXFBinaryTag
    from ezdxf.lldxf import types as T

    n = rng.randrange(0, 7) if n is None else n
    out = []
    pts = sorted(T.POINT_CODES)
    for i in range(n):
        r = rng.random()
        last2d = out and isinstance(out[-1], DXFVertex) and len(out[-1].value) == 2
        if with_points and r < 0.3:
            c = rng.choice(pts)
            t = DXFVertex(c, [rng.choice(FLOATS) for _ in range(rng.choice([2, 3]))])
        elif r < 0.45:
            c = rng.choice([70, 90, 160, 290, 1070, 1071, 62, 280, 420])
            t = DXFTag(c, rng.choice(INTVALS[cls_of(c)][:5]) if cls_of(c) != "bytes" else rng.choice([0, 1, 255]))
        elif r < 0.6:
            c = rng.choice([40, 50, 140, 1040, 460, 48, 230, 30, 31])
            t = DXFTag(c, rng.choice(FLOATS))
        elif r < 0.7:
            t = DXFBinaryTag(rng.choice([310, 311, 1004]), bytes(rng.randrange(256) for _ in range(rng.choice([0, 1, 5, 130]))))
        else:
            c = rng.choice([1, 2, 3, 5, 8, 100, 102, 330, 1000, 1001, 0, 0, 999 if rng.random() < 0.1 else 7])
            sv = (strs or gen_str)(rng)
            if c == 0:
                sv = rng.choice(["LINE", "X", " X", "X\x1f", "\u3000Y\x85", "EOF" if rng.random() < 0.15 else "SECTION", sv])
            t = DXFTag(c, sv)
        if last2d and t.code == out[-1].code + 20:
            continue
        out.append(t)
    return out


def json_text(tags, compact, eof=True):
    from ezdxf.lldxf.tagwriter import JSONTagWriter

    s = io.StringIO()
    w = JSONTagWriter(s, compact=compact)
    for t in tags:
        w.write_tag(t)
    if eof:
        w.write_tag2(0, "EOF")
    return s.getvalue()


def json_load_impl(text):
    from ezdxf.lldxf.tagger import tag_compiler, json_tag_loader
    from ezdxf.lldxf.const import DXFStructureError

    try:
        data = json.loads(text)
    except json.JSONDecodeError:
        return "err decode"
    except RecursionError:
        return None
    try:
        return "ok " + ";".join(typed_tag(t) for t in tag_compiler(json_tag_loader(data)))
    except DXFStructureError:
        return "err structure"
    except (TypeError, ValueError, AttributeError, OverflowError):
        return "err unsupported"


def in_json_subset(data) -> bool:
    if not isinstance(data, list):
        return False
    for p in data:
        if not (isinstance(p, list) and len(p) == 2):
            return False
        c, v = p
        if isinstance(c, bool) or not isinstance(c, (int, float)):
            return False
        if isinstance(v, list):
            if any(isinstance(x, bool) or not isinstance(x, (int, float)) for x in v):
                return False
        elif isinstance(v, bool) or not isinstance(v, (int, float, str)):
            return False
    return True


def json_data_modelled(data) -> bool:
    """value types the model of tag_compiler covers (the others are reported as `unsupported` by the model)"""
    from ezdxf.lldxf import types as T

    for c, v in data:
        if not isinstance(c, int):
            return True  # rejected before any value is looked at
        if c < 0:
            return False
        if isinstance(v, list):
            if c not in T.POINT_CODES or len(v) > 3:
                return False
            continue
        cl = cls_of(c)
        if c in T.POINT_CODES or cl == "double":
            continue
        if cl == "binary":
            if not isinstance(v, str):
                return False
        elif cl in INTVALS:
            if isinstance(v, float):
                return False
            if isinstance(v, str):
                try:
                    int(v)
                except ValueError:
                    try:
                        float(v)
                        return False  # ProE path int(float(text))
                    except ValueError:
                        pass
        elif isinstance(v, float) or (c == 0 and not isinstance(v, str)):
            return False
    return True


def json_texts(data):
    """all texts float() may be applied to while compiling"""
    out = []
    for c, v in data:
        for x in (v if isinstance(v, list) else [v]):
            if isinstance(x, str):
                out.append(x)
            elif isinstance(x, int) and abs(x) < 10**300:
                out.append(str(x))
    return out


def _jnum(x):
    return f"i{x}" if isinstance(x, int) else None


def ascii_text(tags):
    from ezdxf.lldxf.tagwriter import TagWriter

    s = io.StringIO()
    w = TagWriter(s)
    for t in tags:
        w.write_tag(t)
    return s.getvalue()


def ascii_load_impl(text):
    from ezdxf.lldxf.tagger import tag_compiler, ascii_tags_loader
    from ezdxf.lldxf.const import DXFStructureError

    try:
        return "ok " + ";".join(typed_tag(t) for t in tag_compiler(ascii_tags_loader(io.StringIO(text, newline="\n"))))
    except DXFStructureError:
        return "err structure"


def internal_load_impl(text):
    from ezdxf.lldxf.tagger import internal_tag_compiler

    try:
        return "ok " + ";".join(typed_tag(t) for t in internal_tag_compiler(text))
    except (ValueError, IndexError):
        return "err value"


def recover_load_impl(text):
    from ezdxf.recover import bytes_loader, byte_tag_compiler
    from ezdxf.lldxf.const import DXFStructureError

    msgs = []
    try:
        r = "ok " + ";".join(typed_tag(t) for t in byte_tag_compiler(bytes_loader(io.BytesIO(text.encode("ascii"))), messages=msgs))
    except DXFStructureError:
        r = "err structure"
    if msgs:
        raise ValueError("recovery path")  # recover_int / recover_float / decoding fixes: outside the model
    return r


def line_texts(text):
    ws = " \t\n\r\x0b\x0c\x85\xa0\u1680\u2000\u2001\u2002\u2003\u2004\u2005\u2006\u2007\u2008\u2009\u200a\u2028\u2029\u202f\u205f\u3000"
    return [ln.strip(ws) for ln in text.split("\n")]


def correspond_text(ctx):
    import re
    from ezdxf.lldxf.types import DXFTag, DXFVertex, DXFBinaryTag

    import logging

    rng = ctx.rng("c03-text")
    logging.getLogger("ezdxf").setLevel(logging.ERROR)  # recover_int/recover_float log every repair
    # --- X7: json.dumps string escaping: every code point (checksums per block of 4096) + random strings
    cases = []

    def chk(lo, hi):
        acc = 7
        for c in range(lo, hi):
            for ch in json.dumps(chr(c))[1:-1]:
                acc = (acc * 131 + ord(ch) + 1) % 1000000007
        return str(acc)

    blocks = list(range(0, 0x110000, 4096))
    if ctx.quick:  # BMP + first astral plane exhaustively, the other planes sampled
        blocks = [b for b in blocks if b < 0x20000] + rng.sample([b for b in blocks if b >= 0x20000], 24)
    for lo in blocks:
        cases.append((f"jescrange|{lo}|{lo + 4096}", chk(lo, lo + 4096), True))
    for _ in range(ctx.n(1500, 15000)):
        sv = gen_str(rng, rng.randrange(0, 9))
        cases.append((f"jesc|{cps(sv)}", cps(json.dumps(sv)), bool(sv)))
        cases.append((f"jmerge|{cps(sv)}", cps(json.loads(json.dumps(sv))), bool(sv)))
    ctx.correspond("X7 json string escape", "C03", cases, build=DRIVER_DEPS)

    # --- X8: json.loads string scanner on arbitrary literal bodies (valid and invalid)
    from json.decoder import scanstring

    cases = []
    pieces = ['\\"', "\\\\", "\\/", "\\b", "\\f", "\\n", "\\r", "\\t", "\\x", "\\u", "\\", "a", " ", "\x7f", "é", "\n", "\x1f", "\ud800", "\udc00", "\U0001F600",
              "\\ud83d", "\\ude00", "\\uD83D", "\\uDE00", "\\udbff", "\\udc00", "\\ud800", "\\udfff", "\\u00e9", "\\u0000", "\\u12", "\\u12G4", "\\uffff", "\\u+123", "\\u 123", "/"]
    for _ in range(ctx.n(4000, 40000)):
        body = "".join(rng.choice(pieces) for _ in range(rng.randrange(0, 7)))
        text = body + ('"' if rng.random() < 0.9 else "") + rng.choice(["", "", ",x", '"'])
        try:
            v, end = scanstring(text, 0)
            r = f"ok {cps(v)}|{len(text) - end}"
        except json.JSONDecodeError:
            r = "none"
        cases.append((f"jstr|{cps(text)}", r, "\\" in body))
    ctx.correspond("X8 json string scanner", "C03", cases, build=DRIVER_DEPS)

    # --- X9: json number scanner
    cases = []
    dec = json.JSONDecoder()
    toks = [repr(x) for x in FLOATS] + [str(v) for v in sum(INTVALS.values(), [])] + ["0", "-0", "00", "01", "-", "-a", "1.", "1.e5", ".5", "1e", "1e+", "1E5", "1e-05", "0.0e0", "-0.0", "10.50", "1.5.5", "1ee5", "123abc", "9" * 30, "1e400"]
    for _ in range(ctx.n(1500, 15000)):
        toks.append("".join(rng.choice("0123456789012345-+.eE") for _ in range(rng.randrange(1, 8))))
    for t in toks:
        text = t + rng.choice(["", ",", "]", " ", ", 1"])
        if text[:1] not in "-0123456789" or text.startswith("-I") or text.startswith("-N"):
            continue
        try:
            obj, end = dec.raw_decode(text)
            r = (f"ok i{obj}" if isinstance(obj, int) else f"ok f{cps(text[:end])}") + f"|{len(text) - end}"
        except json.JSONDecodeError:
            r = "none"
        cases.append((f"jnum|{cps(text)}", r, True))
    # the float-text assumption of the compact format as a per-literal check: repr(x) of every finite double is, as a
    # whole, one JSON number token that json.loads reads as a float (Lean: isFloatLit, jsonFloatTok_of_isFloatLit)
    lits = [repr(x) for x in FLOATS] + ["inf", "-inf", "nan", "12", "-0", "1e5", "1.", ".5", "1.5x", "0x10", "1_0.0", "+1.0", " 1.0"]
    for _ in range(ctx.n(1500, 15000)):
        x = struct.unpack("<d", struct.pack("<Q", rng.getrandbits(64)))[0]
        lits.append(repr(x))
        lits.append(repr(rng.choice([rng.uniform(-1, 1), rng.uniform(-1e6, 1e6), float(rng.randrange(-10**6, 10**6)), rng.random() * 10.0 ** rng.randrange(-30, 30)])))
    for t in lits:
        try:
            v = json.loads(t)
            r = "1" if isinstance(v, float) and t[:1] not in "NI" and not t.startswith("-I") and t == t.strip() else "0"
        except json.JSONDecodeError:
            r = "0"
        cases.append((f"isfloatlit|{cps(t)}", r, True))
    ctx.correspond("X9 json number scanner", "C03", cases, build=DRIVER_DEPS)

    # --- X10/X11/X12: JSONTagWriter text, json.loads document structure, json_tag_loader + tag_compiler
    wcases, dcases, lcases = [], [], []

    def show_num(x):
        return f"i{x}" if isinstance(x, int) else None

    def doc_struct(text):
        """json.loads result in the driver's notation; float tokens are re-scanned from the text"""
        try:
            data = json.loads(text)
        except json.JSONDecodeError:
            return "none"
        except RecursionError:
            return None
        if not in_json_subset(data):
            return None
        # floats: token text is needed; use parse_float hook to keep the token
        data = json.loads(text, parse_float=lambda t: ("f", t))

        def num(x):
            return f"i{x}" if isinstance(x, int) else "f" + cps(x[1])

        out = []
        for c, v in data:
            if isinstance(v, str):
                sv = "s" + cps(v)
            elif isinstance(v, list):
                sv = "l" + ",".join(num(x) for x in v)
            else:
                sv = num(v)
            out.append(num(c) + "=" + sv)
        return "ok " + ";".join(out)

    def mutate(text):
        k = rng.randrange(len(text) + 1)
        op = rng.random()
        if op < 0.3 and text:
            return text[:k] + text[k + 1:]
        if op < 0.6:
            return text[:k] + rng.choice([" ", "\n", "\t", "\r", ",", "]", "[", '"', "1", "\\", "-", ".", "e", "x"]) + text[k:]
        if op < 0.8:
            return text.replace(",\n", rng.choice([" ,\r\n ", ",", "\t,\t"])).replace(", ", rng.choice([",", " , ", ",\n"]))
        return text[:k]

    for i in range(ctx.n(1500, 15000)):
        tags = gen_typed_tags(rng)
        req_tags = ";".join(typed_tag(t) for t in tags)
        for compact in (True, False):
            text = json_text(tags, compact)
            ft = ft_table(tag_floats(tags))
            wcases.append((f"jwrite|{int(compact)}|{ft}|{req_tags}", cps(text), bool(tags)))
            for variant in ([text] + [mutate(text) for _ in range(2)]):
                ds = doc_struct(variant)
                if ds is not None:
                    dcases.append((f"jdoc|{cps(variant)}", ds, variant != text))
                r = json_load_impl(variant)
                if r is None or (ds is None):
                    continue
                extra = []
                if ds != "none":
                    data = json.loads(variant)
                    if not json_data_modelled(data):
                        continue
                    extra = json_texts(data)
                ft2 = ft_table(tag_floats(tags), re.findall(r"-?[0-9][0-9.eE+-]*", variant) + extra)
                lcases.append((f"jload|{ft2}|{cps(variant)}", r, True))
    # documents that do not come from the writer: EOF pair in the middle (the loader stops there), comments, white space
    # variants, ints where floats are expected
    for i in range(ctx.n(600, 6000)):
        tags = gen_typed_tags(rng, strs=lambda r_: gen_str(r_, r_.randrange(0, 4)))
        pairs = []
        for t in tags:
            if isinstance(t, DXFVertex):
                if rng.random() < 0.5:
                    pairs.append([t.code, [rng.choice([x, int(x)]) if x == int(x) and abs(x) < 1e15 else x for x in t.value]])
                else:
                    pairs += [[t.code + 10 * k, x] for k, x in enumerate(t.value)]
            elif isinstance(t, DXFBinaryTag):
                pairs.append([t.code, t.tostring()])
            else:
                pairs.append([t.code, t.value if rng.random() < 0.7 or not isinstance(t.value, (int, float)) else str(t.value)])
        if rng.random() < 0.5:
            pairs.insert(rng.randrange(len(pairs) + 1), [0, "EOF"])
        if rng.random() < 0.3:
            pairs.insert(rng.randrange(len(pairs) + 1), [999, "comment"])
        pairs.append([0, "EOF"])
        text = json.dumps(pairs, indent=rng.choice([None, 0, 1]), separators=rng.choice([(",", ":"), (", ", ": "), (" ,\n", ":")]))
        ds = doc_struct(text)
        r = json_load_impl(text)
        if ds is None or r is None or not json_data_modelled(json.loads(text)):
            continue
        dcases.append((f"jdoc|{cps(text)}", ds, True))
        ft2 = ft_table(tag_floats(tags), re.findall(r"-?[0-9][0-9.eE+-]*", text) + json_texts(json.loads(text)))
        lcases.append((f"jload|{ft2}|{cps(text)}", r, True))
    ctx.correspond("X10 JSONTagWriter text", "C03", wcases, build=DRIVER_DEPS)
    ctx.correspond("X11 json.loads document", "C03", dcases, build=DRIVER_DEPS)
    ctx.correspond("X12 json_tag_loader+tag_compiler", "C03", lcases, build=DRIVER_DEPS)

    # --- X13: ASCII writer text, ascii_tags_loader+tag_compiler, recover bytes_loader+byte_tag_compiler
    rcases, acases, bcases, icases, wcases2 = [], [], [], [], []

    def ascii_str(rng_):
        return "".join(rng_.choice(["a", "B", " ", "\t", "7", "é", "\r", "\x0c", "\x1f", "\u2028", "\\U+00E4", "{", "%", "\x85", "\xa0"]) for _ in range(rng_.randrange(0, 5)))

    def plain_str(rng_):
        return "".join(rng_.choice(["a", "B", " ", "\t", "7", "\r", "\x0c", "\x1f", "{", "%", "\\U+00E4" if rng_.random() < 0.1 else "u"]) for _ in range(rng_.randrange(0, 5)))

    def amutate(text):
        op = rng.random()
        k = rng.randrange(len(text) + 1)
        if op < 0.25:
            return text.replace("\n", "\r\n")
        if op < 0.4:
            return text[:k]
        if op < 0.6:
            return text[:k] + rng.choice(["\n", " ", "x", "\r", "999\ncomment\n", "  0\nEOF\n", "-", "1"]) + text[k:]
        if op < 0.7:
            return text.rstrip("\n")
        return text

    for i in range(ctx.n(2500, 25000)):
        ascii_only = rng.random() < 0.5
        tags = gen_typed_tags(rng, strs=plain_str if ascii_only else ascii_str)
        text = ascii_text(tags)
        ft = ft_table(tag_floats(tags))
        rcases.append((f"arender|{ft}|" + ";".join(typed_tag(t) for t in tags), cps(text), bool(tags)))
        for variant in dict.fromkeys([text, amutate(text), amutate(text)]):  # deterministic order
            code_lines = variant.split("\n")[0::2]
            if variant.endswith("\n") and len(variant.split("\n")) % 2 == 1:
                code_lines = code_lines[:-1]

            def _int(t):
                try:
                    return int(t)
                except ValueError:
                    return None

            if any((_int(c) or 0) < 0 for c in code_lines):
                continue  # negative group codes are outside the model
            val_lines = variant.split("\n")[1::2]
            proe = False
            for c, v in zip(code_lines, val_lines):
                ci = _int(c)
                if ci is not None and 0 <= ci <= 1071 and cls_of(ci) in INTVALS and _int(v) is None:
                    try:
                        float(v)
                        proe = True  # ProE path int(float(text)): truncation is outside the model
                    except ValueError:
                        pass
            if proe:
                continue
            ft2 = ft_table(tag_floats(tags), line_texts(variant))
            acases.append((f"aload|{ft2}|{cps(variant)}", ascii_load_impl(variant), variant != text))
            icases.append((f"iload|{ft2}|{cps(variant)}", internal_load_impl(variant), variant != text))
            if all(ord(ch) < 128 for ch in variant) and "\\U+" not in variant and "\\M+" not in variant \
                    and all(_int(c) is not None or not any(ch.isdigit() for ch in c) for c in code_lines):
                try:
                    r = recover_load_impl(variant)
                except Exception as e:  # noqa: recover paths outside the model
                    continue
                bcases.append((f"rload|{ft2}|{cps(variant)}", r, variant != text))
    # vertices with more than three coordinates: DXFVertex.dxftags() zips with three codes, every writer drops the rest
    from ezdxf.lldxf.tagwriter import BinaryTagWriter as _BW2

    for i in range(ctx.n(200, 2000)):
        tags = [DXFTag(0, "X"), DXFVertex(rng.choice([10, 11, 210, 1010]), [rng.choice(FLOATS) for _ in range(rng.choice([3, 4, 5]))]), DXFTag(1, "y")]
        req = ";".join(typed_tag(t) for t in tags)
        ft = ft_table(tag_floats(tags))
        rcases.append((f"arender|{ft}|{req}", cps(ascii_text(tags)), True))
        for compact in (True, False):
            wcases2.append((f"jwrite|{int(compact)}|{ft}|{req}", cps(json_text(tags, compact)), True))
        sio = io.BytesIO()
        w = _BW2(sio, dxfversion="AC1021")
        for t in tags:
            w.write_tag(t)
        wcases2.append((f"bwrite|0|{req}", "ok " + nats(sio.getvalue()), True))
    # non-finite floats: the compact JSON writer falls back to strings / single tags (fix of F28)
    NONFIN = [float("inf"), float("-inf"), float("nan")]
    for i in range(ctx.n(200, 2000)):
        def fl():
            return rng.choice(NONFIN) if rng.random() < 0.4 else rng.choice(FLOATS)
        tags = [DXFTag(0, "X"), DXFTag(40, fl()), DXFVertex(rng.choice([10, 11, 210]), [fl() for _ in range(rng.choice([2, 3]))]), DXFTag(1, "y"),
                DXFVertex(12, [fl(), fl()])]
        req = ";".join(typed_tag(t) for t in tags)
        ft = ft_table(tag_floats(tags))
        for compact in (True, False):
            text = json_text(tags, compact)
            wcases2.append((f"jwrite|{int(compact)}|{ft}|{req}", cps(text), True))
            r = json_load_impl(text)
            ft2 = ft_table(tag_floats(tags), re.findall(r"-?[0-9][0-9.eE+-]*", text) + ["inf", "-inf", "nan"])
            wcases2.append((f"jload|{ft2}|{cps(text)}", r, True))
    ctx.correspond("X13 TagWriter text", "C03", rcases, build=DRIVER_DEPS)
    ctx.correspond("X13b writers: extra coordinates, non-finite floats in JSON", "C03", wcases2, build=DRIVER_DEPS)
    ctx.correspond("X14 ascii_tags_loader+tag_compiler", "C03", acases, build=DRIVER_DEPS)
    ctx.correspond("X15 recover bytes_loader+byte_tag_compiler", "C03", bcases, build=DRIVER_DEPS)
    ctx.correspond("X18 internal_tag_compiler typed", "C03", icases, build=DRIVER_DEPS)

    # --- X16: line framing helpers: universal newlines, readline, strip, int()
    cases = []
    for i in range(ctx.n(1500, 15000)):
        t = "".join(rng.choice(["a", "\r", "\n", "\r\n", " ", "1", "\x0c", "\u2028"]) for _ in range(rng.randrange(0, 9)))
        got = io.TextIOWrapper(io.BytesIO(t.encode("utf8")), encoding="utf8", newline=None).read()
        cases.append((f"univnl|{cps(t)}", cps(got), "\r" in t))
        cases.append((f"crlf|{cps(t)}", cps(t.replace("\n", "\r\n")), "\n" in t))
        st = io.StringIO(t, newline="\n")
        lines = []
        while True:
            ln = st.readline()
            if not ln:
                break
            lines.append(ln)
        cases.append((f"readlines|{cps(t)}", ";".join(cps(ln) for ln in lines), "\n" in t))
        u = "".join(rng.choice(["a", " ", "\t", "\n", "\x1c", "\x1f", "\x85", "\xa0", "\u2003", "\u3000", "\u200b", "\ufeff", "Z"]) for _ in range(rng.randrange(0, 7)))
        cases.append((f"strip|{cps(u)}", cps(u.strip()), True))
        if all(ord(ch) < 128 for ch in u):
            cases.append((f"stripb|{cps(u)}", cps(u.encode().strip().upper().decode()), True))
        iv = rng.choice(["", " ", "\t", "\u3000", "\x1f"]) + rng.choice(["", "-", "+"]) + "".join(rng.choice("0123456789") for _ in range(rng.randrange(0, 4))) + rng.choice(["", "\n", "\r\n", " \n", "\x85"])
        try:
            r = "ok " + str(int(iv))
        except ValueError:
            r = "none"
        cases.append((f"pyint|{cps(iv)}", r, True))
    ctx.correspond("X16 line framing", "C03", cases, build=DRIVER_DEPS)

    # --- X17: packedtags.VertexArray export / from_tags, binary chunking of _write_binary_chunks
    from ezdxf.lldxf.packedtags import VertexArray
    from ezdxf.lldxf.tagwriter import TagCollector, BinaryTagWriter
    from ezdxf.lldxf.tags import Tags

    cases = []
    for i in range(ctx.n(600, 6000)):
        size = rng.choice([2, 3])
        code = rng.choice([10, 11, 13, 210, 1010])
        pts = [[float(rng.randrange(-5, 50)) for _ in range(size)] for _ in range(rng.randrange(0, 5))]

        class VA(VertexArray):
            VERTEX_SIZE = size

        va = VA(pts)
        col = TagCollector()
        va.export_dxf(col, code)
        cases.append((f"vaexport|{code}|" + ";".join(nats(int(x) + 100 for x in p) for p in pts),
                      ";".join(f"{t.code}:{int(t.value) + 100}" for t in col.tags), bool(pts)))
        # from_tags on a mixed compiled tag list
        mixed = gen_typed_tags(rng, n=rng.randrange(0, 4), strs=lambda r_: "x")
        tags = []
        for p in pts:
            tags.append(DXFVertex(code, p if rng.random() < 0.9 else p[:2] + [1.0] * (5 - size - 2)))
            if mixed and rng.random() < 0.5:
                tags.append(mixed.pop())
        try:
            got = VA.from_tags(Tags(tags), code)
            r = "ok " + ";".join(",".join(str(_bits(float(x))) for x in v) for v in got.values)
        except (TypeError, ValueError):
            r = "err"
        cases.append((f"vafrom|{size}|{code}|" + ";".join(typed_tag(t) for t in tags), r, bool(pts)))
    from ezdxf.lldxf.packedtags import TagList

    for i in range(ctx.n(400, 4000)):
        code = rng.choice([70, 90, 93, 330])
        flat = [(rng.choice([code, code, code - 1, code + 1, 1, 1071]), rng.randrange(0, 50)) for _ in range(rng.randrange(0, 8))]
        got = TagList.from_tags(Tags(DXFTag(c, v) for c, v in flat), code).values
        cases.append((f"tlfrom|{code}|" + ";".join(f"{c}:{v}" for c, v in flat), nats(got), any(c == code for c, _ in flat)))
    for n in [0, 1, 2, 126, 127, 128, 253, 254, 255, 381, 382] + [rng.randrange(0, 700) for _ in range(ctx.n(20, 200))]:
        d = bytes(rng.randrange(256) for _ in range(n))
        sio = io.BytesIO()
        BinaryTagWriter(sio, dxfversion="AC1021").write_tag2(310, d)
        raw = sio.getvalue()
        chunks_, k = [], 0
        while k < len(raw):
            ln = raw[k + 2]
            chunks_.append(raw[k + 3:k + 3 + ln])
            k += 3 + ln
        cases.append((f"bchunks|{nats(d)}", ";".join(nats(c) for c in chunks_) + f"#{len(chunks_)}", True))
    ctx.correspond("X17 packed tags, binary chunks", "C03", cases, build=DRIVER_DEPS)

    # --- X21: whole tag lists through BinaryTagWriter.write_tag and tag_compiler(binary_tags_loader) (ASCII strings: the
    #          text codec is the identity), both widths, truncated streams included
    from ezdxf.lldxf.tagwriter import BinaryTagWriter as _BW
    from ezdxf.lldxf.tagger import tag_compiler as _tc, binary_tags_loader as _bl
    from ezdxf.lldxf.const import DXFStructureError as _SE

    def ascii7(r_):
        return "".join(r_.choice(["a", "B", " ", "7", "{", "%", "\t", '"', "\\"]) for _ in range(r_.randrange(0, 5)))

    cases = []
    for i in range(ctx.n(1200, 12000)):
        tags = [t for t in gen_typed_tags(rng, strs=ascii7) if t.code != 999 and not (isinstance(t.value, str) and not t.value.isascii())]
        req = ";".join(typed_tag(t) for t in tags)
        for r12 in (False, True):
            sio = io.BytesIO()
            w = _BW(sio, dxfversion="AC1009" if r12 else "AC1021", encoding="cp1252" if r12 else "utf8")
            try:
                for t in tags:
                    w.write_tag(t)
                enc = "ok " + nats(sio.getvalue())
            except OverflowError:
                enc = "err OverflowError"
            cases.append((f"bwrite|{int(r12)}|{req}", enc, bool(tags)))
            if not enc.startswith("ok"):
                continue
            data = sio.getvalue()
            for variant in dict.fromkeys([data, data[: rng.randrange(len(data) + 1)]]):
                try:
                    got = list(_tc(_bl(SIG + (b"" if r12 else R2000_HDR) + variant)))
                    if not r12:
                        got = got[2:]
                    r = "ok " + ";".join(typed_tag(t) for t in got)
                except (IndexError, struct.error, ValueError, _SE):  # a truncated stream
                    r = "err structure"
                cases.append((f"bload|{int(r12)}|{nats(variant)}", r, variant != data))
    ctx.correspond("X21 binary tag lists (write_tag, loader+tag_compiler)", "C03", cases, build=DRIVER_DEPS)

    # --- X22: float(text) vs parseFloat, and the per-literal check floatLitOK(bits, repr(x)) on a stratified sample:
    #          every binary exponent (denormals included), +-0, boundaries of the exact powers of ten (1e22/1e23), 2**53
    #          neighbourhood, halfway cases between adjacent doubles written with all their digits, over/underflow
    from fractions import Fraction

    cases = []
    xs = list(FLOATS) + [0.0, -0.0, 1e22, 1e23, 9007199254740992.0, 9007199254740994.0, 5e-324, 2.225073858507201e-308, 2.2250738585072014e-308,
                         1.7976931348623157e308, 0.3, 1 / 3, 1e-5, 1e15, 1e16, 123456789012345680.0, float("inf"), float("-inf"), float("nan")]
    for ex in range(0, 2047):  # one or more values per binary exponent
        for _ in range(1 if ctx.quick else 8):
            xs.append(struct.unpack("<d", struct.pack("<Q", (rng.getrandbits(1) << 63) | (ex << 52) | rng.getrandbits(52)))[0])
    for _ in range(ctx.n(500, 5000)):
        xs.append(struct.unpack("<d", struct.pack("<Q", rng.getrandbits(64)))[0])
        xs.append(float(rng.randrange(-10**6, 10**6)) / rng.choice([1, 10, 100, 1000, 3, 7]))
        xs.append(10.0 ** rng.randrange(-320, 309) * rng.choice([1, 5, 9.999999999999999]))
    texts = []
    for x in xs:
        t = repr(x)
        b = _bits(x)
        back = _bits(float(t))
        cases.append((f"fltcheck|{b}|{cps(t)}", "1" if back == b else "0", True))
        texts.append(t)
        if rng.random() < 0.3:
            texts += ["%.17g" % x, "%.3f" % x if abs(x) < 1e30 else t, "%e" % x, t.upper(), t.replace("e", "E+") if "e+" not in t and "e-" not in t else t]
    # halfway points between adjacent doubles, exactly, with all digits (round half to even) and one digit more/less
    for _ in range(ctx.n(300, 3000)):
        b = rng.getrandbits(62) % (2046 << 52)
        lo = struct.unpack("<d", struct.pack("<Q", b))[0]
        hi = struct.unpack("<d", struct.pack("<Q", b + 1))[0]
        mid = (Fraction(lo) + Fraction(hi)) / 2
        if mid == 0 or mid.denominator.bit_length() > 400 or mid.numerator.bit_length() > 400:
            continue
        k = mid.denominator.bit_length() - 1  # denominator is a power of two: exact decimal expansion with k digits
        digits = str(mid.numerator * 5 ** k)
        t = digits + "e-" + str(k)
        texts += [t, t.replace("e-", "1e-" + "") if False else digits + "1e-" + str(k + 1), str(int(digits) - 1) + "9e-" + str(k + 1)]
    texts += ["", ".", "e5", "1e", "1e+", "--1", "1..2", "infx", "nan", "-nan", "+inf", "Infinity", "-INFINITY", "iNf", ".5", "5.", "1.e3", "+1", "-.5e-3", "1e400",
              "-1e400", "1e-400", "0e999999", "0.0e-999999", "1e999999999", "1e-999999999", "00012.500", "9007199254740993", "9007199254740995",
              "179769313486231580793728971405303415079934132710037826936173778980444968292764750946649017977587207096330286416692887910946555547851940402630657488671505820681908902000708383676273854845817711531764475730270069855571366959622842914819860834936475292719074168444365510704342711559699508093042880177904174497791.999",
              "2.4703282292062327e-324", "2.4703282292062328e-324", "4.9406564584124654e-324", "7.4109846876186981e-324", "0x10", "1 2", "1e5.5", "1d5", "٣"]
    for t in dict.fromkeys(texts):
        if "_" in t or t != t.strip() or not t.isascii():
            continue
        try:
            r = "ok " + str(_bits(float(t)))
        except (ValueError, OverflowError):
            r = "none"
        cases.append((f"pfloat|{cps(t)}", r, True))
    ctx.correspond("X22 float() and the per-literal repr check", "C03", cases, build=DRIVER_DEPS)

    # --- X20: tags.group_tags
    from ezdxf.lldxf.tags import group_tags

    cases = []
    for i in range(ctx.n(800, 8000)):
        k = rng.choice([0, 0, 100, 1001])
        codes = [rng.choice([k, k, 1, 2, 10, 100, 0, 1001]) for _ in range(rng.randrange(0, 10))]
        groups = group_tags([DXFTag(c, j) for j, c in enumerate(codes)], k)
        r = ";".join(" ".join(f"{t.code}:{t.value}" for t in g) for g in groups)
        cases.append((f"group|{k}|{nats(codes)}", r, k in codes))
    ctx.correspond("X20 group_tags", "C03", cases, build=DRIVER_DEPS)

    # --- X19: binary_tags_loader.scan_params: which group-code width the loader decodes with
    from ezdxf.lldxf.tagger import binary_tags_loader

    def frame(w, code, sv):
        head = bytes([code]) if w == 1 else code.to_bytes(2, "little")
        return head + sv.encode("ascii") + b"\x00"

    cases = []
    versions = ["AC1009", "AC1006", "AC1012", "AC1014", "AC1015", "AC1018", "AC1021", "AC1024", "AC1027", "AC1032", "AB9999", "AC100A", "AD0000", "AC1008"]
    for i in range(ctx.n(400, 4000)):
        w = rng.choice([1, 2])
        ver = rng.choice(versions)
        body = frame(w, 0, "SECTION") + frame(w, 2, "HEADER")
        kind = rng.random()
        if kind < 0.25:  # other variables first: $ACADVER may lie beyond the 1024 byte window
            for _ in range(rng.randrange(0, 40)):
                body += frame(w, 9, "$PAD" + "X" * rng.randrange(0, 30)) + frame(w, 1, "v" * rng.randrange(0, 20))
        if kind < 0.9:
            body += frame(w, 9, "$ACADVER") + frame(w, 1, ver)
        body += frame(w, 9, "$INSBASE") + frame(w, 0, "ENDSEC")
        data = SIG + body
        try:
            t0 = next(binary_tags_loader(data))
            same_width = (t0.code == 0 and t0.value == "SECTION")
        except Exception:  # noqa
            same_width = False
        loader_r12 = (w == 1) if same_width else (w != 1)
        cases.append((f"scanr12|{nats(data)}", "1" if loader_r12 else "0", kind < 0.9))
    ctx.correspond("X19 binary loader width (scan_params)", "C03", cases, build=DRIVER_DEPS)


def gen_entity_tags(rng, malformed=False):
    """a structured entity tag sequence: base class (+ app data), subclasses, embedded object, xdata"""
    ts = [(0, "LINE"), (5, "%X" % rng.randrange(1, 999))]
    for _ in range(rng.choice([0, 0, 1, 2])):
        name = rng.choice(["{ACAD_REACTORS", "{ACAD_XDICTIONARY", "{MYAPP", "{"])
        ts.append((102, name))
        for _ in range(rng.randrange(0, 3)):
            ts.append((rng.choice([330, 360, 102, 1]), rng.choice(["1F", "x", "{", "102"])))
        ts.append((102, rng.choice(["}", name[1:] + "}", "}"]) if not (malformed and rng.random() < 0.3) else "nope"))
    if rng.random() < 0.5:
        ts.append((330, "1F"))
    for _ in range(rng.choice([0, 1, 2, 3])):
        ts.append((100, rng.choice(["AcDbEntity", "AcDbLine", "AcDbText"])))
        for _ in range(rng.randrange(0, 4)):
            ts.append((rng.choice([8, 10, 62, 102, 101, 1]), rng.choice(["0", "1.5", "{X", "}", "Embedded Object ", "txt"])))
    for _ in range(rng.choice([0, 0, 1, 2])):
        ts.append((101, "Embedded Object"))
        for _ in range(rng.randrange(0, 4)):
            ts.append((rng.choice([100, 10, 70, 102, 101]), rng.choice(["AcDbX", "1", "{A", "other"])))
    for _ in range(rng.choice([0, 0, 1, 2])):
        ts.append((1001, rng.choice(["ACAD", "APP2"])))
        for _ in range(rng.randrange(0, 4)):
            ts.append((rng.choice([1000, 1002, 1070, 1010, 100, 101, 102]), rng.choice(["{", "}", "5", "Embedded Object", "s"])))
    if malformed:
        k = rng.randrange(len(ts))
        op = rng.random()
        if op < 0.4:
            ts.insert(k, rng.choice([(1001, "Z"), (100, "Late"), (101, "Embedded Object"), (102, "{OPEN")]))
        elif op < 0.7 and len(ts) > 2:
            del ts[k]
        else:
            rng.shuffle(ts)
    return ts


# ------------------------------------------------------------------ oracle: writer -> loader on the real code
def oracle(ctx):
    from ezdxf.lldxf.tagwriter import TagWriter, BinaryTagWriter, JSONTagWriter
    from ezdxf.lldxf.tagger import ascii_tags_loader, tag_compiler, binary_tags_loader, json_tag_loader
    from ezdxf.lldxf.types import DXFTag, DXFVertex, DXFBinaryTag, dxftag
    from ezdxf.lldxf.extendedtags import ExtendedTags
    from ezdxf.lldxf import types as T

    rng = ctx.rng("oracle")

    def same(a, b):
        if a.code != b.code or type(a) is not type(b):
            return False
        va, vb = a.value, b.value
        if isinstance(a, DXFVertex):
            return len(va) == len(vb) and all(struct.pack("<d", x) == struct.pack("<d", y) for x, y in zip(va, vb))
        if isinstance(va, float):
            return isinstance(vb, float) and struct.pack("<d", va) == struct.pack("<d", vb)
        if isinstance(va, str) and isinstance(vb, str) and va != vb:
            from ezdxf.lldxf.encoding import decode_dxf_unicode

            vb = decode_dxf_unicode(vb)  # characters the code page cannot encode travel as \\U+XXXX (C09's subject)
        return type(va) is type(vb) and va == vb

    def join_bin(tags):
        """consecutive binary tags of one code are one payload (chunking is not part of the value)"""
        out = []
        for t in tags:
            if isinstance(t, DXFBinaryTag) and out and isinstance(out[-1], DXFBinaryTag) and out[-1].code == t.code:
                out[-1] = DXFBinaryTag(t.code, out[-1].value + t.value)
            else:
                out.append(t)
        return out

    def values_for(code):
        cls = cls_of(code)
        if code in T.POINT_CODES:
            return [(1.5, -0.0), (1 / 3, 5e-324, 1e300)]
        if cls in INTVALS:
            return [v for v in INTVALS[cls] if (0 <= v < 256 if cls == "bytes" else -(2 ** {"int16": 15, "int32": 31, "int64": 63}[cls]) <= v < 2 ** {"int16": 15, "int32": 31, "int64": 63}[cls])]
        if cls == "double":
            return FLOATS
        if cls == "binary":
            return [bytes(rng.randrange(256) for _ in range(n)) for n in (1, 127, 128, 300, 600)]
        strs = ["A", " lead", "trail ", "é€ß", 'q"uote', "back\\slash", "tab\there", "u\u2028v", "n\x85l", "f\x0cf\x1cs"] if code != 0 else ["LINE", "A"]
        if code in T.HEX_HANDLE_CODES:
            strs = ["1F", "0", "ABCDEF"]
        return strs

    formats = ["ascii", "internal", "bin2000", "bin12", "json", "jsonv", "crlf", "recover", "recover-crlf"]

    def roundtrip(fmt, tags):
        if fmt == "ascii":
            s = io.StringIO()
            w = TagWriter(s)
            for t in tags:
                w.write_tag(t)
            return list(tag_compiler(ascii_tags_loader(io.StringIO(s.getvalue(), newline="\n"))))
        if fmt == "crlf":  # a file with \r\n line ends read in text mode (universal newlines, as ezdxf.readfile does)
            s = io.StringIO()
            w = TagWriter(s)
            for t in tags:
                w.write_tag(t)
            data = s.getvalue().replace("\n", "\r\n").encode("utf8", "surrogatepass")
            stream = io.TextIOWrapper(io.BytesIO(data), encoding="utf8", errors="surrogatepass", newline=None)
            return list(tag_compiler(ascii_tags_loader(stream)))
        if fmt in ("recover", "recover-crlf"):  # recover mode: bytes_loader + byte_tag_compiler on the ASCII writer's bytes
            from ezdxf.recover import bytes_loader, byte_tag_compiler

            s = io.StringIO()
            w = TagWriter(s)
            for t in tags:
                w.write_tag(t)
            text = s.getvalue()
            if fmt == "recover-crlf":
                text = text.replace("\n", "\r\n")
            return list(byte_tag_compiler(bytes_loader(io.BytesIO(text.encode("utf8"))), encoding="utf8"))
        if fmt == "internal":  # Tags.from_text / write_str path: internal_tag_compiler on the ASCII writer's text
            from ezdxf.lldxf.tagger import internal_tag_compiler

            s = io.StringIO()
            w = TagWriter(s)
            for t in tags:
                w.write_tag(t)
            return list(internal_tag_compiler(s.getvalue()))
        if fmt in ("bin2000", "bin12"):
            s = io.BytesIO()
            # the loader derives the text encoding from the header: utf8 for AC1021+, cp1252 by default
            if fmt == "bin2000":
                w = BinaryTagWriter(s, dxfversion="AC1021", encoding="utf8")
            else:
                w = BinaryTagWriter(s, dxfversion="AC1009", encoding="cp1252")
            w.write_signature()
            if fmt == "bin2000":
                w.write_tag2(9, "$ACADVER"); w.write_tag2(1, "AC1021")
            for t in tags:
                w.write_tag(t)
            out = list(tag_compiler(binary_tags_loader(s.getvalue())))
            return out[2:] if fmt == "bin2000" else out
        s = io.StringIO()
        w = JSONTagWriter(s, compact=(fmt == "json"))
        for t in tags:
            w.write_tag(t)
        w.write_tag2(0, "EOF")
        data = json.loads(s.getvalue())
        return list(tag_compiler(json_tag_loader(data)))[:-1]

    for code in range(0, 1072):
        if code == 999:
            continue  # comments are skipped by design
        for v in values_for(code):
            tag = dxftag(code, v)
            seq = [DXFTag(0, "X"), tag, DXFTag(0, "Y")] if code not in T.POINT_CODES else [tag]
            for fmt in formats:
                case = (fmt, code, repr(v)[:40])
                ctx.count("O1 writer->loader", case, True)
                if fmt == "bin12" and 255 <= code < 1000:
                    kind = "bin-r12/code-255..999"
                else:
                    kind = f"{fmt}/{cls_of(code)}"
                try:
                    back = join_bin(roundtrip(fmt, seq))
                    ok = len(back) == len(seq) and all(same(a, b) for a, b in zip(seq, back))
                    detail = f"read back {back!r}"
                except Exception as e:  # noqa
                    ok, detail = False, f"raised {type(e).__name__}: {e}"
                if not ok:
                    ctx.fail(f"{kind}/{code}/{v!r:.40}", f"{fmt}: tag ({code}, {v!r:.60}) {detail[:200]}",
                             {"op": "roundtrip", "fmt": fmt, "code": code, "value": repr(v)})
    # non-finite floats: every format reads them back (compact JSON writes them as strings since the fix of F28)
    for x in (float("inf"), float("-inf"), float("nan")):
        for seq in ([DXFTag(0, "X"), DXFTag(40, x), DXFTag(0, "Y")], [DXFTag(0, "X"), DXFVertex(10, (x, 0.0)), DXFTag(0, "Y")]):
            for fmt in formats:
                ctx.count("O1 writer->loader", (fmt, seq[1].code, repr(x)), True)
                try:
                    back = roundtrip(fmt, seq)
                    ok = len(back) == 3 and same(back[1], seq[1])
                    detail = f"read back {back!r}"
                except Exception as e:  # noqa
                    ok, detail = False, f"raised {type(e).__name__}: {e}"
                if not ok:
                    ctx.fail(f"nonfinite/{fmt}/{seq[1].code}/{x!r}", f"{fmt}: tag ({seq[1].code}, {x!r}) {detail[:200]}",
                             {"op": "nonfinite", "fmt": fmt, "code": seq[1].code, "value": repr(x)})
    # JSON strings: control characters, DEL, non-BMP, lone surrogates; an adjacent (high, low) surrogate pair of
    # two code points is merged by json.loads (model: mergePairs) and is outside the hypothesis of the theorem
    for i in range(ctx.n(1500, 15000)):
        sv = gen_str(rng, rng.randrange(0, 8))
        expect = json.loads(json.dumps(sv))
        inside = expect == sv
        code = rng.choice([1, 2, 3, 102, 1000, 1001, 300, 410])
        for fmt in ("json", "jsonv"):
            seq = [DXFTag(0, "X"), DXFTag(code, sv), DXFTag(0, "Y")]
            ctx.count("O5 json strings", (fmt, code, sv), bool(sv))
            try:
                back = roundtrip(fmt, seq)
                ok = len(back) == 3 and back[1].code == code and back[1].value == (sv if inside else expect)
                detail = f"read back {back!r}"
            except Exception as e:  # noqa
                ok, detail = False, f"raised {type(e).__name__}: {e}"
            if not ok:
                ctx.fail(f"json-string/{fmt}/{code}/{sv!r:.40}", f"{fmt}: string tag ({code}, {sv!r:.80}) {detail[:200]}",
                         {"op": "jsonstr", "fmt": fmt, "code": code, "value": [ord(ch) for ch in sv]})
    # empty binary payload (one chunk of size 0 in binary DXF since the fix of F17; R12 binary frames binary data only
    # with the extended-data code 1004, see F7)
    for fmt in formats:
        bcode = 1004 if fmt == "bin12" else 310
        seq = [DXFTag(0, "X"), DXFBinaryTag(bcode, b""), DXFTag(0, "Y")]
        ctx.count("O1 writer->loader", (fmt, bcode, "empty"), True)
        try:
            back = roundtrip(fmt, seq)
            ok = len(back) == 3 and same(back[1], seq[1])
        except Exception as e:  # noqa
            ok = False
        if not ok:
            ctx.fail(f"empty-binary-tag/{fmt}", f"{fmt}: empty binary tag (310, b'') is not read back", {"op": "emptybin", "fmt": fmt})
    # tag sequences with 2D/3D point runs at start/end
    for i in range(ctx.n(1500, 15000)):
        n = rng.randrange(1, 7)
        seq = []
        for _ in range(n):
            r = rng.random()
            if r < 0.5:
                c = rng.choice(sorted(T.POINT_CODES))
                seq.append(DXFVertex(c, [rng.choice(FLOATS) for _ in range(rng.choice([2, 3]))]))
            else:
                c = rng.choice([1, 40, 70, 0, 8])
                seq.append(dxftag(c, {1: "txt", 40: 2.5, 70: 3, 0: "E", 8: "L"}[c]))
        # inside the quantifier: a 2D point is not followed by a tag with its z code (none of the singles is)
        fmt = rng.choice(formats)  # (R12 binary frames every code since the fix of F7)
        ctx.count("O2 point runs", (fmt, tuple((t.code, len(t.value) if isinstance(t, DXFVertex) else 0) for t in seq)), True)
        try:
            back = roundtrip(fmt, seq)
            ok = len(back) == len(seq) and all(same(a, b) for a, b in zip(seq, back))
        except Exception as e:  # noqa
            ok, back = False, repr(e)
        if not ok:
            ctx.fail(f"points/{fmt}/{[t.code for t in seq]}", f"{fmt}: {seq!r} read back as {back!r}"[:400],
                     {"op": "points", "fmt": fmt, "seq": [(t.code, list(t.value) if isinstance(t, DXFVertex) else t.value) for t in seq]})
    # ExtendedTags.new_app_data on base class and on named subclasses, then iterate / clone
    from ezdxf.lldxf.const import DXFStructureError

    for i in range(ctx.n(600, 6000)):
        ts = gen_entity_tags(rng, malformed=False)
        try:
            x = ExtendedTags([DXFTag(c, v) for c, v in ts])
        except DXFStructureError:
            continue
        names = [sc[0].value for sc in x.subclasses[1:] if sc and sc[0].code == 100]
        target = rng.choice([None] + names) if names else None
        ctx.count("O4 new_app_data", (tuple(ts), target), target is not None)
        try:
            x.new_app_data("{VERIFAPP", [(330, "1F")], subclass_name=target)
        except Exception:  # noqa
            continue
        for y, how in ((x, "iter"), (x.clone(), "clone")):
            back = [(t.code, t.value) for t in y]
            grp = [(102, "{VERIFAPP"), (330, "1F"), (102, "}")]
            ok = all(isinstance(v, str) for c, v in back if c == 102) and any(back[j:j + 3] == grp for j in range(len(back)))
            if not ok:
                ctx.fail(f"new_app_data/{how}/{'base' if target is None else 'subclass'}", f"new_app_data(subclass_name={target!r}) then {how}: {back}"[:300], {"op": "newapp", "tags": ts, "sub": target})

    oracle_entry_points(ctx, rng)
    oracle_packed(ctx, rng)

    for i in range(ctx.n(3000, 30000)):
        ts = gen_entity_tags(rng, malformed=rng.random() < 0.15)
        ctx.count("O3 xtags", tuple(ts), True)
        try:
            x = ExtendedTags([DXFTag(c, v) for c, v in ts])
        except DXFStructureError:
            continue
        back = [(t.code, t.value) for t in x]
        if back != ts:
            ctx.fail(f"xtags/{ts[:6]}", f"ExtendedTags iteration differs: {ts} -> {back}"[:400], {"op": "xtags", "tags": ts})


ENTRY_POINTS = {
    # public loader / writer entry point of lldxf (+ recover)  ->  model function it is tied to, and by what
    "types.DXFTag.dxfstr / DXFVertex.dxfstr / DXFBinaryTag.dxfstr / strtag": "AsciiTags.renderTag/render (X13 text equality)",
    "tagwriter.TagWriter.write_tag": "AsciiTags.render (X13)",
    "tagwriter.TagWriter.write_tag2 / write_vertex / write_tags / write_str": "== write_tag text (O6), hence AsciiTags.render",
    "tagwriter.BinaryTagWriter.write_tag2": "Codec.encTag (X1 bytes equality, both widths; X17 chunks)",
    "tagwriter.BinaryTagWriter.write_tag / write_vertex / write_str / write_tags": "== write_tag2 bytes (O6), hence Codec.encAll",
    "tagwriter.JSONTagWriter.write_tag / write_tag2(EOF)": "JsonTags.jsonWrite (X10 text equality, compact+verbose)",
    "tagwriter.JSONTagWriter.write_tag2 / write_vertex / write_str / write_tags": "== write_tag text (O6), hence JsonTags.jsonWrite",
    "tagwriter.TagCollector.write_tag / write_tag2 / write_vertex / write_str; basic_tags_from_text": "== Codec.flatten of the tags (O6)",
    "tagger.ascii_tags_loader + tag_compiler": "AsciiTags.asciiLoader/tagCompile (X14, X3 point logic, Gen obsCompile typing table)",
    "tagger.internal_tag_compiler; tags.Tags.from_text; extendedtags.ExtendedTags.from_text; tags.text2tags": "AsciiTags.internalLoad (X18, X5) / == internal_tag_compiler (O6)",
    "tagger.binary_tags_loader": "Codec.decAll (X1, error classes included; Gen obsLoader); scan_params width: Codec.scanVersion/loaderR12 (X19)",
    "tagger.json_tag_loader (+ json.loads)": "JsonTags.parseDoc/jsonTagLoader (X8 strings, X9 numbers, X11 documents, X12 typed)",
    "json.dumps (string escaping used by JSONTagWriter)": "JsonTags.escape (X7: every code point + random strings)",
    "recover.bytes_loader + byte_tag_compiler": "AsciiTags.recoverLoad (X15); recover.safe_tag_loader == that on well-formed input (O6)",
    "extendedtags.ExtendedTags(...)/__iter__/new_app_data": "XTags.setup/iter/newAppData (X4, X6)",
    "packedtags.VertexArray.export_dxf/from_tags; TagList/TagArray.from_tags": "AsciiTags.vaExport/vaFromTags/tlFromTags (X17)",
    "tags.group_tags": "AsciiTags.groupTags (X20)",
    "BinaryTagWriter.write_tag on tag lists + tag_compiler(binary_tags_loader)": "AsciiTags.binWrite/binLoad (X21)",
    "float(text) as used by tag_compiler / internal_tag_compiler / byte_tag_compiler": "AsciiTags.parseFloat (X22)",
    "io: text file newline translation, readline": "AsciiTags.univNL/readLines (X16)",
}


def oracle_entry_points(ctx, rng):
    """O6: every public writer/loader entry point that is not modelled directly produces exactly what the modelled
    entry point produces (so the theorems about the modelled one carry over)."""
    from ezdxf.lldxf.tagwriter import TagWriter, BinaryTagWriter, JSONTagWriter, TagCollector, basic_tags_from_text
    from ezdxf.lldxf.tagger import internal_tag_compiler
    from ezdxf.lldxf.tags import Tags, text2tags
    from ezdxf.lldxf.extendedtags import ExtendedTags
    from ezdxf.lldxf.types import DXFTag, DXFVertex, DXFBinaryTag, strtag
    from ezdxf.recover import safe_tag_loader, bytes_loader, byte_tag_compiler
    from ezdxf.lldxf import types as T

    for name, tie in ENTRY_POINTS.items():
        ctx.note(f"entry point {name}: {tie}")

    def key(t):
        return typed_tag(t)

    def flat(tags):
        out = []
        for t in tags:
            out += list(t.dxftags()) if isinstance(t, DXFVertex) else [t]
        return out

    def check(name, a, b, tags):
        ctx.count("O6 entry points", (name, tuple(key(t) for t in tags)), bool(tags))
        if a != b:
            ctx.fail(f"entry/{name}/{[key(t) for t in tags][:4]}", f"{name}: {a!r:.200} != {b!r:.200} for {tags!r:.200}",
                     {"op": "entry", "name": name, "tags": [key(t) for t in tags]})

    def plain(r_):
        return "".join(r_.choice(["a", "B", " ", "7", "{", "%", "é", "\u2028", "\x85", "\x1c", '"', "\\"]) for _ in range(r_.randrange(0, 5)))

    for i in range(ctx.n(400, 4000)):
        tags = [t for t in gen_typed_tags(rng, strs=plain) if not (t.code == 0 and t.value == "EOF") and t.code != 999]
        # --- ASCII writer
        ref = ascii_text(tags)
        s = io.StringIO(); w = TagWriter(s)
        for t in tags:
            if isinstance(t, DXFVertex):
                w.write_vertex(t.code, t.value)
            elif isinstance(t, DXFBinaryTag):
                w.write_tag2(t.code, t.tostring())
            else:
                w.write_tag2(t.code, t.value)
        check("TagWriter.write_tag2/write_vertex", s.getvalue(), ref, tags)
        s = io.StringIO(); TagWriter(s).write_tags(Tags(tags))
        check("TagWriter.write_tags", s.getvalue(), ref, tags)
        s = io.StringIO(); TagWriter(s).write_str(ref)
        check("TagWriter.write_str", s.getvalue(), ref, tags)
        check("strtag", "".join(strtag((t.code, t.tostring() if isinstance(t, DXFBinaryTag) else t.value)) for t in flat(tags)), ref, tags)
        if not tags:
            continue
        # --- internal compiler front ends
        want = [key(t) for t in internal_tag_compiler(ref)]
        check("Tags.from_text", [key(t) for t in Tags.from_text(ref)], want, tags)
        check("text2tags", [key(t) for t in text2tags(ref)], want, tags)
        check("internal_tag_compiler==tags", want, [key(t) for t in tags], tags)
        check("basic_tags_from_text", [key(t) for t in basic_tags_from_text(ref)], [key(t) for t in flat(Tags.from_text(ref))], tags)
        # --- collector
        col = TagCollector()
        for t in tags:
            col.write_tag(t)
        check("TagCollector.write_tag", [key(t) for t in col.tags], [key(t) for t in flat(tags)], tags)
        col2 = TagCollector(); col2.write_str(ref)
        check("TagCollector.write_str", [key(t) for t in col2.tags], [key(t) for t in flat(tags)], tags)
        col3 = TagCollector()
        for t in tags:
            if isinstance(t, DXFVertex):
                col3.write_vertex(t.code, t.value)
            elif not isinstance(t, DXFBinaryTag):
                col3.write_tag2(t.code, t.value)
        check("TagCollector.write_tag2/write_vertex", [key(t) for t in col3.tags], [key(t) for t in flat(tags) if not isinstance(t, DXFBinaryTag)], tags)
        # --- binary writer (R2000+ width; codes of the list are all framable)
        def bin_bytes(fn):
            b = io.BytesIO(); w_ = BinaryTagWriter(b, dxfversion="AC1021", encoding="utf8"); fn(w_); return b.getvalue()

        try:
            refb = bin_bytes(lambda w_: [w_.write_tag2(t.code, t.value) for t in flat(tags)])
        except OverflowError:  # an int outside the width of its class: no binary form (ASCII/JSON carry it)
            refb = None
        if refb is not None:
          check("BinaryTagWriter.write_tag", bin_bytes(lambda w_: [w_.write_tag(t) for t in tags]), refb, tags)
          check("BinaryTagWriter.write_tags", bin_bytes(lambda w_: w_.write_tags(Tags(tags))), refb, tags)
          check("BinaryTagWriter.write_vertex", bin_bytes(lambda w_: [w_.write_vertex(t.code, t.value) if isinstance(t, DXFVertex) else w_.write_tag(t) for t in tags]), refb, tags)
        if refb is not None and not any(isinstance(t, (DXFBinaryTag,)) or isinstance(t.value, float) or isinstance(t, DXFVertex) for t in tags):
            # write_str hands the TEXT of the value to write_tag2: equal bytes for strings and ints
            check("BinaryTagWriter.write_str", bin_bytes(lambda w_: w_.write_str(ref)), refb, tags)
        # --- JSON writer
        for compact in (True, False):
            refj = json_text(tags, compact, eof=False)
            s = io.StringIO(); JSONTagWriter(s, compact=compact).write_tags(Tags(tags))
            check(f"JSONTagWriter.write_tags/{int(compact)}", s.getvalue(), refj, tags)
            s = io.StringIO(); JSONTagWriter(s, compact=compact).write_str(ref)
            check(f"JSONTagWriter.write_str/{int(compact)}", s.getvalue(), refj, tags)
        # --- ExtendedTags.from_text (only for sequences its _setup accepts)
        if tags[0].code == 0 and all(t.code not in (100, 101, 102, 1001) for t in tags[1:]):
            check("ExtendedTags.from_text", [key(t) for t in ExtendedTags.from_text(ref)], want, tags)
        # --- recover front end on well-formed ASCII content
        if all(ord(ch) < 128 for ch in ref) and "\\" not in ref and all(not (t.code == 0 and t.value != t.value.strip().upper()) for t in tags if isinstance(t.value, str)) \
                and all(t.code not in (5, 105) and not (320 <= t.code < 370) for t in tags) \
                and not any(not isinstance(t, DXFVertex) and (t.code - 10 in T.POINT_CODES or t.code - 20 in T.POINT_CODES) for t in tags):
            # (the repair layer of safe_tag_loader drops orphaned y/z coordinate tags and invalid handles by design: C07)
            data = (ref + "  0\nEOF\n").encode("ascii")
            a = [key(t) for t in safe_tag_loader(io.BytesIO(data))]
            b = [key(t) for t in byte_tag_compiler(bytes_loader(io.BytesIO(data)))]
            check("recover.safe_tag_loader", a, b, tags)


def oracle_packed(ctx, rng):
    """O7: packedtags containers survive export -> ASCII text -> internal/ASCII compiler -> from_tags"""
    from ezdxf.lldxf.packedtags import VertexArray, TagArray, TagList
    from ezdxf.lldxf.tagwriter import TagWriter
    from ezdxf.lldxf.tags import Tags
    from ezdxf.lldxf.tagger import ascii_tags_loader, tag_compiler

    for i in range(ctx.n(300, 3000)):
        size = rng.choice([2, 3])
        code = rng.choice([10, 11, 12, 13, 210, 1010, 1011])

        class VA(VertexArray):
            VERTEX_SIZE = size

        pts = [tuple(rng.choice(FLOATS) for _ in range(size)) for _ in range(rng.randrange(0, 6))]
        va = VA(pts)
        s = io.StringIO()
        w = TagWriter(s)
        w.write_tag2(0, "X")
        va.export_dxf(w, code)
        w.write_tag2(1, "after")
        text = s.getvalue()
        ctx.count("O7 packed tags", ("va", size, code, tuple(pts)), bool(pts))
        for how, tags in (("from_text", Tags.from_text(text)), ("ascii", Tags(tag_compiler(ascii_tags_loader(io.StringIO(text)))))):
            try:
                back = [tuple(v) for v in VA.from_tags(tags, code).values]
                ok = len(back) == len(pts) and all(struct.pack(f"<{size}d", *a) == struct.pack(f"<{size}d", *b) for a, b in zip(pts, back))
            except Exception as e:  # noqa
                ok, back = False, repr(e)
            if not ok:
                ctx.fail(f"packed/vertexarray/{how}/{size}/{code}", f"VertexArray({pts!r:.120}) exported with code {code} and read by {how}: {back!r:.160}",
                         {"op": "packed", "size": size, "code": code, "pts": [list(p) for p in pts]})
        vals = [rng.randrange(-2**31, 2**31) for _ in range(rng.randrange(0, 6))]
        tags = Tags.from_text("".join("%3d\n%d\n" % (c, v) for c, v in [(90, 7), (95, 8)] + [(93, v) for v in vals] + [(91, 1), (94, 2), (1071, 3)]))
        ctx.count("O7 packed tags", ("tl", tuple(vals)), bool(vals))
        if list(TagList.from_tags(tags, 93).values) != vals or list(TagArray.from_tags(tags, 93).values) != vals:
            ctx.fail("packed/taglist", f"TagList/TagArray.from_tags lost values {vals!r:.120}", {"op": "packed-tl", "vals": vals})


def replay(ctx, rep):
    return True, "replay: re-run ./check C03 (inputs are regenerated deterministically from the seed in the replay file)"

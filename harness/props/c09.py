"""C09  Text survives every supported encoding (DESIGN.md section 7, C09)."""
from __future__ import annotations

import codecs
import itertools
import os
import re

from leanfmt import cps, lean_list, lean_str

ID = "C09"
LEAN_MODULES = ["EzdxfVerif.Props.C09"]
DRIVER_DEPS = ["EzdxfVerif.Model.Encoding", "EzdxfVerif.Gen.EncodingTables", "Drivers.Proto"]
SRCS = ["src/ezdxf/lldxf/encoding.py", "src/ezdxf/tools/codepage.py"]
UNDEF = 0xFFFFFF


# ====================================================================== regenerate (T-tab)
def nats(seq) -> str:
    return lean_list(str(int(x)) for x in seq)


def lstr(s: str) -> str:
    """a Python str as a Lean `List Nat` literal"""
    return "[" + ", ".join(str(ord(c)) for c in s) + "]"


def tabulate_handler():
    """dxf_backslash_replace on every single code point, run-length compressed into ranges of one
    uniform behaviour: ('esc', prefix, width, upper) or ('delegate',)."""
    from ezdxf.lldxf.encoding import dxf_backslash_replace

    sesc = codecs.lookup_error("surrogateescape")

    def candidates(x, o):
        out = set()
        for w in range(1, 13):
            for up in (False, True):
                t = ("%0*X" if up else "%0*x") % (w, x)
                if o.endswith(t):
                    out.add((o[: len(o) - len(t)], w, up))
        return out

    def holds(cand, x, o):
        pre, w, up = cand
        return o == pre + (("%0*X" if up else "%0*x") % (w, x))

    def pick(cands):
        # zero padding and a prefix ending in "0" are indistinguishable on some ranges: the widest
        # field = the shortest prefix is canonical; lower case when the range has no hex letter
        return sorted(cands, key=lambda c: (-c[1], c[2], c[0]))[0]

    ranges = []  # [lo, hi, kind]
    cur = None  # [lo, hi, "delegate" | set-of-candidates]
    for x in range(0x110000):
        c = chr(x)
        exc = UnicodeEncodeError("probe", c, 0, 1, "probe")
        try:
            want = sesc(exc)
        except UnicodeEncodeError as e:
            want = e
        try:
            got = dxf_backslash_replace(exc)
        except UnicodeEncodeError as e:
            got = e
        if got is want or (isinstance(got, tuple) and isinstance(want, tuple) and got == want):
            kind = "delegate"
        elif isinstance(got, tuple) and isinstance(got[0], str) and got[1] == 1:
            kind = got[0]
        else:
            raise ValueError(f"dxf_backslash_replace(U+{x:04X}) -> {got!r}: outside the modelled handler shapes")
        if cur is not None and cur[1] == x - 1:
            if kind == "delegate" and cur[2] == "delegate":
                cur[1] = x
                continue
            if kind != "delegate" and cur[2] != "delegate":
                keep = {cd for cd in cur[2] if holds(cd, x, kind)}
                if keep:
                    cur[1], cur[2] = x, keep
                    continue
        if cur is not None:
            ranges.append(cur)
        if kind == "delegate":
            cur = [x, x, "delegate"]
        else:
            cs = candidates(x, kind)
            if not cs:
                raise ValueError(f"dxf_backslash_replace(U+{x:04X}) -> {kind!r}: not prefix + hex(code point)")
            cur = [x, x, cs]
    ranges.append(cur)
    out = []
    for lo, hi, k in ranges:
        if k == "delegate":
            out.append((lo, hi, ("delegate",)))
        else:
            pre, w, up = pick(k)
            out.append((lo, hi, ("esc", pre, w, up)))
    return out


# the code pages the property is about; the source's table may only add to them (a codec that disappears from the
# table is still exercised by the oracle, which then reports the header/encoding mismatch)
EXPECTED_CODECS = ["cp874", "cp932", "gbk", "cp949", "cp950", "cp1250", "cp1251", "cp1252", "cp1253", "cp1254", "cp1255",
                   "cp1256", "cp1257", "cp1258"]


def codec_list():
    from ezdxf.tools import codepage

    encs = list(dict.fromkeys(EXPECTED_CODECS + list(codepage.codepage_to_encoding.values())))
    return encs


def tabulate_codec(enc: str):
    """per character encodings over the BMP (+ sampled astral planes)"""
    table = {}
    for x in itertools.chain(range(0x10000), range(0x10000, 0x110000, 257), (0x10FFFF,)):
        try:
            table[x] = chr(x).encode(enc)
        except UnicodeEncodeError:
            pass
    return table


def probe_grouped(enc: str) -> bool:
    """does the encoder hand maximal runs of unencodable characters to the error handler?"""
    seen = []

    def h(exc):
        seen.append(exc.end - exc.start)
        return ("?", exc.end)

    codecs.register_error("verif-c09-probe", h)
    "a\ud800\ud801\ud802b".encode(enc, "verif-c09-probe")
    if seen == [3]:
        return True
    if seen == [1, 1, 1]:
        return False
    raise ValueError(f"codec {enc}: unexpected error run structure {seen}")


_GEN_CACHE = {}


def gen_data():
    """everything regenerate() tabulates; also used by correspond()/oracle() of the same run"""
    if _GEN_CACHE:
        return _GEN_CACHE
    from ezdxf.lldxf import encoding as E
    from ezdxf.tools import codepage

    d = _GEN_CACHE
    d["fmt"] = tabulate_handler()
    d["cp2enc"] = list(codepage.codepage_to_encoding.items())
    d["enc2cp"] = list(codepage.encoding_to_codepage.items())
    d["codecs"] = codec_list()
    d["tables"] = {}
    d["sbcs"] = {}
    d["dbcs"] = {}
    d["grouped"] = {}
    for enc in d["codecs"] + ["utf8", "ascii"]:
        d["grouped"][enc] = probe_grouped(enc)
    for enc in d["codecs"]:
        t = tabulate_codec(enc)
        d["tables"][enc] = t
        maxlen = max(len(b) for b in t.values())
        if maxlen == 1:
            dec = []
            for b in range(256):
                try:
                    ch = bytes([b]).decode(enc)
                    if len(ch) != 1:
                        raise ValueError(f"{enc}: byte {b:#x} decodes to {ch!r}")
                    dec.append(ord(ch))
                except UnicodeDecodeError:
                    dec.append(UNDEF)
            # the encoder must be the inverse of the decoding table on everything tabulated
            for x, bs in t.items():
                if dec[bs[0]] != x:
                    raise ValueError(f"{enc}: U+{x:04X} encodes to {bs!r} which decodes to U+{dec[bs[0]]:04X}")
            for b, x in enumerate(dec):
                if x != UNDEF and t.get(x) != bytes([b]):
                    raise ValueError(f"{enc}: byte {b:#x} decodes to U+{x:04X} which encodes to {t.get(x)!r}")
            d["sbcs"][enc] = dec
        elif maxlen == 2:
            singles, leads, trails, lossy = [], set(), set(), []
            for x, bs in sorted(t.items()):
                if len(bs) == 1:
                    singles.append((x, bs[0]))
                else:
                    leads.add(bs[0])
                    trails.add(bs[1])
                try:
                    back = bs.decode(enc)
                except UnicodeDecodeError:
                    back = None
                if back != chr(x):
                    lossy.append(x)
            if leads & {b for _, b in singles}:
                raise ValueError(f"{enc}: a lead byte is also a single byte encoding (not a prefix code)")
            d["dbcs"][enc] = dict(singles=singles, leads=sorted(leads), trails=sorted(trails), lossy=lossy,
                                  count=len(t))
        else:
            raise ValueError(f"{enc}: encodings of up to {maxlen} bytes are outside the model")
    d["re_unicode"] = E.BACKSLASH_UNICODE.pattern
    d["re_mif"] = E.MIF_ENCODED.pattern
    return d


def lean_repl(k) -> str:
    if k[0] == "delegate":
        return ".delegate"
    _, pre, w, up = k
    return f".esc {lstr(pre)} {w} {'true' if up else 'false'}"


def lean_dict(items) -> str:
    return "[" + ",\n   ".join(f"({lstr(k)}, {lstr(v)})" for k, v in items) + "]"


def regenerate(ctx):
    for s in SRCS:
        ctx.src(s)
    _GEN_CACHE.clear()
    d = gen_data()
    out = ["import EzdxfVerif.Model.Encoding", "", "namespace EzdxfVerif.Gen.EncodingTables", "open EzdxfVerif.Encoding", ""]
    out.append("/-- `dxf_backslash_replace` evaluated on every code point 0..0x10FFFF, run-length compressed -/")
    out.append("def handlerFmt : Fmt :=\n  [" + ",\n   ".join(f"⟨{lo}, {hi}, {lean_repl(k)}⟩" for lo, hi, k in d["fmt"]) + "]")
    out.append("")
    out.append("/-- `codepage.codepage_to_encoding.items()` in dict order -/")
    out.append("def codepageToEncoding : Dict :=\n  " + lean_dict(d["cp2enc"]))
    out.append("/-- `codepage.encoding_to_codepage.items()` in dict order -/")
    out.append("def encodingToCodepage : Dict :=\n  " + lean_dict(d["enc2cp"]))
    out.append("")
    out.append("/-- does the codec's encoder report maximal runs of unencodable characters (probed) -/")
    out.append("def grouped : List (Str × Bool) :=\n  [" + ", ".join(
        f"({lstr(e)}, {'true' if g else 'false'})" for e, g in d["grouped"].items()) + "]")
    out.append("")
    out.append(f"/-- decoding tables of the single-byte code pages: entry b = code point of byte b, {UNDEF} = undefined -/")
    for enc, dec in d["sbcs"].items():
        out.append(f"def {enc}Table : List Nat :=\n  {nats(dec)}")
    out.append("def sbcsTables : List (Str × List Nat) :=\n  [" + ", ".join(
        f"({lstr(e)}, {e}Table)" for e in d["sbcs"]) + "]")
    out.append("")
    out.append("/-- double-byte code pages: all 1-byte encodings (code point, byte), the sets of lead and trail bytes of\n"
               "    all 2-byte encodings over the BMP, the characters whose encoding does not decode back to them -/")
    for enc, v in d["dbcs"].items():
        out.append(f"def {enc}Info : Dbcs where\n  name := {lstr(enc)}\n  singles := "
                   + lean_list(f"({x}, {b})" for x, b in v["singles"]) + f"\n  leads := {nats(v['leads'])}\n"
                   f"  trails := {nats(v['trails'])}\n  lossy := {nats(v['lossy'])}\n  count := {v['count']}")
    out.append("def dbcsInfos : List Dbcs := [" + ", ".join(f"{e}Info" for e in d["dbcs"]) + "]")
    out.append("")
    out.append(f"def backslashUnicodePattern : String := {lean_str(d['re_unicode'])}")
    out.append(f"def mifEncodedPattern : String := {lean_str(d['re_mif'])}")
    out.append("")
    out.append("end EzdxfVerif.Gen.EncodingTables")
    ctx.write_gen("EncodingTables", "\n".join(out) + "\n", SRCS)
    ctx.note(f"handler ranges: {[(hex(lo), hex(hi), k) for lo, hi, k in d['fmt']]}")


# ====================================================================== implementation side
RULE = (
    "correspondence (Lean model vs. real code, line by line): X1 dxf_backslash_replace on single code points "
    "(stratified over all planes; thorough: whole BMP) and on runs mixing encodable-nowhere characters, U+DC80..DCFF and other "
    "surrogates; X2 str.encode(codec, 'dxfreplace') for ascii, utf8, the 10 single-byte code pages (model tables) and the 4 "
    "CJK code pages (per-character encodings supplied by the codec, escape logic by the model) on single code points, all "
    "category triples and seeded random mixed strings; X3 bytes.decode(codec, 'surrogateescape') for utf8 (structured "
    "malformed sequences) and the single-byte pages (all 256 bytes); X4 decode_dxf_unicode / has_dxf_unicode / re.split / "
    "has_mif_encoding / recover.byte_tag_compiler string branch on exhaustive short and random strings "
    "over an escape alphabet; X5 toencoding / tocodepage on table keys with prefixes/suffixes and random names; X6 the whole "
    "pipeline encode -> decode -> decode_dxf_unicode. non-trivial = reaches the handler / a match / a non-default table "
    "branch; distinct by hash of the request line. oracle: real Drawing.saveas -> ezdxf.readfile / recover.readfile round "
    "trips of TEXT, MTEXT, layer names, XDATA strings and header variables for R12/R2000/R2004 x 14 code pages and R2007+ "
    "x {ASCII, binary}."
)
TRUSTED_BASE = [
    "CPython codecs: the 4 CJK code pages enter the theorems only through the recorded laws of `Lawful` (validated "
    "exhaustively over the BMP by regenerate: per-character round trip, prefix-code structure, byte sets) - not proved",
    "the single-byte tables and UTF-8 are modelled and proved lawful; that CPython's codecs equal these models is "
    "tabulated/corresponded, not proved",
    "CPython `re` for the two small patterns (hand model, pattern text pinned by theorem regex_patterns_as_modelled)",
    "int(s,16)/chr are only applied to four upper case hex digits (after fix 3fc8e70de): modelled as their positional value",
    "TextIOWrapper(errors='dxfreplace') behaves like str.encode per written string (exercised by the oracle only)",
]
ASSUMPTIONS = [
    "strings of the oracle are single-line, BMP, no C0/C1 controls, no surrogates, no literal \\U+ or \\M+, no leading/trailing "
    "white space, not ending in '^' (ezdxf's one-line-text fixer strips a trailing caret from TEXT on load: not an encoding matter)",
    "recover.readfile does not read Binary DXF (not a supported combination in ezdxf)",
]
OPEN = [
    "codec laws for cp932, gbk, cp949, cp950 are hypotheses of escape_roundtrip (validated exhaustively, not proved in Lean)",
    "cp932 (6) and cp950 (9) characters are encoded lossy by CPython's codecs (best fit): excluded by the `good` predicate, "
    "reported as known finding lossy-codec/*",
    "file framing (tag lines, NUL termination) is covered by byte-freeness theorems + oracle, the loaders themselves belong to C03/C07",
    "raw-byte survival (bytes -> str -> bytes) is proved for UTF-8 (utf8_bytes_roundtrip) and in general form "
    "(encode_surrogate_passthrough); for the single-byte tables it would need table injectivity, which is checked by "
    "regenerate in Python but not proved in Lean",
    "code points above U+FFFF under a legacy code page are written as \\U+%08x, which decode_dxf_unicode mis-decodes "
    "(first 4 digits): outside the property's BMP quantifier, modelled and corresponded but no theorem",
]


def nat_list(b) -> str:
    return " ".join(str(int(x)) for x in b)


def exc_name(e: BaseException) -> str:
    return type(e).__name__


def impl_handler(run: str) -> str:
    from ezdxf.lldxf.encoding import dxf_backslash_replace

    exc = UnicodeEncodeError("probe", "a" + run + "b", 1, 1 + len(run), "probe")
    try:
        rep, end = dxf_backslash_replace(exc)
    except Exception as e:  # noqa
        return "err " + exc_name(e)
    if end != 1 + len(run):
        return f"other end={end}"
    if isinstance(rep, bytes):
        return "bytes " + nat_list(rep)
    return "str " + cps(rep)


def impl_enc(enc: str, s: str) -> str:
    from ezdxf.lldxf.encoding import encode

    try:
        return "ok " + nat_list(encode(s, enc))
    except Exception as e:  # noqa
        return "err " + exc_name(e)


ESC_ALPHABET = "\\U+xX0123456789abcdefABCDEF"


def ext_request(enc: str, s: str, grouped: bool) -> str:
    """request line for a codec whose per-character encoder is supplied by the real codec"""
    aux = []
    for ch in dict.fromkeys(s + ESC_ALPHABET):
        try:
            aux.append(f"{ord(ch)}:{nat_list(ch.encode(enc))}")
        except UnicodeEncodeError:
            pass
    return f"enc|src|ext{1 if grouped else 0}|{cps(s)}|{','.join(aux)}"


def impl_dec(enc: str, b: bytes) -> str:
    return cps(b.decode(enc, errors="surrogateescape"))


def impl_undxf(s: str) -> str:
    from ezdxf.lldxf.encoding import decode_dxf_unicode

    try:
        return "ok " + cps(decode_dxf_unicode(s))
    except Exception as e:  # noqa
        return "err " + exc_name(e)


def impl_split(s: str) -> str:
    from ezdxf.lldxf.encoding import BACKSLASH_UNICODE

    return ";".join(cps(p) for p in re.split(BACKSLASH_UNICODE, s))


def impl_recover(s: str) -> str:
    """the string branch of recover.byte_tag_compiler on a value that decodes to `s`"""
    from ezdxf.lldxf.encoding import has_dxf_unicode, has_mif_encoding
    from ezdxf.lldxf.types import DXFTag
    from ezdxf.recover import byte_tag_compiler

    if not has_dxf_unicode(s) and has_mif_encoding(s):
        return "mif"
    try:
        tags = list(byte_tag_compiler([DXFTag(1, s.encode("utf8"))], encoding="utf8"))
    except Exception as e:  # noqa
        return "err " + exc_name(e)
    if len(tags) != 1 or tags[0].code != 1:
        return f"other {tags!r}"
    return "ok " + cps(tags[0].value)


def impl_rt(enc: str, s: str) -> str:
    from ezdxf.lldxf.encoding import decode_dxf_unicode, encode

    try:
        b = encode(s, enc)
    except Exception as e:  # noqa
        return "encerr " + exc_name(e)
    t = b.decode(enc, errors="surrogateescape")
    try:
        return "ok " + cps(decode_dxf_unicode(t))
    except Exception as e:  # noqa
        return "err " + exc_name(e)


# ====================================================================== generators
def stratified_codepoints(ctx, salt: str, per_block: int):
    """boundaries of every branch of the handler / UTF-8 / code page blocks + seeded samples of every 256-block"""
    rng = ctx.rng("cp/" + salt)
    pts = set()
    edges = [0, 0x1F, 0x20, 0x7E, 0x7F, 0x80, 0x9F, 0xA0, 0xFF, 0x100, 0x7FF, 0x800, 0xFFF, 0x1000, 0x2028, 0x2029,
             0xD7FF, 0xD800, 0xDBFF, 0xDC00, 0xDC7F, 0xDC80, 0xDCFF, 0xDD00, 0xDFFF, 0xE000, 0xFFFD, 0xFFFE, 0xFFFF,
             0x10000, 0x10FFFF, 0xABCD, 0xFACE, 0x0A0A, 0x0D0D, 0x5C5C, 0x20AC, 0x6539]
    for e in edges:
        for dlt in (-1, 0, 1):
            if 0 <= e + dlt <= 0x10FFFF:
                pts.add(e + dlt)
    for blk in range(0, 0x10000, 256):
        for _ in range(per_block):
            pts.add(blk + rng.randrange(256))
    for _ in range(60 * per_block):
        pts.add(rng.randrange(0x10000, 0x110000))
    return sorted(pts)


def codec_pools(enc: str):
    """(encodable non-ASCII, unencodable non-surrogate BMP) characters for a codec"""
    d = gen_data()
    if enc == "utf8":
        good = [x for x in range(0xA0, 0x10000, 37) if not 0xD800 <= x <= 0xDFFF]
        return good, []
    if enc == "ascii":
        return [], [x for x in range(0xA0, 0x10000, 37) if not 0xD800 <= x <= 0xDFFF]
    t = d["tables"][enc]
    good = [x for x in t if 0x80 <= x < 0x10000]
    bad = [x for x in range(0x80, 0x10000, 1) if x not in t and not 0xD800 <= x <= 0xDFFF]
    return good, bad


def category_char(rng, cat: str, good, bad):
    if cat == "A":
        return chr(rng.choice([0x20, 0x41, 0x5C, 0x55, 0x2B, 0x78, 0x7E, 0x30, 0x46, 0x66]))
    if cat == "G":
        return chr(rng.choice(good)) if good else "z"
    if cat == "L":  # latin-1 range, codec dependent whether encodable
        return chr(rng.randrange(0x80, 0x100))
    if cat == "B":
        return chr(rng.choice(bad)) if bad else chr(rng.choice(good))
    if cat == "E":
        return chr(rng.randrange(0xDC80, 0xDD00))
    if cat == "S":
        return chr(rng.choice([0xD800, 0xDBFF, 0xDC00, 0xDC7F, 0xDD00, 0xDFFF, rng.randrange(0xD800, 0xDC80)]))
    if cat == "X":
        return chr(rng.randrange(0x10000, 0x110000))
    raise ValueError(cat)


CATS = "AGLBESX"


def encode_strings(ctx, enc: str):
    """yield (kind, string) for the encode stream of one codec"""
    rng = ctx.rng("enc/" + enc)
    good, bad = codec_pools(enc)
    if ctx.quick:
        for x in stratified_codepoints(ctx, enc, 2):
            yield "single", chr(x)
    else:
        for x in itertools.chain(range(0x10000), stratified_codepoints(ctx, enc, 2)):
            yield "single", chr(x)
    for n in (2, 3):
        for pat in itertools.product(CATS, repeat=n):
            yield "cats", "".join(category_char(rng, c, good, bad) for c in pat)
    for _ in range(ctx.n(150, 2500)):
        n = rng.choice([1, 2, 3, 5, 8, 13, 21, 40])
        w = rng.choice(["AGB", "AGLB", "AGLBE", "AGLBESX", "ABX", "BE", "BBBS", "GGGB"])
        yield "rnd", "".join(category_char(rng, rng.choice(w), good, bad) for _ in range(rng.randint(1, n)))


def utf8_byte_strings(ctx):
    rng = ctx.rng("utf8dec")
    frag = [b"A", b"\\", b"\x7f", b"\xc2\x80", b"\xdf\xbf", b"\xe0\xa0\x80", b"\xe2\x82\xac", b"\xed\x9f\xbf", b"\xee\x80\x80",
            b"\xef\xbf\xbf", b"\xf0\x90\x80\x80", b"\xf4\x8f\xbf\xbf", b"\xf1\x80\x80\x80",
            # malformed: overlong, surrogates, > U+10FFFF, stray continuation, truncated, invalid leads
            b"\xc0\x80", b"\xc1\xbf", b"\xe0\x80\x80", b"\xe0\x9f\xbf", b"\xed\xa0\x80", b"\xed\xbf\xbf", b"\xf0\x80\x80\x80",
            b"\xf0\x8f\xbf\xbf", b"\xf4\x90\x80\x80", b"\xf5\x80\x80\x80", b"\xf8\x88\x80\x80\x80", b"\x80", b"\xbf", b"\xc2",
            b"\xe2\x82", b"\xe2", b"\xf0\x9f\x98", b"\xf0\x9f", b"\xf0", b"\xff", b"\xfe", b"\xc2\x41", b"\xe2\x82\x41",
            b"\xe2\x41\x82", b"\xf0\x9f\x41\x80", b"\xf0\x41", b"\xed\xa0", b"\xf4\x90"]
    for f in frag:
        yield f
    for a in frag:
        for b in frag[::3]:
            yield a + b
    for _ in range(ctx.n(1500, 20000)):
        k = rng.randint(1, 6)
        if rng.random() < 0.6:
            yield b"".join(rng.choice(frag) for _ in range(k))
        else:
            yield bytes(rng.choice([rng.randrange(256), rng.randrange(0x80, 0x100), rng.randrange(0xC0, 0x100),
                                    rng.randrange(0x80, 0xC0)]) for _ in range(rng.randint(1, 8)))


UNDXF_ALPHA = ["\\", "U", "+", "2", "0", "A", "C", "a", "c", "x", "M", "G"]
UNDXF_RICH = list("\\\\\\UUU+++MM0123456789ABCDEFabcdefxX_ -+gG\t\n") + [" ", "٣", "１", "　", "€", "\u0085",
                                                                         "\x1c", "Ａ", "\x00"]
INT_TAILS = ["", "0x", "0X1f", "0x_1F", "0x__1", "_1", "1_", "1__2", "1_2", " 1f ", "\t1f\n", "+1f", "-1f", "+ 1", "0x-1", "-0x1", "+-1",
             " ", "\x1c5", "5\x1f", "٣", "0x٣", " 5", "5\u0085", "1\x00", "0_x1", "0_1", "0x1_", "１２",
             "Ａ", "1 2", "0b1", "00x1", "x1", " - 1", "-_1", "0x_", "-0", "+0", "110000", "10FFFF", "10ffff", "-1", "D800",
             "dc80", "7FFFFFFF", "80000000", "-80000000", "-80000001", "FFFFFFFFFFFFFFFFFFFF", "-FFFFFFFFFFFFFFFFFFFF", "zz",
             "20AC", "20ac", "20aC", "20A", "20ACD", "G000", "+20AC", " 20AC", "20AC ", "2_0AC", "0x20", "٣٤٥٦"]


def undxf_strings(ctx):
    maxlen = ctx.n(4, 5)
    for n in range(0, maxlen + 1):
        for t in itertools.product(UNDXF_ALPHA[:9] if n == maxlen else UNDXF_ALPHA, repeat=n):
            yield "exh", "".join(t)
    for tail in INT_TAILS:
        for pre in ["", "a", "\\U+0041", "\\U+0041x", "\\U+20AC\\U+00E4"]:
            yield "tmpl", pre + "\\U+" + tail
        yield "tmpl", "\\M+" + tail
        yield "tmpl", tail
    for s in ["\\U+20AC", "x\\U+20AC", "\\U+20ACx", "\\\\U+20AC", "\\U+20AC\\U+20AC", "\\U+20A\\U+20AC", "\\U+\\U+20AC", "\\U+20ac",
              "x\\U+20ac", "\\M+182A0", "\\M+1xxxx", "\\M+682A0", "\\M+182a0", "x\\M+582A0y", "\\M+182A0\\U+20AC", "\\U+20AC\\M+182A0",
              "\\M+182A", "\\m+182A0", "\\u+20AC", "\\U +20AC", "\\U+D800\\U+DC00", "\\U+DC80", "\\U+0000", "\\U+000A", "\\U+FFFF"]:
        yield "tmpl", s
    rng = ctx.rng("undxf")
    for _ in range(ctx.n(3000, 40000)):
        n = rng.choice([1, 2, 3, 5, 8, 13, 21, 40])
        if rng.random() < 0.5:
            yield "rnd", "".join(rng.choice(UNDXF_RICH) for _ in range(rng.randint(0, n)))
        else:
            atoms = ["\\U+", "\\M+", "\\U+20AC", "\\U+00e4", "\\M+182A0", "\\", "U", "+", "0x", "_", " ", "-", "x", "G"] + list("0123456789ABCDEFabcdef")
            yield "rnd", "".join(rng.choice(atoms) for _ in range(rng.randint(0, n)))


def name_strings(ctx):
    d = gen_data()
    rng = ctx.rng("names")
    keys = [k for k, _ in d["cp2enc"]]
    encs = [e for _, e in d["cp2enc"]]
    for k in keys:
        for pre in ["ANSI_", "ansi_", "", "DOS", "ANSI_1", "x", "ANSI_" + k]:
            yield "toenc", pre + k
        yield "toenc", "ANSI_" + k + " "
        yield "toenc", "ANSI_" + k[:-1]
        yield "toenc", "ANSI_" + k[1:]
        yield "toenc", k + k
    for k1 in keys:
        for k2 in keys[::3]:
            yield "toenc", k1 + k2
    for s in ["", "ANSI_", "ANSI_1200", "dos437", "UTF-8", "ANSI_0", "1252", "ANSI_1252\n", "١٢٥٢", "ANSI_12520"]:
        yield "toenc", s
    for _ in range(ctx.n(400, 4000)):
        yield "toenc", "".join(rng.choice("0123456789AN_S I") for _ in range(rng.randint(0, 9))) + rng.choice(keys + ["", "9"])
    for e in encs:
        for v in [e, e.upper(), e + " ", "x" + e, e[:-1], e.replace("cp", "")]:
            yield "tocp", v
    for s in ["", "utf8", "utf-8", "ascii", "latin1", "cp936", "gb2312", "big5", "shift_jis", "cp437", "cp1252\n"]:
        yield "tocp", s
    for _ in range(ctx.n(200, 2000)):
        yield "tocp", "".join(rng.choice("cpgbk0123456789") for _ in range(rng.randint(0, 7)))


def correspond(ctx):
    from ezdxf.tools import codepage

    d = gen_data()
    build = DRIVER_DEPS
    # which handler format does the source have (tabulated)?  the driver compares Gen with the two known formats
    fmt = ctx.driver("C09", ["fmt"], build=build)[0]
    ctx.note(f"handler format tabulated from the source: {fmt}")
    _GEN_CACHE["fmt_name"] = fmt

    # ---- X1 handler
    cases = []
    for x in (stratified_codepoints(ctx, "handler", 3) if ctx.quick else
              list(range(0x10000)) + stratified_codepoints(ctx, "handler", 3)):
        ctx.hist("X1 handler", "single")
        cases.append((f"handler|src|{x}", impl_handler(chr(x)), True))
    rng = ctx.rng("runs")
    for n in (2, 3):
        for pat in itertools.product("LBESX", repeat=n):
            run = "".join(category_char(rng, c, [0x20AC], [0x20AC, 0x3A9, 0xFFFD, 0xABCD, 0x100]) for c in pat)
            ctx.hist("X1 handler", "run-cats")
            cases.append((f"handler|src|{cps(run)}", impl_handler(run), True))
    for _ in range(ctx.n(500, 5000)):
        run = "".join(category_char(rng, rng.choice("LBBEESX"), [0x20AC], [0x20AC, 0x3A9, 0xFFFD, 0xABCD, 0x100])
                      for _ in range(rng.randint(1, 9)))
        ctx.hist("X1 handler", "run-rnd")
        cases.append((f"handler|src|{cps(run)}", impl_handler(run), True))
    ctx.correspond("X1 handler", "C09", cases)

    # ---- X2 encode
    cases = []
    for enc in ["ascii", "utf8"] + d["codecs"]:
        ext = enc in d["dbcs"]
        for kind, s in encode_strings(ctx, enc):
            ctx.hist("X2 encode", f"{'dbcs' if ext else enc if enc in ('ascii', 'utf8') else 'sbcs'}/{kind}")
            req = ext_request(enc, s, d["grouped"][enc]) if ext else f"enc|src|{enc}|{cps(s)}|"
            out = impl_enc(enc, s)
            nontriv = out.startswith("err") or "92" in out.split()
            cases.append((req, out, nontriv))
    ctx.correspond("X2 encode", "C09", cases)

    # ---- X3 decode
    cases = []
    for b in utf8_byte_strings(ctx):
        ctx.hist("X3 decode", "utf8")
        cases.append((f"dec|utf8|{nat_list(b)}", impl_dec("utf8", b), any(x >= 0x80 for x in b)))
    rng = ctx.rng("sbcsdec")
    for enc in d["sbcs"]:
        allb = bytes(range(256))
        ctx.hist("X3 decode", "sbcs")
        cases.append((f"dec|{enc}|{nat_list(allb)}", impl_dec(enc, allb), True))
        for _ in range(ctx.n(20, 200)):
            b = bytes(rng.randrange(256) for _ in range(rng.randint(1, 12)))
            ctx.hist("X3 decode", "sbcs")
            cases.append((f"dec|{enc}|{nat_list(b)}", impl_dec(enc, b), any(x >= 0x80 for x in b)))
    ctx.correspond("X3 decode", "C09", cases)

    # ---- X4 unescape side
    from ezdxf.lldxf.encoding import has_dxf_unicode, has_mif_encoding

    cases = []
    seen = set()
    for kind, s in undxf_strings(ctx):
        if s in seen:
            continue
        seen.add(s)
        ctx.hist("X4 unescape", kind)
        nt = "\\U+" in s or "\\M+" in s
        c = cps(s)
        cases.append((f"undxf|{c}", impl_undxf(s), nt))
        cases.append((f"has|{c}", "1" if has_dxf_unicode(s) else "0", nt))
        cases.append((f"split|{c}", impl_split(s), nt))
        if kind != "exh" or len(s) <= 3:
            cases.append((f"hasmif|{c}", "1" if has_mif_encoding(s) else "0", nt))
        if "\n" not in s and "\r" not in s and "\x00" not in s:
            cases.append((f"recover|{c}", impl_recover(s), nt))
    ctx.correspond("X4 unescape", "C09", cases)

    # ---- X5 names
    cases = []
    for kind, s in name_strings(ctx):
        ctx.hist("X5 names", kind)
        if kind == "toenc":
            out = codepage.toencoding(s)
            cases.append((f"toenc|{cps(s)}", cps(out), out != "cp1252"))
        else:
            out = codepage.tocodepage(s)
            cases.append((f"tocp|{cps(s)}", cps(out), out != "ANSI_1252"))
    ctx.correspond("X5 names", "C09", cases)

    # ---- X6 pipeline (model codecs only)
    cases = []
    for enc in ["ascii", "utf8"] + list(d["sbcs"]):
        rng = ctx.rng("rt/" + enc)
        good, bad = codec_pools(enc)
        for _ in range(ctx.n(150, 1500)):
            w = rng.choice(["AGB", "AGLB", "AGLBE", "AAAB", "GB"])
            s = "".join(category_char(rng, rng.choice(w), good, bad) for _ in range(rng.randint(1, 16)))
            ctx.hist("X6 pipeline", "sbcs" if enc in d["sbcs"] else enc)
            cases.append((f"rt|src|{enc}|{cps(s)}", impl_rt(enc, s), True))
    ctx.correspond("X6 pipeline", "C09", cases)


# ====================================================================== oracle: real files
LEGACY_VERSIONS = ["R12", "R2000", "R2004"]
UTF8_VERSIONS = ["R2007", "R2010", "R2013", "R2018"]
MODES = [("asc", "strict"), ("asc", "recover"), ("bin", "strict")]
LAYER_FORBIDDEN = set('<>/\\":;?*|=`,')
ASCII_SPECIAL = "\\^%{};U+xM~ '\"#@[]|`$&()*/:<=>?_"


def is_plain_char(x: int) -> bool:
    """BMP, not C0/DEL/C1 control, not a surrogate"""
    return 0x20 <= x <= 0xFFFF and not (0x7F <= x <= 0x9F) and not (0xD800 <= x <= 0xDFFF)


def has_literal_escape(s: str) -> bool:
    return "\\U+" in s or "\\M+" in s


def codec_table(enc: str):
    d = gen_data()
    if enc == "utf8":
        return None
    return d["tables"][enc]


def encodable(enc: str, ch: str) -> bool:
    try:
        ch.encode(enc)
        return True
    except UnicodeEncodeError:
        return False


def lossy_chars(enc: str):
    d = gen_data()
    return set(d["dbcs"].get(enc, {}).get("lossy", []))


def special_trail_chars(enc: str):
    """characters of a double-byte code page whose trail byte is an ASCII character with a meaning in DXF text"""
    d = gen_data()
    if enc not in d["dbcs"]:
        return []
    out = {}
    for x, b in d["tables"][enc].items():
        if len(b) == 2 and is_plain_char(x) and chr(b[1]) in "\\^%{}|~@[]`_" + "ABCDEFabcdef0123456789UMx+":
            out.setdefault(b[1], []).append(x)
    res = []
    for tb, xs in sorted(out.items()):
        res += xs[:6] if chr(tb) in "\\^%{}|~" else xs[:1]
    return res


def sweep_codepoints(ctx, enc: str):
    if not ctx.quick:
        return [x for x in range(0x20, 0x10000) if is_plain_char(x)]
    rng = ctx.rng("sweep/" + enc)
    pts = set(x for x in stratified_codepoints(ctx, "oracle/" + enc, 3) if is_plain_char(x))
    t = codec_table(enc)
    if t is not None:
        enc_pts = sorted(x for x in t if is_plain_char(x) and x >= 0x80)
        # edges of the encodable set + a sample of it
        for i, x in enumerate(enc_pts):
            if i == 0 or enc_pts[i - 1] != x - 1 or i + 1 == len(enc_pts) or enc_pts[i + 1] != x + 1:
                if rng.random() < (1.0 if len(enc_pts) < 300 else 0.08):
                    pts.add(x)
                    if is_plain_char(x + 1):
                        pts.add(x + 1)
        pts.update(rng.sample(enc_pts, min(len(enc_pts), 250)))
        pts.update(x for x in lossy_chars(enc))
        pts.update(special_trail_chars(enc))
    pts.update(range(0xA0, 0x100))  # the former "\xNN" branch of the handler
    return sorted(pts)


def pack(points, n=16):
    """strings of n characters in code point order; framed so that no string starts/ends with white space and no
    literal escape prefix arises"""
    out = []
    for i in range(0, len(points), n):
        s = "s" + "".join(chr(x) for x in points[i : i + n]) + "e"
        if has_literal_escape(s):
            s = s.replace("\\U+", "\\ U+").replace("\\M+", "\\ M+")
        out.append(s)
    return out


def random_strings(ctx, enc: str, count: int):
    rng = ctx.rng("orc-rnd/" + enc)
    t = codec_table(enc)
    if t is None:
        good = [x for x in range(0xA0, 0x10000) if is_plain_char(x)]
        bad = []
    else:
        good = [x for x in t if is_plain_char(x) and x >= 0x80]
        bad = [x for x in range(0xA0, 0x10000) if is_plain_char(x) and x not in t]
    lat = [x for x in range(0xA0, 0x100)]
    digits_only = [x for x in (bad or good) if not any(c in "abcdef" for c in "%04x" % x)]
    special = special_trail_chars(enc) or good
    out = []
    while len(out) < count:
        n = rng.choice([1, 2, 3, 5, 8, 13, 21])
        kinds = rng.choice(["agb", "agbl", "aabbs", "ggggb", "bbbb", "abd", "lllb", "asgb", "a", "gs"])
        cs = []
        for _ in range(rng.randint(1, n)):
            k = rng.choice(kinds)
            if k == "a":
                cs.append(rng.choice(ASCII_SPECIAL + "abcXYZ019"))
            elif k == "g":
                cs.append(chr(rng.choice(good)))
            elif k == "b":
                cs.append(chr(rng.choice(bad or good)))
            elif k == "l":
                cs.append(chr(rng.choice(lat)))
            elif k == "d":
                cs.append(chr(rng.choice(digits_only)))
            elif k == "s":
                cs.append(chr(rng.choice(special)))
        s = "".join(cs)
        if has_literal_escape(s) or s != s.strip() or not s or s in out or s.endswith("^"):
            continue
        out.append(s)
    return out


class Place:
    """one document of the oracle: which strings go where"""

    def __init__(self, version, enc, fmt, reader, strings):
        self.version, self.enc, self.fmt, self.reader, self.strings = version, enc, fmt, reader, strings

    def ident(self):
        return f"{self.reader}/{self.fmt}/{self.version}/{self.enc}"


def layer_name(i: int, s: str):
    if any(c in LAYER_FORBIDDEN for c in s) or len(s) > 200:
        return None
    return f"L{i}_{s}"


def write_doc(pl: Place, path: str):
    import ezdxf

    doc = ezdxf.new(pl.version)
    doc.encoding = pl.enc
    msp = doc.modelspace()
    doc.appids.add("VERIFC09")
    mtext_ok = pl.version != "R12"
    for i, s in enumerate(pl.strings):
        t = msp.add_text(s)
        t.set_xdata("VERIFC09", [(1000, s), (1070, i)])
        if mtext_ok:
            msp.add_mtext(s)
        ln = layer_name(i, s)
        if ln is not None:
            doc.layers.add(ln)
    if pl.strings:
        doc.header["$MENU"] = pl.strings[0]
        doc.header["$DIMPOST"] = pl.strings[-1]
    doc.saveas(path, fmt=pl.fmt)


def read_doc(pl: Place, path: str):
    """-> dict where -> list of raw values (strict reader: still escaped)"""
    import ezdxf
    from ezdxf import recover

    if pl.reader == "strict":
        doc = ezdxf.readfile(path)
    else:
        doc, _aud = recover.readfile(path)
    msp = doc.modelspace()
    texts = list(msp.query("TEXT"))
    out = {
        "TEXT": [e.dxf.text for e in texts],
        "XDATA": [e.get_xdata("VERIFC09")[0].value for e in texts],
        "MTEXT": [e.text for e in msp.query("MTEXT")],
        "LAYER": [l.dxf.name for l in doc.layers],
        "HEADER": [doc.header["$MENU"], doc.header["$DIMPOST"]],
        "encoding": doc.encoding,
        "output_encoding": doc.output_encoding,
    }
    return out


def function_level(enc: str, s: str, reader: str = "strict"):
    """the same pipeline on the functions alone: encode -> codec decode -> decode_dxf_unicode
    (the recover loader decodes only `if has_dxf_unicode(...)`)"""
    from ezdxf.lldxf.encoding import decode_dxf_unicode, encode, has_dxf_unicode

    try:
        t = encode(s, enc).decode(enc, errors="surrogateescape")
        if reader == "recover" and not has_dxf_unicode(t):
            return t
        return decode_dxf_unicode(t)
    except Exception as e:  # noqa
        return e


def culprit_key(enc: str, s: str):
    """classify a string that does not survive the function level pipeline by the first character that explains it"""
    from ezdxf.lldxf.encoding import encode

    lossy = lossy_chars(enc)
    for ch in s:
        x = ord(ch)
        if encodable(enc, ch):
            if x in lossy:
                return f"lossy-codec/{enc}/U+{x:04X}"
            continue
        w = encode(ch, enc)
        if w == b"\\x%02x" % x:
            return f"escape/latin1-backslash-x/{enc}/U+{x:04X}"
        if w == b"\\U+%04x" % x and w != b"\\U+%04X" % x:
            return f"escape/lower-hex/{enc}/U+{x:04X}"
    return None


class Tally:
    def __init__(self, ctx):
        self.ctx = ctx
        self.counts = {}
        self.keys = set()

    def fail(self, key: str, what: str, replay: dict, cap_class: str | None = None):
        self.keys.add(key)
        cls = cap_class or key
        n = self.counts.get(cls, 0) + 1
        self.counts[cls] = n
        if n <= (12 if cls.startswith("lossy-codec") else 3):
            self.ctx.fail(key, what, replay)


def check_place(ctx, tally: Tally, pl: Place, depth=0):
    from ezdxf.lldxf.encoding import decode_dxf_unicode

    path = str(ctx.scratch / f"o_{os.getpid()}.dxf")
    utf8 = pl.version in UTF8_VERSIONS
    eff = "utf8" if utf8 else pl.enc
    rep = {"op": "file", "version": pl.version, "enc": pl.enc, "fmt": pl.fmt, "reader": pl.reader}
    try:
        write_doc(pl, path)
    except Exception as e:  # noqa
        tally.fail(f"file-layer/save-crash/{pl.ident()}/{type(e).__name__}", f"saveas raised {type(e).__name__}: {e}",
                   {**rep, "strings": pl.strings})
        return
    try:
        got = read_doc(pl, path)
    except Exception as e:  # noqa
        # a string whose escapes make the loader raise takes the whole document with it: classify, drop, retry once
        crashing = [s for s in pl.strings if isinstance(function_level(eff, s, pl.reader), Exception)]
        explained = False
        for s in crashing:
            k = culprit_key(eff, s)
            if k:
                explained = True
                tally.fail(k + "/load-crash", f"{pl.ident()}: loading a file with {s!r} raised {type(e).__name__}: {e}",
                           {**rep, "strings": [s]}, cap_class=k.rsplit("/", 1)[0])
        if not explained or depth > 0:
            tally.fail(f"file-layer/load-crash/{pl.ident()}/{type(e).__name__}",
                       f"{pl.reader} reader raised {type(e).__name__}: {e}", {**rep, "strings": pl.strings})
            return
        rest = [s for s in pl.strings if s not in crashing]
        if rest:
            check_place(ctx, tally, Place(pl.version, pl.enc, pl.fmt, pl.reader, rest), depth + 1)
        return
    finally:
        try:
            os.unlink(path)
        except OSError:
            pass
    want_enc = pl.enc
    if got["encoding"] != want_enc or got["output_encoding"] != ("utf-8" if utf8 else want_enc):
        tally.fail(f"file-layer/encoding-detection/{pl.ident()}",
                   f"document encoding after load: {got['encoding']}/{got['output_encoding']}, saved with {want_enc}",
                   {**rep, "strings": pl.strings[:1]})
    dec = decode_dxf_unicode if pl.reader == "strict" else (lambda v: v)

    def compare(where, s, raw):
        ctx.count("O1 file round trip", (pl.ident(), where, s), not s.isascii())
        try:
            val = dec(raw)
        except Exception as e:  # noqa
            val = e
        if isinstance(val, str) and val == s:
            return
        fl = function_level(eff, s, pl.reader)
        same = (isinstance(fl, Exception) and isinstance(val, Exception) and type(fl) is type(val)) or (
            isinstance(fl, str) and isinstance(val, str) and fl == val)
        k = culprit_key(eff, s) if same else None
        shown = f"{type(val).__name__}: {val}" if isinstance(val, Exception) else repr(val)
        if k:
            tally.fail(k, f"{pl.ident()} {where}: {s!r} read back as {shown}", {**rep, "strings": [s], "where": where},
                       cap_class=k.rsplit("/", 1)[0])
        else:
            tally.fail(f"roundtrip/{pl.ident()}/{where}/{s!r}", f"{pl.ident()} {where}: {s!r} read back as {shown}",
                       {**rep, "strings": [s], "where": where}, cap_class=f"roundtrip/{pl.ident()}/{where}")

    n = len(pl.strings)
    for where in ("TEXT", "XDATA") + (("MTEXT",) if pl.version != "R12" else ()):
        vals = got[where]
        if len(vals) != n:
            tally.fail(f"file-layer/count/{pl.ident()}/{where}", f"{where}: wrote {n} read {len(vals)}", {**rep, "strings": pl.strings})
            continue
        for s, raw in zip(pl.strings, vals):
            compare(where, s, raw)
    compare("HEADER", pl.strings[0], got["HEADER"][0])
    compare("HEADER", pl.strings[-1], got["HEADER"][1])
    names = {}
    for raw in got["LAYER"]:
        m = re.match(r"L(\d+)_", raw)
        if m:
            names[int(m.group(1))] = raw
    for i, s in enumerate(pl.strings):
        ln = layer_name(i, s)
        if ln is None:
            continue
        if i not in names:
            tally.fail(f"file-layer/layer-missing/{pl.ident()}/{s!r}", f"layer {ln!r} missing after load", {**rep, "strings": [s], "where": "LAYER"})
            continue
        compare("LAYER", ln, names[i])


def oracle_places(ctx):
    d = gen_data()
    per_doc = ctx.n(48, 256)
    for ei, enc in enumerate(d["codecs"]):
        strings = pack(sweep_codepoints(ctx, enc)) + random_strings(ctx, enc, ctx.n(160, 1500))
        combos = [(v, m) for v in LEGACY_VERSIONS for m in MODES]
        if ctx.quick:
            # every (version, mode) combination sees an interleaved 1/9 of the strings
            for ci, (v, (fmt, reader)) in enumerate(combos):
                part = strings[ci::len(combos)]
                for i in range(0, len(part), per_doc):
                    yield Place(v, enc, fmt, reader, part[i : i + per_doc])
        else:
            # every mode sees every string; the version rotates per document
            for mi, (fmt, reader) in enumerate(MODES):
                for di, i in enumerate(range(0, len(strings), per_doc)):
                    v = LEGACY_VERSIONS[(di + mi + ei) % 3]
                    yield Place(v, enc, fmt, reader, strings[i : i + per_doc])
    # R2007+: UTF-8 whatever the document encoding says
    strings = pack(sweep_codepoints(ctx, "utf8")) + random_strings(ctx, "utf8", ctx.n(160, 1500))
    vers = ["R2007", "R2018"] if ctx.quick else UTF8_VERSIONS
    combos = [(v, m) for v in vers for m in MODES]
    for ci, (v, (fmt, reader)) in enumerate(combos):
        part = strings[ci::len(combos)] if ctx.quick else strings
        enc = d["codecs"][ci % len(d["codecs"])]
        for i in range(0, len(part), per_doc):
            yield Place(v, enc, fmt, reader, part[i : i + per_doc])


def check_function(tally: Tally, enc: str, s: str):
    """the property on the functions alone (both readers' post-processing)"""
    r = function_level(enc, s)
    r2 = function_level(enc, s, "recover")
    if r == s and r2 == s:
        return
    if r == s:
        r = r2
    k = culprit_key(enc, s)
    what = f"encode/decode/decode_dxf_unicode under {enc}: {s!r} -> " + (
        f"{type(r).__name__}: {r}" if isinstance(r, Exception) else repr(r))
    if k:
        tally.fail(k, what, {"op": "function", "enc": enc, "strings": [s]}, cap_class=k.rsplit("/", 1)[0])
    else:
        tally.fail(f"roundtrip/function/{enc}/U+{ord(s[1]):04X}", what, {"op": "function", "enc": enc, "strings": [s]},
                   cap_class=f"roundtrip/function/{enc}")


def oracle(ctx):

    d = gen_data()
    tally = Tally(ctx)
    # O2: the function level pipeline on single BMP code points x every codec
    # (thorough: every plain BMP code point; quick: U+0020..U+05FF, 24 per 256-block, the codec's own sweep points)
    base = None
    if ctx.quick:
        base = set(range(0x20, 0x600)) | set(stratified_codepoints(ctx, "o2", 24))
    for enc in d["codecs"] + ["utf8"]:
        pts = range(0x20, 0x10000) if base is None else sorted(base | set(sweep_codepoints(ctx, enc)))
        for x in pts:
            if is_plain_char(x):
                ctx.count("O2 function level", (enc, x), x >= 0x80)
                check_function(tally, enc, "a" + chr(x) + "b")
    # O1: real files
    ndocs = 0
    for pl in oracle_places(ctx):
        ndocs += 1
        ctx.hist("O1 file round trip", f"{pl.reader}/{pl.fmt}/{pl.version}")
        check_place(ctx, tally, pl)
    ctx.note(f"oracle documents written and read: {ndocs}; failing inputs per class (all, before the per-class cap of 12): {tally.counts}")
    # O3: the code page written to the file names the codec that was used
    import ezdxf

    from ezdxf.tools import codepage

    for enc in d["codecs"]:
        doc = ezdxf.new("R2000")
        doc.encoding = enc
        path = str(ctx.scratch / "o3.dxf")
        doc.saveas(path)
        back = ezdxf.readfile(path)
        ctx.count("O3 code page header", enc, True)
        if back.encoding != enc:
            tally.fail(f"file-layer/codepage/{enc}", f"saved with {enc}, $DWGCODEPAGE={back.header['$DWGCODEPAGE']} loads as {back.encoding}",
                       {"op": "codepage", "enc": enc})
        name = codepage.tocodepage(enc)
        if codepage.toencoding(name) != enc or not codepage.is_supported_encoding(enc):
            tally.fail(f"names/{enc}", f"tocodepage({enc!r}) = {name!r}, toencoding({name!r}) = {codepage.toencoding(name)!r}",
                       {"op": "codepage", "enc": enc})


def replay(ctx, rep):
    """re-evaluate every recorded failing input; it still fails if the same key is produced again"""
    gen_data()
    bad = []
    for f in rep.get("failing_inputs", []):
        r = f["replay"]
        tally = Tally(ctx)
        tally.ctx = type("NoRecord", (), {"fail": staticmethod(lambda *a, **k: None), "count": ctx.count, "scratch": ctx.scratch})()
        if r["op"] == "file":
            check_place(tally.ctx, tally, Place(r["version"], r["enc"], r["fmt"], r["reader"], r["strings"]))
        elif r["op"] == "function":
            for s in r["strings"]:
                check_function(tally, r["enc"], s)
        elif r["op"] == "codepage":
            import ezdxf
            from ezdxf.tools import codepage

            doc = ezdxf.new("R2000")
            doc.encoding = r["enc"]
            p = str(ctx.scratch / "rp.dxf")
            doc.saveas(p)
            if ezdxf.readfile(p).encoding != r["enc"] or codepage.toencoding(codepage.tocodepage(r["enc"])) != r["enc"]:
                tally.keys.add(f["key"])
        base = f["key"][: -len("/load-crash")] if f["key"].endswith("/load-crash") else f["key"]
        if f["key"] in tally.keys or base in tally.keys:
            bad.append(f["key"])
    return (not bad, "; ".join(bad) or "all recorded failing inputs pass now")

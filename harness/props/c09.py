"""C09  Text survives every supported encoding (DESIGN.md section 7, C09)."""
from __future__ import annotations

import codecs
import itertools
import os
import re

from leanfmt import cps, lean_list, lean_str

ID = "C09"
LEAN_MODULES = ["EzdxfVerif.Props.C09"]
DRIVER_DEPS = ["EzdxfVerif.Model.Encoding", "EzdxfVerif.Gen.EncodingTables", "Drivers.Proto"]
SRCS = ["src/ezdxf/lldxf/encoding.py", "src/ezdxf/tools/codepage.py"]
UNDEF = 0xFFFFFF


# ====================================================================== regenerate (T-tab)
def nats(seq) -> str:
    return lean_list(str(int(x)) for x in seq)


def lstr(s: str) -> str:
    """a Python str as a Lean `List Nat` literal"""
    return "[" + ", ".join(str(ord(c)) for c in s) + "]"


def tabulate_handler():
    """dxf_backslash_replace on every single code point, run-length compressed into ranges of one
    uniform behaviour: ('esc', prefix, width, upper) or ('delegate',)."""
    from ezdxf.lldxf.encoding import dxf_backslash_replace

    sesc = codecs.lookup_error("surrogateescape")

    def candidates(x, o):
        out = set()
        for w in range(1, 13):
            for up in (False, True):
                t = ("%0*X" if up else "%0*x") % (w, x)
                if o.endswith(t):
                    out.add((o[: len(o) - len(t)], w, up))
        return out

    def holds(cand, x, o):
        pre, w, up = cand
        return o == pre + (("%0*X" if up else "%0*x") % (w, x))

    def pick(cands):
        # zero padding and a prefix ending in "0" are indistinguishable on some ranges: the widest
        # field = the shortest prefix is canonical; lower case when the range has no hex letter
        return sorted(cands, key=lambda c: (-c[1], c[2], c[0]))[0]

    ranges = []  # [lo, hi, kind]
    cur = None  # [lo, hi, "delegate" | set-of-candidates]
    for x in range(0x110000):
        c = chr(x)
        exc = UnicodeEncodeError("probe", c, 0, 1, "probe")
        try:
            want = sesc(exc)
        except UnicodeEncodeError as e:
            want = e
        try:
            got = dxf_backslash_replace(exc)
        except UnicodeEncodeError as e:
            got = e
        if got is want or (isinstance(got, tuple) and isinstance(want, tuple) and got == want):
            kind = "delegate"
        elif isinstance(got, tuple) and isinstance(got[0], str) and got[1] == 1:
            kind = got[0]
        else:
            raise ValueError(f"dxf_backslash_replace(U+{x:04X}) -> {got!r}: outside the modelled handler shapes")
        if cur is not None and cur[1] == x - 1:
            if kind == "delegate" and cur[2] == "delegate":
                cur[1] = x
                continue
            if kind != "delegate" and cur[2] != "delegate":
                keep = {cd for cd in cur[2] if holds(cd, x, kind)}
                if keep:
                    cur[1], cur[2] = x, keep
                    continue
        if cur is not None:
            ranges.append(cur)
        if kind == "delegate":
            cur = [x, x, "delegate"]
        else:
            cs = candidates(x, kind)
            if not cs:
                raise ValueError(f"dxf_backslash_replace(U+{x:04X}) -> {kind!r}: not prefix + hex(code point)")
            cur = [x, x, cs]
    ranges.append(cur)
    out = []
    for lo, hi, k in ranges:
        if k == "delegate":
            out.append((lo, hi, ("delegate",)))
        else:
            pre, w, up = pick(k)
            if hi >= 16 ** w and any(len("%x" % v) > w for v in (hi,)):
                pass  # pyHex in the model widens like "%0wx" does
            out.append((lo, hi, ("esc", pre, w, up)))
    return out


def codec_list():
    from ezdxf.tools import codepage

    encs = list(dict.fromkeys(codepage.codepage_to_encoding.values()))
    return encs


def tabulate_codec(enc: str):
    """per character encodings over the BMP (+ sampled astral planes)"""
    table = {}
    for x in itertools.chain(range(0x10000), range(0x10000, 0x110000, 257), (0x10FFFF,)):
        try:
            table[x] = chr(x).encode(enc)
        except UnicodeEncodeError:
            pass
    return table


def probe_grouped(enc: str) -> bool:
    """does the encoder hand maximal runs of unencodable characters to the error handler?"""
    seen = []

    def h(exc):
        seen.append(exc.end - exc.start)
        return ("?", exc.end)

    codecs.register_error("verif-c09-probe", h)
    "a\ud800\ud801\ud802b".encode(enc, "verif-c09-probe")
    if seen == [3]:
        return True
    if seen == [1, 1, 1]:
        return False
    raise ValueError(f"codec {enc}: unexpected error run structure {seen}")


def int_tables():
    """what int(s, 16) knows about non-ASCII characters"""
    spaces, digits = [], []
    for x in range(128, 0x110000):
        c = chr(x)
        try:
            a = int("5" + c, 16)
        except ValueError:
            a = None
        try:
            b = int(c + "5", 16)
        except ValueError:
            b = None
        if a == 5 and b == 5:
            spaces.append(x)
        elif a is not None:
            d = a - 0x50
            if not (0 <= d < 16) or b != d * 16 + 5:
                raise ValueError(f"int(): unexpected behaviour for U+{x:04X}")
            digits.append((x, d))
        elif b is not None:
            raise ValueError(f"int(): unexpected behaviour for U+{x:04X}")
    return spaces, digits


_GEN_CACHE = {}


def gen_data():
    """everything regenerate() tabulates; also used by correspond()/oracle() of the same run"""
    if _GEN_CACHE:
        return _GEN_CACHE
    from ezdxf.lldxf import encoding as E
    from ezdxf.tools import codepage

    d = _GEN_CACHE
    d["fmt"] = tabulate_handler()
    d["cp2enc"] = list(codepage.codepage_to_encoding.items())
    d["enc2cp"] = list(codepage.encoding_to_codepage.items())
    d["codecs"] = codec_list()
    d["tables"] = {}
    d["sbcs"] = {}
    d["dbcs"] = {}
    d["grouped"] = {}
    for enc in d["codecs"] + ["utf8", "ascii"]:
        d["grouped"][enc] = probe_grouped(enc)
    for enc in d["codecs"]:
        t = tabulate_codec(enc)
        d["tables"][enc] = t
        if any(x < 0x20 or x == 0x7F for x in ()):  # pragma: no cover
            pass
        maxlen = max(len(b) for b in t.values())
        if maxlen == 1:
            dec = []
            for b in range(256):
                try:
                    ch = bytes([b]).decode(enc)
                    if len(ch) != 1:
                        raise ValueError(f"{enc}: byte {b:#x} decodes to {ch!r}")
                    dec.append(ord(ch))
                except UnicodeDecodeError:
                    dec.append(UNDEF)
            # the encoder must be the inverse of the decoding table on everything tabulated
            for x, bs in t.items():
                if dec[bs[0]] != x:
                    raise ValueError(f"{enc}: U+{x:04X} encodes to {bs!r} which decodes to U+{dec[bs[0]]:04X}")
            for b, x in enumerate(dec):
                if x != UNDEF and t.get(x) != bytes([b]):
                    raise ValueError(f"{enc}: byte {b:#x} decodes to U+{x:04X} which encodes to {t.get(x)!r}")
            d["sbcs"][enc] = dec
        elif maxlen == 2:
            singles, leads, trails, lossy = [], set(), set(), []
            for x, bs in sorted(t.items()):
                if len(bs) == 1:
                    singles.append((x, bs[0]))
                else:
                    leads.add(bs[0])
                    trails.add(bs[1])
                try:
                    back = bs.decode(enc)
                except UnicodeDecodeError:
                    back = None
                if back != chr(x):
                    lossy.append(x)
            if leads & {b for _, b in singles}:
                raise ValueError(f"{enc}: a lead byte is also a single byte encoding (not a prefix code)")
            d["dbcs"][enc] = dict(singles=singles, leads=sorted(leads), trails=sorted(trails), lossy=lossy,
                                  count=len(t))
        else:
            raise ValueError(f"{enc}: encodings of up to {maxlen} bytes are outside the model")
    d["spaces"], d["digits"] = int_tables()
    d["re_unicode"] = E.BACKSLASH_UNICODE.pattern
    d["re_mif"] = E.MIF_ENCODED.pattern
    return d


def lean_repl(k) -> str:
    if k[0] == "delegate":
        return ".delegate"
    _, pre, w, up = k
    return f".esc {lstr(pre)} {w} {'true' if up else 'false'}"


def lean_dict(items) -> str:
    return "[" + ",\n   ".join(f"({lstr(k)}, {lstr(v)})" for k, v in items) + "]"


def regenerate(ctx):
    for s in SRCS:
        ctx.src(s)
    _GEN_CACHE.clear()
    d = gen_data()
    out = ["import EzdxfVerif.Model.Encoding", "", "namespace EzdxfVerif.Gen.EncodingTables", "open EzdxfVerif.Encoding", ""]
    out.append("/-- `dxf_backslash_replace` evaluated on every code point 0..0x10FFFF, run-length compressed -/")
    out.append("def handlerFmt : Fmt :=\n  [" + ",\n   ".join(f"⟨{lo}, {hi}, {lean_repl(k)}⟩" for lo, hi, k in d["fmt"]) + "]")
    out.append("")
    out.append("/-- `codepage.codepage_to_encoding.items()` in dict order -/")
    out.append("def codepageToEncoding : Dict :=\n  " + lean_dict(d["cp2enc"]))
    out.append("/-- `codepage.encoding_to_codepage.items()` in dict order -/")
    out.append("def encodingToCodepage : Dict :=\n  " + lean_dict(d["enc2cp"]))
    out.append("")
    out.append("/-- does the codec's encoder report maximal runs of unencodable characters (probed) -/")
    out.append("def grouped : List (Str × Bool) :=\n  [" + ", ".join(
        f"({lstr(e)}, {'true' if g else 'false'})" for e, g in d["grouped"].items()) + "]")
    out.append("")
    out.append(f"/-- decoding tables of the single-byte code pages: entry b = code point of byte b, {UNDEF} = undefined -/")
    for enc, dec in d["sbcs"].items():
        out.append(f"def {enc}Table : List Nat :=\n  {nats(dec)}")
    out.append("def sbcsTables : List (Str × List Nat) :=\n  [" + ", ".join(
        f"({lstr(e)}, {e}Table)" for e in d["sbcs"]) + "]")
    out.append("")
    out.append("/-- double-byte code pages: all 1-byte encodings (code point, byte), the sets of lead and trail bytes of\n"
               "    all 2-byte encodings over the BMP, the characters whose encoding does not decode back to them -/")
    out.append("structure Dbcs where\n  name : Str\n  singles : List (Nat × Nat)\n  leads : List Nat\n  trails : List Nat\n"
               "  lossy : List Nat\n  count : Nat")
    for enc, v in d["dbcs"].items():
        out.append(f"def {enc}Info : Dbcs where\n  name := {lstr(enc)}\n  singles := "
                   + lean_list(f"({x}, {b})" for x, b in v["singles"]) + f"\n  leads := {nats(v['leads'])}\n"
                   f"  trails := {nats(v['trails'])}\n  lossy := {nats(v['lossy'])}\n  count := {v['count']}")
    out.append("def dbcsInfos : List Dbcs := [" + ", ".join(f"{e}Info" for e in d["dbcs"]) + "]")
    out.append("")
    out.append("/-- non-ASCII characters `int()` strips as white space / accepts as decimal digits -/")
    out.append(f"def uniSpaces : List Nat :=\n  {nats(d['spaces'])}")
    out.append("def uniDigits : List (Nat × Nat) :=\n  " + lean_list(f"({x}, {v})" for x, v in d["digits"]))
    out.append("def uniTab : UniTab where\n  space x := uniSpaces.contains x\n"
               "  digit x := (uniDigits.find? (fun p => p.1 = x)).map (·.2)")
    out.append("")
    out.append(f"def backslashUnicodePattern : String := {lean_str(d['re_unicode'])}")
    out.append(f"def mifEncodedPattern : String := {lean_str(d['re_mif'])}")
    out.append("")
    out.append("end EzdxfVerif.Gen.EncodingTables")
    ctx.write_gen("EncodingTables", "\n".join(out) + "\n", SRCS)
    ctx.note(f"handler ranges: {[(hex(lo), hex(hi), k) for lo, hi, k in d['fmt']]}")

"""C09  Text survives every supported encoding (DESIGN.md section 7, C09)."""
from __future__ import annotations

import codecs
import itertools
import os
import re

from leanfmt import cps, lean_list, lean_str

ID = "C09"
LEAN_MODULES = ["EzdxfVerif.Props.C09"]
DRIVER_DEPS = ["EzdxfVerif.Model.Encoding", "EzdxfVerif.Model.EncodingExt", "EzdxfVerif.Gen.EncodingTables",
               "EzdxfVerif.Gen.CjkTables", "Drivers.Proto"]
SRCS = ["src/ezdxf/lldxf/encoding.py", "src/ezdxf/tools/codepage.py", "src/ezdxf/lldxf/const.py", "src/ezdxf/document.py"]
UNDEF = 0xFFFFFF


# ====================================================================== regenerate (T-tab)
def nats(seq) -> str:
    return lean_list(str(int(x)) for x in seq)


def lstr(s: str) -> str:
    """a Python str as a Lean `List Nat` literal"""
    return "[" + ", ".join(str(ord(c)) for c in s) + "]"


def tabulate_handler():
    """dxf_backslash_replace on every single code point, run-length compressed into ranges of one
    uniform behaviour: ('esc', prefix, width, upper) or ('delegate',)."""
    from ezdxf.lldxf.encoding import dxf_backslash_replace

    sesc = codecs.lookup_error("surrogateescape")

    def candidates(x, o):
        out = set()
        for w in range(1, 13):
            for up in (False, True):
                t = ("%0*X" if up else "%0*x") % (w, x)
                if o.endswith(t):
                    out.add((o[: len(o) - len(t)], w, up))
        return out

    def holds(cand, x, o):
        pre, w, up = cand
        return o == pre + (("%0*X" if up else "%0*x") % (w, x))

    def pick(cands):
        # zero padding and a prefix ending in "0" are indistinguishable on some ranges: the widest
        # field = the shortest prefix is canonical; lower case when the range has no hex letter
        return sorted(cands, key=lambda c: (-c[1], c[2], c[0]))[0]

    ranges = []  # [lo, hi, kind]
    cur = None  # [lo, hi, "delegate" | set-of-candidates]
    for x in range(0x110000):
        c = chr(x)
        exc = UnicodeEncodeError("probe", c, 0, 1, "probe")
        try:
            want = sesc(exc)
        except UnicodeEncodeError as e:
            want = e
        try:
            got = dxf_backslash_replace(exc)
        except UnicodeEncodeError as e:
            got = e
        if got is want or (isinstance(got, tuple) and isinstance(want, tuple) and got == want):
            kind = "delegate"
        elif isinstance(got, tuple) and isinstance(got[0], str) and got[1] == 1:
            kind = got[0]
        else:
            raise ValueError(f"dxf_backslash_replace(U+{x:04X}) -> {got!r}: outside the modelled handler shapes")
        if cur is not None and cur[1] == x - 1:
            if kind == "delegate" and cur[2] == "delegate":
                cur[1] = x
                continue
            if kind != "delegate" and cur[2] != "delegate":
                keep = {cd for cd in cur[2] if holds(cd, x, kind)}
                if keep:
                    cur[1], cur[2] = x, keep
                    continue
        if cur is not None:
            ranges.append(cur)
        if kind == "delegate":
            cur = [x, x, "delegate"]
        else:
            cs = candidates(x, kind)
            if not cs:
                raise ValueError(f"dxf_backslash_replace(U+{x:04X}) -> {kind!r}: not prefix + hex(code point)")
            cur = [x, x, cs]
    ranges.append(cur)
    out = []
    for lo, hi, k in ranges:
        if k == "delegate":
            out.append((lo, hi, ("delegate",)))
        else:
            pre, w, up = pick(k)
            out.append((lo, hi, ("esc", pre, w, up)))
    return out


# the code pages the property is about; the source's table may only add to them (a codec that disappears from the
# table is still exercised by the oracle, which then reports the header/encoding mismatch)
EXPECTED_CODECS = ["cp874", "cp932", "gbk", "cp949", "cp950", "cp1250", "cp1251", "cp1252", "cp1253", "cp1254", "cp1255",
                   "cp1256", "cp1257", "cp1258"]


def codec_list():
    from ezdxf.tools import codepage

    encs = list(dict.fromkeys(EXPECTED_CODECS + list(codepage.codepage_to_encoding.values())))
    return encs


def tabulate_codec(enc: str):
    """per character encodings over the BMP (+ sampled astral planes)"""
    table = {}
    for x in itertools.chain(range(0x10000), range(0x10000, 0x110000, 257), (0x10FFFF,)):
        try:
            table[x] = chr(x).encode(enc)
        except UnicodeEncodeError:
            pass
    return table


def probe_grouped(enc: str) -> bool:
    """does the encoder hand maximal runs of unencodable characters to the error handler?"""
    seen = []

    def h(exc):
        seen.append(exc.end - exc.start)
        return ("?", exc.end)

    codecs.register_error("verif-c09-probe", h)
    "a\ud800\ud801\ud802b".encode(enc, "verif-c09-probe")
    if seen == [3]:
        return True
    if seen == [1, 1, 1]:
        return False
    raise ValueError(f"codec {enc}: unexpected error run structure {seen}")


PACK_K = 32  # 32-bit entries per packed number of Gen/CjkTables


def tabulate_dbcs_full(enc: str, bmp_table: dict, lossy: list):
    """the complete decoder (every 1- and 2-byte sequence that decodes to ONE character) and the complete encoder (every
    code point) of a double-byte codec, as entries key*65536+cp, key = byte or lead*256+trail"""
    dec = []
    single_bytes = set()
    for b in range(256):
        try:
            ch = bytes([b]).decode(enc)
        except UnicodeDecodeError:
            continue
        if len(ch) != 1 or ord(ch) > 0xFFFF:
            raise ValueError(f"{enc}: byte {b:#x} decodes to {ch!r}: outside the model")
        single_bytes.add(b)
        dec.append(b * 65536 + ord(ch))
    leads = set()
    for lead in range(256):
        if lead in single_bytes:
            continue
        for trail in range(256):
            try:
                ch = bytes([lead, trail]).decode(enc)
            except UnicodeDecodeError:
                continue
            if len(ch) != 1 or ord(ch) > 0xFFFF:
                raise ValueError(f"{enc}: bytes {lead:#x} {trail:#x} decode to {ch!r}: outside the model")
            leads.add(lead)
            dec.append((lead * 256 + trail) * 65536 + ord(ch))
    # the encoder: the BMP was tabulated per character; above it nothing may be encodable (one C-level call per plane)
    for plane in range(1, 17):
        chunk = "".join(map(chr, range(plane * 0x10000, (plane + 1) * 0x10000)))
        if chunk.encode(enc, "ignore"):
            raise ValueError(f"{enc}: encodes characters above U+FFFF: outside the model")
    encm = []
    for x, bs in bmp_table.items():
        if x > 0xFFFF:
            raise ValueError(f"{enc}: encodes U+{x:X}: outside the model")
        encm.append((bs[0] if len(bs) == 1 else bs[0] * 256 + bs[1]) * 65536 + x)
    encm.sort()
    decset = set(dec)
    good = [e for e in encm if e in decset]
    bad = [e for e in encm if e not in decset]
    if sorted(e % 65536 for e in bad) != sorted(lossy):
        raise ValueError(f"{enc}: lossy characters {lossy} != encoder entries without decoder entry {bad}")
    lead_ranges = []
    for b in sorted(leads):
        if lead_ranges and lead_ranges[-1][1] == b - 1:
            lead_ranges[-1][1] = b
        else:
            lead_ranges.append([b, b])
    return dict(dec=dec, good=good, bad=bad, leads=[tuple(r) for r in lead_ranges])


def lean_packed(entries) -> str:
    """`unpackL K [rest] [packed numbers]`"""
    full = len(entries) // PACK_K * PACK_K
    nums = []
    for i in range(0, full, PACK_K):
        n = 0
        for j, e in enumerate(entries[i : i + PACK_K]):
            assert 0 <= e < 2 ** 32
            n |= e << (32 * j)
        nums.append(hex(n))
    return f"unpackL {PACK_K} {nats(entries[full:])}\n    [" + ",\n     ".join(nums) + "]"


_GEN_CACHE = {}


def gen_data():
    """everything regenerate() tabulates; also used by correspond()/oracle() of the same run"""
    if _GEN_CACHE:
        return _GEN_CACHE
    from ezdxf.lldxf import encoding as E
    from ezdxf.tools import codepage

    d = _GEN_CACHE
    d["fmt"] = tabulate_handler()
    d["cp2enc"] = list(codepage.codepage_to_encoding.items())
    d["enc2cp"] = list(codepage.encoding_to_codepage.items())
    d["codecs"] = codec_list()
    d["tables"] = {}
    d["sbcs"] = {}
    d["dbcs"] = {}
    d["dbcs_full"] = {}
    d["grouped"] = {}
    for enc in d["codecs"] + ["utf8", "ascii"]:
        d["grouped"][enc] = probe_grouped(enc)
    for enc in d["codecs"]:
        t = tabulate_codec(enc)
        d["tables"][enc] = t
        maxlen = max(len(b) for b in t.values())
        if maxlen == 1:
            for plane in range(1, 17):  # tabulate_codec samples the astral planes: nothing there may be encodable
                if "".join(map(chr, range(plane * 0x10000, (plane + 1) * 0x10000))).encode(enc, "ignore"):
                    raise ValueError(f"{enc}: encodes characters above U+FFFF: outside the model")
            dec = []
            for b in range(256):
                try:
                    ch = bytes([b]).decode(enc)
                    if len(ch) != 1:
                        raise ValueError(f"{enc}: byte {b:#x} decodes to {ch!r}")
                    dec.append(ord(ch))
                except UnicodeDecodeError:
                    dec.append(UNDEF)
            # the encoder must be the inverse of the decoding table on everything tabulated
            for x, bs in t.items():
                if dec[bs[0]] != x:
                    raise ValueError(f"{enc}: U+{x:04X} encodes to {bs!r} which decodes to U+{dec[bs[0]]:04X}")
            for b, x in enumerate(dec):
                if x != UNDEF and t.get(x) != bytes([b]):
                    raise ValueError(f"{enc}: byte {b:#x} decodes to U+{x:04X} which encodes to {t.get(x)!r}")
            d["sbcs"][enc] = dec
        elif maxlen == 2:
            singles, leads, trails, lossy = [], set(), set(), []
            for x, bs in sorted(t.items()):
                if len(bs) == 1:
                    singles.append((x, bs[0]))
                else:
                    leads.add(bs[0])
                    trails.add(bs[1])
                try:
                    back = bs.decode(enc)
                except UnicodeDecodeError:
                    back = None
                if back != chr(x):
                    lossy.append(x)
            if leads & {b for _, b in singles}:
                raise ValueError(f"{enc}: a lead byte is also a single byte encoding (not a prefix code)")
            d["dbcs"][enc] = dict(singles=singles, leads=sorted(leads), trails=sorted(trails), lossy=lossy,
                                  count=len(t))
            d["dbcs_full"][enc] = tabulate_dbcs_full(enc, t, lossy)
        else:
            raise ValueError(f"{enc}: encodings of up to {maxlen} bytes are outside the model")
    from ezdxf.lldxf import const

    d["versions"] = [(v, v >= const.DXF2007) for v in const.acad_release]
    d["mif_pages"] = []
    for k, v in E.MIF_CODE_PAGE.items():
        if len(k) != 1:
            raise ValueError(f"MIF_CODE_PAGE key {k!r}: `_decode_mif` looks at one character (s[3]): outside the model")
        try:
            nm = codecs.lookup(v).name
        except LookupError:
            nm = ""
        d["mif_pages"].append((ord(k), nm))
    d["re_unicode"] = E.BACKSLASH_UNICODE.pattern
    d["re_mif"] = E.MIF_ENCODED.pattern
    return d


def lean_repl(k) -> str:
    if k[0] == "delegate":
        return ".delegate"
    _, pre, w, up = k
    return f".esc {lstr(pre)} {w} {'true' if up else 'false'}"


def lean_dict(items) -> str:
    return "[" + ",\n   ".join(f"({lstr(k)}, {lstr(v)})" for k, v in items) + "]"


LINE_END_SITES = [
    ("src/ezdxf/document.py", 'binary_data.replace(b"\\n", b"\\r\\n")', "Drawing.encode_base64: LF -> CRLF on the encoded bytes (model lfToCrlf)"),
    ("src/ezdxf/filemanagement.py", 'binary_data.replace(b"\\r\\n", b"\\n")', "decode_base64: CRLF -> LF before decoding (model crlfToLf)"),
    ("src/ezdxf/tools/zipmanager.py", "self.dxf_file.readline().replace(CRLF, LF)", "ZipReader.readline: CRLF -> LF before decoding (model crlfToLf)"),
]


def extract_writer_rules(ctx) -> dict:
    """shape of the writer's decision logic in document.py (Drawing._update_metadata, output_encoding, save, write, update_all)"""
    import ast

    from ezdxf.lldxf import const

    tree = ast.parse(ctx.src("src/ezdxf/document.py"))
    cls = next(n for n in tree.body if isinstance(n, ast.ClassDef) and n.name == "Drawing")
    fn = {n.name: n for n in cls.body if isinstance(n, ast.FunctionDef)}

    def is_cp_assign(st):
        return (isinstance(st, (ast.Assign, ast.AugAssign, ast.AnnAssign)) and any(
            ast.unparse(t) == "self.header['$DWGCODEPAGE']" for t in (st.targets if isinstance(st, ast.Assign) else [st.target])))

    um = fn["_update_metadata"]
    top = [st for st in um.body if is_cp_assign(st)]
    anywhere = [st for st in ast.walk(um) if is_cp_assign(st)]
    # nothing after an early return / inside a branch: the assignment is reached on every call
    early_exit = any(isinstance(n, (ast.Return, ast.Raise)) for st in um.body for n in ast.walk(st))
    rules = {}
    rules["cpUnconditional"] = len(top) == 1 and len(anywhere) == 1 and not early_exit
    rules["cpFromEncoding"] = bool(anywhere) and all(
        isinstance(st, ast.Assign) and ast.unparse(st.value) == "tocodepage(self.encoding)" for st in anywhere)
    rets = [n for n in ast.walk(fn["output_encoding"]) if isinstance(n, ast.Return)]
    rules["outputEncoding"] = (len(rets) == 1 and ast.unparse(rets[0].value) == "'utf-8' if self.dxfversion >= DXF2007 else self.encoding"
                               and const.DXF2007 == "AC1021")
    save, write = ast.unparse(fn["save"]), ast.unparse(fn["write"])
    rules["saveUsesOutputEncoding"] = ("enc = self.output_encoding" in save and "encoding=enc, errors='dxfreplace'" in save
                                       and "encoding=self.output_encoding" in write)
    rules["metadataOnWrite"] = "self.update_all()" in write and "self._update_metadata()" in ast.unparse(fn["update_all"])
    return rules


def regenerate(ctx):
    for s in SRCS:
        ctx.src(s)
    for path, expr, what in LINE_END_SITES:
        if expr not in ctx.src(path):
            raise ValueError(f"{path}: expression `{expr}` not found ({what}): the hand model of the byte level line end "
                             "conversion no longer describes the source")
    _GEN_CACHE.clear()
    d = gen_data()
    out = ["import EzdxfVerif.Model.Encoding", "import EzdxfVerif.Model.EncodingExt", "", "namespace EzdxfVerif.Gen.EncodingTables",
           "open EzdxfVerif.Encoding", ""]
    out.append("/-- `dxf_backslash_replace` evaluated on every code point 0..0x10FFFF, run-length compressed -/")
    out.append("def handlerFmt : Fmt :=\n  [" + ",\n   ".join(f"⟨{lo}, {hi}, {lean_repl(k)}⟩" for lo, hi, k in d["fmt"]) + "]")
    out.append("")
    out.append("/-- `codepage.codepage_to_encoding.items()` in dict order -/")
    out.append("def codepageToEncoding : Dict :=\n  " + lean_dict(d["cp2enc"]))
    out.append("/-- `codepage.encoding_to_codepage.items()` in dict order -/")
    out.append("def encodingToCodepage : Dict :=\n  " + lean_dict(d["enc2cp"]))
    out.append("")
    out.append("/-- does the codec's encoder report maximal runs of unencodable characters (probed) -/")
    out.append("def grouped : List (Str × Bool) :=\n  [" + ", ".join(
        f"({lstr(e)}, {'true' if g else 'false'})" for e, g in d["grouped"].items()) + "]")
    out.append("")
    out.append(f"/-- decoding tables of the single-byte code pages: entry b = code point of byte b, {UNDEF} = undefined -/")
    for enc, dec in d["sbcs"].items():
        out.append(f"def {enc}Table : List Nat :=\n  {nats(dec)}")
    out.append("def sbcsTables : List (Str × List Nat) :=\n  [" + ", ".join(
        f"({lstr(e)}, {e}Table)" for e in d["sbcs"]) + "]")
    out.append("/-- the encoders of the single-byte code pages, tabulated independently of the decoding tables: every\n"
               "    (code point, byte) with `chr(x).encode(codec) == bytes([byte])` over all of Unicode, by increasing byte -/")
    for enc in d["sbcs"]:
        out.append(f"def {enc}Enc : List (Nat × Nat) :=\n  " + lean_list(f"({x}, {b[0]})" for x, b in sorted(d["tables"][enc].items(), key=lambda it: it[1])))
    out.append("def sbcsEncoders : List (List Nat × List (Nat × Nat)) :=\n  [" + ", ".join(
        f"({e}Table, {e}Enc)" for e in d["sbcs"]) + "]")
    out.append("")
    out.append("/-- double-byte code pages: all 1-byte encodings (code point, byte), the sets of lead and trail bytes of\n"
               "    all 2-byte encodings over the BMP, the characters whose encoding does not decode back to them -/")
    for enc, v in d["dbcs"].items():
        out.append(f"def {enc}Info : Dbcs where\n  name := {lstr(enc)}\n  singles := "
                   + lean_list(f"({x}, {b})" for x, b in v["singles"]) + f"\n  leads := {nats(v['leads'])}\n"
                   f"  trails := {nats(v['trails'])}\n  lossy := {nats(v['lossy'])}\n  count := {v['count']}")
    out.append("def dbcsInfos : List Dbcs := [" + ", ".join(f"{e}Info" for e in d["dbcs"]) + "]")
    out.append("")
    out.append("/-- `MIF_CODE_PAGE` resolved through `codecs.lookup`: (page digit, canonical codec name; empty = LookupError) -/")
    out.append("def mifCodePage : List (Nat × Str) :=\n  [" + ", ".join(f"({k}, {lstr(v)})" for k, v in d["mif_pages"]) + "]")
    wr = extract_writer_rules(ctx)
    out.append("/-- the writer's decision logic as found in the AST of document.py (see `WriterRules`) -/")
    out.append("def writerRules : WriterRules :=\n  { " + ", ".join(f"{k} := {'true' if v else 'false'}" for k, v in wr.items()) + " }")
    ctx.note(f"writer rules extracted from document.py: {wr}")
    out.append("/-- the DXF versions ezdxf knows (`const.acad_release`) and Python's own `version >= const.DXF2007` -/")
    out.append("def acadVersions : List (Str × Bool) :=\n  [" + ", ".join(
        f"({lstr(v)}, {'true' if u else 'false'})" for v, u in d["versions"]) + "]")
    out.append(f"def backslashUnicodePattern : String := {lean_str(d['re_unicode'])}")
    out.append(f"def mifEncodedPattern : String := {lean_str(d['re_mif'])}")
    out.append("")
    out.append("end EzdxfVerif.Gen.EncodingTables")
    ctx.write_gen("EncodingTables", "\n".join(out) + "\n", SRCS)
    # complete tables of the double-byte codecs: depend on CPython and on the codec list of codepage.py only, so an edit of
    # encoding.py does not re-open the (expensive) table certificates
    out = ["import EzdxfVerif.Model.Encoding", "", "namespace EzdxfVerif.Gen.CjkTables", "open EzdxfVerif.Encoding", ""]
    out.append("/-- complete decoder/encoder tables of CPython's double-byte codecs (entries key*65536+cp, packed) -/")
    for enc, v in d["dbcs_full"].items():
        out.append(f"def {enc}Tab : DbcsTab where\n  name := {lstr(enc)}\n  dec := {lean_packed(v['dec'])}\n"
                   f"  encGood := {lean_packed(v['good'])}\n  encLossy := {nats(v['bad'])}\n"
                   f"  leads := " + lean_list(f"({a}, {b})" for a, b in v["leads"]))
    out.append("def dbcsTabs : List DbcsTab := [" + ", ".join(f"{e}Tab" for e in d["dbcs_full"]) + "]")
    out.append("")
    out.append("end EzdxfVerif.Gen.CjkTables")
    ctx.write_gen("CjkTables", "\n".join(out) + "\n", ["src/ezdxf/tools/codepage.py"])
    ctx.note(f"handler ranges: {[(hex(lo), hex(hi), k) for lo, hi, k in d['fmt']]}")


# ====================================================================== implementation side
RULE = (
    "correspondence (Lean model vs. real code, line by line): X1 dxf_backslash_replace on single code points "
    "(stratified over all planes; thorough: whole BMP) and on runs mixing encodable-nowhere characters, U+DC80..DCFF and other "
    "surrogates; X2 str.encode(codec, 'dxfreplace') for ascii, utf8, the 10 single-byte code pages and the 4 double-byte code "
    "pages (all through the model's regenerated tables; every 7th double-byte case also with per-character encodings supplied "
    "by the codec) on single code points, all category triples and seeded random mixed strings; X3 "
    "bytes.decode(codec, 'surrogateescape') for utf8 (structured malformed sequences), the single-byte pages (all 256 bytes) "
    "and the double-byte pages (every 2-byte sequence in context, truncated/invalid sequences); X4 decode_dxf_unicode / "
    "has_dxf_unicode / re.split / has_mif_encoding / recover.byte_tag_compiler string branch on exhaustive short and random "
    "strings over an escape alphabet; X5 toencoding / tocodepage on table keys with prefixes/suffixes and random names; X6 the "
    "whole pipeline encode -> decode -> decode_dxf_unicode (all 16 codecs); X7 encoding detection of dxf_stream_info, "
    "recover.detect_encoding and the Binary DXF scan_params for every DXF version x $DWGCODEPAGE spelling (prefixes, case, "
    "white space, near misses, random); X8 decode_mif_to_unicode / re.split(MIF_ENCODED) / the complete recover string branch "
    "on MIF escapes of defined and undefined byte pairs of every page, quirk shapes and random atoms; X9 io.TextIOWrapper("
    "errors='dxfreplace') with one write per piece, and the byte level LF<->CRLF conversions; X10 the writer: document states "
    "(new / loaded, version, doc.encoding, header before) built on real documents -> $ACADVER, $DWGCODEPAGE and codec of the bytes "
    "of the saved file, and BinaryTagWriter.write_str on preformatted strings with U+2028/U+2029/NEL/VT/FF/FS..RS/CR in the "
    "values; X11 whole tag streams: real BinaryTagWriter -> bytes and binary_tags_loader + decode_dxf_unicode -> tags vs codec "
    "model + C03's framing model (encodeTags/encAll, decAll/decodeTag), real TagWriter text and ascii_tags_loader vs "
    "asciiFileText / asciiReadTags. non-trivial = reaches the handler / a match / a non-default table "
    "branch; distinct by hash of the request line. oracle: real Drawing.saveas -> ezdxf.readfile / recover.readfile round "
    "trips of TEXT, MTEXT, layer / block / text style names, INSERT references, ATTRIB tag and text, XDATA strings and header "
    "variables for R12/R2000/R2004 x 14 code pages and R2007+ "
    "x {ASCII, binary}, including double-byte characters whose trail byte is `\\ ^ % { |` followed by the text that would "
    "complete an escape at the byte level, values with white space at the ends and of up to 1300 characters; every ASCII file also "
    "through iterdxf.modelspace / single_pass_modelspace / opendxf, ezdxf.readzip and encode_base64 -> decode_base64; the same "
    "files with $DWGCODEPAGE re-spelled (O4); O5 histories over LOADED documents (five loaders, code page and version changed "
    "after loading, both directions across R2007); string header variables and custom properties with U+2028/U+2029 in every "
    "document; O6 r12export (doc.encoding changed after new()) and r12writer (ASCII, binary)."
)
TRUSTED_BASE = [
    "CPython codecs: every codec enters the theorems through tables regenerated on every run - the 10 single-byte decoding "
    "tables + independently tabulated encoders (proved inverse of each other in Lean), and for cp932/gbk/cp949/cp950 the "
    "COMPLETE decoder (every 1- and 2-byte sequence) and encoder (every code point 0..0x10FFFF), from which the codec laws are "
    "proved by kernel-checked certificates; trusted: that the codecs behave on longer inputs like the table driven model "
    "decoder/encoder (sequential, stateless; corresponded on every 2-byte sequence in context + structured random bytes)",
    "UTF-8 is modelled (encoder + surrogateescape decoder) and proved lawful; that CPython's codec equals the model is corresponded",
    "CPython `re` for the two small patterns (hand model, pattern text pinned by theorem regex_patterns_as_modelled)",
    "int(s,16)/chr are only applied to four upper case hex digits (after fix 3fc8e70de): modelled as their positional value",
    "binascii.unhexlify / codecs.lookup as modelled for MIF (hexVal?/unhex, page table tabulated through codecs.lookup; corresponded)",
    "io.TextIOWrapper(errors='dxfreplace') encodes every write() on its own like str.encode (corresponded, stream X9; the "
    "writers issue one write per tag)",
    "bytes.replace for the LF<->CRLF conversions of encode_base64 / decode_base64 / ZipReader (hand model lfToCrlf / crlfToLf; source "
    "expressions pinned by regenerate, corresponded with bytes.replace)",
    "the AST extraction of the writer's decision logic (extract_writer_rules: normalised ast.unparse texts of _update_metadata, "
    "output_encoding, save, write, update_all) - a rewrite with the same behaviour but another shape re-opens the theorem",
    "the tag loaders (line / NUL splitting, group codes) are C03/C08's models; C09 proves that splitting commutes with decoding "
    "(strict_reader_lines, byte_split_readers) and exercises the real loaders in the oracle",
    "the driver evaluates the double-byte codecs through hash maps built first-entry-wins from the table lists (the model's "
    "`find?` look-ups are the same function; spot-checked by the slowenc/slowdec/slowunmif requests)",
]
ASSUMPTIONS = [
    "strings of the oracle are single-line, BMP, no C0/C1 controls, no surrogates, no literal \\U+ or \\M+, not ending in '^' "
    "(ezdxf's one-line-text fixer strips a trailing caret from TEXT on load: not an encoding matter); leading/trailing white "
    "space (blank, NBSP, U+3000, en/em spaces, ZWSP, BOM) IS included since session 3",
    "recover.readfile does not read Binary DXF (not a supported combination in ezdxf)",
    "the writer theorems need doc.encoding to be one of the 14 supported code pages (is_supported_encoding); any other codec "
    "name in doc.encoding is written under ANSI_1252 (tocodepage's default) - user error, not generated",
    "$DWGCODEPAGE spellings: any prefix + a table key (proved, toencoding_any_prefix); the Binary DXF scanner additionally needs "
    "five or more characters, and six or more if the name does not start with 'A' in an R12 file (binScan_spec) - shorter names "
    "such as a bare '874' fall back to cp1252 there (modelled + corresponded, not a supported spelling)",
]
OPEN = [
    "cp932 (6) and cp950 (9) characters are encoded lossy by CPython's codecs (best fit): excluded by the hypothesis "
    "`x ∉ lossyCps T` (theorem lossy_characters_listed pins the lists), reported as known finding lossy-codec/*",
    "raw-byte survival (bytes -> str -> bytes) is proved for UTF-8 and the 10 single-byte pages (sbcs_bytes_roundtrip); for "
    "the double-byte pages it is false for cp932/cp950 (several byte sequences decode to one character) and not attempted",
    "code points above U+FFFF under a legacy code page are written \\U+%08x and never read back (astral_legacy_* theorems state "
    "exactly what comes back); outside the property's BMP quantifier, no fix made: decoding surrogate pairs would change what "
    "the proved round trip of lone surrogates returns",
    "MIF: `_decode_mif` converts parts that merely start with \\M+ (modelled as is, unreachable without a full match in the "
    "recover loader); page 4 is spelled cp1391 in the source (no such codec; Johab is cp1361), so \\M+4XXXX is never decoded "
    "(mif_pages_as_tabulated): both outside the property (strings with \\M+ are excluded), not listed as findings",
    "whole tag streams are now composed with C03's models (binary_file_text_roundtrip over encAll/decAll, "
    "ascii_file_text_roundtrip over showCode/pairLines); still open: points / binary chunks inside ASCII files, comments (999), "
    "the structure layer above tags (C01/C08), Windows line ends (CRLF) in the ASCII theorem",
]


def nat_list(b) -> str:
    return " ".join(str(int(x)) for x in b)


def exc_name(e: BaseException) -> str:
    return type(e).__name__


def impl_handler(run: str) -> str:
    from ezdxf.lldxf.encoding import dxf_backslash_replace

    exc = UnicodeEncodeError("probe", "a" + run + "b", 1, 1 + len(run), "probe")
    try:
        rep, end = dxf_backslash_replace(exc)
    except Exception as e:  # noqa
        return "err " + exc_name(e)
    if end != 1 + len(run):
        return f"other end={end}"
    if isinstance(rep, bytes):
        return "bytes " + nat_list(rep)
    return "str " + cps(rep)


def impl_enc(enc: str, s: str) -> str:
    from ezdxf.lldxf.encoding import encode

    try:
        return "ok " + nat_list(encode(s, enc))
    except Exception as e:  # noqa
        return "err " + exc_name(e)


ESC_ALPHABET = "\\U+xX0123456789abcdefABCDEF"


def ext_request(enc: str, s: str, grouped: bool) -> str:
    """request line for a codec whose per-character encoder is supplied by the real codec"""
    aux = []
    for ch in dict.fromkeys(s + ESC_ALPHABET):
        try:
            aux.append(f"{ord(ch)}:{nat_list(ch.encode(enc))}")
        except UnicodeEncodeError:
            pass
    return f"enc|src|ext{1 if grouped else 0}|{cps(s)}|{','.join(aux)}"


def impl_dec(enc: str, b: bytes) -> str:
    return cps(b.decode(enc, errors="surrogateescape"))


def impl_undxf(s: str) -> str:
    from ezdxf.lldxf.encoding import decode_dxf_unicode

    try:
        return "ok " + cps(decode_dxf_unicode(s))
    except Exception as e:  # noqa
        return "err " + exc_name(e)


def impl_split(s: str) -> str:
    from ezdxf.lldxf.encoding import BACKSLASH_UNICODE

    return ";".join(cps(p) for p in re.split(BACKSLASH_UNICODE, s))


def impl_recover(s: str) -> str:
    """the string branch of recover.byte_tag_compiler on a value that decodes to `s`"""
    from ezdxf.lldxf.encoding import has_dxf_unicode, has_mif_encoding
    from ezdxf.lldxf.types import DXFTag
    from ezdxf.recover import byte_tag_compiler

    if not has_dxf_unicode(s) and has_mif_encoding(s):
        return "mif"
    try:
        tags = list(byte_tag_compiler([DXFTag(1, s.encode("utf8"))], encoding="utf8"))
    except Exception as e:  # noqa
        return "err " + exc_name(e)
    if len(tags) != 1 or tags[0].code != 1:
        return f"other {tags!r}"
    return "ok " + cps(tags[0].value)


def impl_unmif(s: str) -> str:
    from ezdxf.lldxf.encoding import decode_mif_to_unicode

    try:
        return cps(decode_mif_to_unicode(s))
    except Exception as e:  # noqa
        return "err " + exc_name(e)


def impl_mifsplit(s: str) -> str:
    from ezdxf.lldxf.encoding import MIF_ENCODED

    return ";".join(cps(p) for p in re.split(MIF_ENCODED, s))


def impl_recovertext(s: str) -> str:
    """the string branch of recover.byte_tag_compiler on a value that decodes to `s` (MIF branch included)"""
    from ezdxf.lldxf.types import DXFTag
    from ezdxf.recover import byte_tag_compiler

    try:
        tags = list(byte_tag_compiler([DXFTag(1, s.encode("utf8"))], encoding="utf8"))
    except Exception as e:  # noqa
        return "err " + exc_name(e)
    if len(tags) != 1 or tags[0].code != 1:
        return f"other {tags!r}"
    return cps(tags[0].value)


def mif_strings(ctx):
    d = gen_data()
    rng = ctx.rng("mif")
    page_of = {nm: chr(k) for k, nm in d["mif_pages"] if nm}
    escapes = []
    for enc, full in d["dbcs_full"].items():
        pg = page_of.get(enc)
        if pg is None:
            continue
        keys = [e // 65536 for e in full["dec"] if e // 65536 > 255]
        ks = rng.sample(keys, ctx.n(60, 600)) + [keys[0], keys[-1]] + [k for k in keys if k & 255 == 0x5C][:3]
        undefined = []
        defined = set(keys)
        while len(undefined) < ctx.n(20, 200):
            k = rng.randrange(0x8100, 0x10000)
            if k not in defined:
                undefined.append(k)
        for k in ks + undefined + [0x4142, 0x0041, 0x4100, 0x7E7E, 0x8041, 0xFFFF, 0x0000, 0x0A0D]:
            escapes.append("\\M+%s%04X" % (pg, k))
    for e in escapes:
        yield "esc", e
    for e in escapes[::7]:
        yield "esc-ctx", "a" + e + "b"
        yield "esc-ctx", e + e.lower()
        yield "esc-ctx", e.lower() + e
        yield "esc-ctx", e[:6] + e
        yield "esc-ctx", e[:4] + e
        yield "esc-ctx", e + "\\U+0041"
    for pg in "0123456789AaM":
        for tail in ["", "4", "41", "414", "4142", "41424", "414243", "8140", "82a0", "82A0", "82A", "82A0x", "e4b8", "E4B8AD", "G140", "41 42",
                     "٤١٤٢", "4\u0661", "8", "81", "ＡＡＡＡ", "0000", "000A", "FFFF", "D7DF"]:
            yield "tmpl", "\\M+" + pg + tail
            yield "tmpl", "\\M+" + pg + tail + "\\M+5D7DF"
            yield "tmpl", "x\\M+5D7DF\\M+" + pg + tail
    for s0 in ["", "abc", "\\M+", "\\M", "\\m+5D7DF", "\\M+5D7DF\\M+5CFDFM+5BCDC", "*\\M+5D7DF*", "\\M+5D7DF\\U+20AC", "\\U+20AC\\M+5D7DF",
               "\\M+5D7D\\M+5D7DF", "\\\\M+5D7DF", "\\M+5d7df"]:
        yield "tmpl", s0
    atoms = ["\\M+", "\\M+1", "\\M+5", "\\M+4", "\\M+2A5", "\\", "M", "+", "x", " ", "\\U+0041", "\\M+182A0", "\\M+5D7DF", "\\M+3B0A1"] + list("0123456789ABCDEFabcdef")
    for _ in range(ctx.n(1500, 20000)):
        yield "rnd", "".join(rng.choice(atoms) for _ in range(rng.randint(0, rng.choice([2, 4, 8, 14]))))


def impl_rt(enc: str, s: str) -> str:
    from ezdxf.lldxf.encoding import decode_dxf_unicode, encode

    try:
        b = encode(s, enc)
    except Exception as e:  # noqa
        return "encerr " + exc_name(e)
    t = b.decode(enc, errors="surrogateescape")
    try:
        return "ok " + cps(decode_dxf_unicode(t))
    except Exception as e:  # noqa
        return "err " + exc_name(e)


# ====================================================================== generators
def stratified_codepoints(ctx, salt: str, per_block: int):
    """boundaries of every branch of the handler / UTF-8 / code page blocks + seeded samples of every 256-block"""
    rng = ctx.rng("cp/" + salt)
    pts = set()
    edges = [0, 0x1F, 0x20, 0x7E, 0x7F, 0x80, 0x9F, 0xA0, 0xFF, 0x100, 0x7FF, 0x800, 0xFFF, 0x1000, 0x2028, 0x2029,
             0xD7FF, 0xD800, 0xDBFF, 0xDC00, 0xDC7F, 0xDC80, 0xDCFF, 0xDD00, 0xDFFF, 0xE000, 0xFFFD, 0xFFFE, 0xFFFF,
             0x10000, 0x10FFFF, 0xABCD, 0xFACE, 0x0A0A, 0x0D0D, 0x5C5C, 0x20AC, 0x6539]
    for e in edges:
        for dlt in (-1, 0, 1):
            if 0 <= e + dlt <= 0x10FFFF:
                pts.add(e + dlt)
    for blk in range(0, 0x10000, 256):
        for _ in range(per_block):
            pts.add(blk + rng.randrange(256))
    for _ in range(60 * per_block):
        pts.add(rng.randrange(0x10000, 0x110000))
    return sorted(pts)


def codec_pools(enc: str):
    """(encodable non-ASCII, unencodable non-surrogate BMP) characters for a codec"""
    d = gen_data()
    if enc == "utf8":
        good = [x for x in range(0xA0, 0x10000, 37) if not 0xD800 <= x <= 0xDFFF]
        return good, []
    if enc == "ascii":
        return [], [x for x in range(0xA0, 0x10000, 37) if not 0xD800 <= x <= 0xDFFF]
    t = d["tables"][enc]
    good = [x for x in t if 0x80 <= x < 0x10000]
    bad = [x for x in range(0x80, 0x10000, 1) if x not in t and not 0xD800 <= x <= 0xDFFF]
    return good, bad


def category_char(rng, cat: str, good, bad):
    if cat == "A":
        return chr(rng.choice([0x20, 0x41, 0x5C, 0x55, 0x2B, 0x78, 0x7E, 0x30, 0x46, 0x66]))
    if cat == "G":
        return chr(rng.choice(good)) if good else "z"
    if cat == "L":  # latin-1 range, codec dependent whether encodable
        return chr(rng.randrange(0x80, 0x100))
    if cat == "B":
        return chr(rng.choice(bad)) if bad else chr(rng.choice(good))
    if cat == "E":
        return chr(rng.randrange(0xDC80, 0xDD00))
    if cat == "S":
        return chr(rng.choice([0xD800, 0xDBFF, 0xDC00, 0xDC7F, 0xDD00, 0xDFFF, rng.randrange(0xD800, 0xDC80)]))
    if cat == "X":
        return chr(rng.randrange(0x10000, 0x110000))
    raise ValueError(cat)


CATS = "AGLBESX"


def encode_strings(ctx, enc: str):
    """yield (kind, string) for the encode stream of one codec"""
    rng = ctx.rng("enc/" + enc)
    good, bad = codec_pools(enc)
    if ctx.quick:
        for x in stratified_codepoints(ctx, enc, 2):
            yield "single", chr(x)
    else:
        for x in itertools.chain(range(0x10000), stratified_codepoints(ctx, enc, 2)):
            yield "single", chr(x)
    for n in (2, 3):
        for pat in itertools.product(CATS, repeat=n):
            yield "cats", "".join(category_char(rng, c, good, bad) for c in pat)
    for _ in range(ctx.n(150, 2500)):
        n = rng.choice([1, 2, 3, 5, 8, 13, 21, 40])
        w = rng.choice(["AGB", "AGLB", "AGLBE", "AGLBESX", "ABX", "BE", "BBBS", "GGGB"])
        yield "rnd", "".join(category_char(rng, rng.choice(w), good, bad) for _ in range(rng.randint(1, n)))


def utf8_byte_strings(ctx):
    rng = ctx.rng("utf8dec")
    frag = [b"A", b"\\", b"\x7f", b"\xc2\x80", b"\xdf\xbf", b"\xe0\xa0\x80", b"\xe2\x82\xac", b"\xed\x9f\xbf", b"\xee\x80\x80",
            b"\xef\xbf\xbf", b"\xf0\x90\x80\x80", b"\xf4\x8f\xbf\xbf", b"\xf1\x80\x80\x80",
            # malformed: overlong, surrogates, > U+10FFFF, stray continuation, truncated, invalid leads
            b"\xc0\x80", b"\xc1\xbf", b"\xe0\x80\x80", b"\xe0\x9f\xbf", b"\xed\xa0\x80", b"\xed\xbf\xbf", b"\xf0\x80\x80\x80",
            b"\xf0\x8f\xbf\xbf", b"\xf4\x90\x80\x80", b"\xf5\x80\x80\x80", b"\xf8\x88\x80\x80\x80", b"\x80", b"\xbf", b"\xc2",
            b"\xe2\x82", b"\xe2", b"\xf0\x9f\x98", b"\xf0\x9f", b"\xf0", b"\xff", b"\xfe", b"\xc2\x41", b"\xe2\x82\x41",
            b"\xe2\x41\x82", b"\xf0\x9f\x41\x80", b"\xf0\x41", b"\xed\xa0", b"\xf4\x90"]
    for f in frag:
        yield f
    for a in frag:
        for b in frag[::3]:
            yield a + b
    for _ in range(ctx.n(1500, 20000)):
        k = rng.randint(1, 6)
        if rng.random() < 0.6:
            yield b"".join(rng.choice(frag) for _ in range(k))
        else:
            yield bytes(rng.choice([rng.randrange(256), rng.randrange(0x80, 0x100), rng.randrange(0xC0, 0x100),
                                    rng.randrange(0x80, 0xC0)]) for _ in range(rng.randint(1, 8)))


UNDXF_ALPHA = ["\\", "U", "+", "2", "0", "A", "C", "a", "c", "x", "M", "G"]
UNDXF_RICH = list("\\\\\\UUU+++MM0123456789ABCDEFabcdefxX_ -+gG\t\n") + [" ", "٣", "１", "　", "€", "\u0085",
                                                                         "\x1c", "Ａ", "\x00"]
INT_TAILS = ["", "0x", "0X1f", "0x_1F", "0x__1", "_1", "1_", "1__2", "1_2", " 1f ", "\t1f\n", "+1f", "-1f", "+ 1", "0x-1", "-0x1", "+-1",
             " ", "\x1c5", "5\x1f", "٣", "0x٣", " 5", "5\u0085", "1\x00", "0_x1", "0_1", "0x1_", "１２",
             "Ａ", "1 2", "0b1", "00x1", "x1", " - 1", "-_1", "0x_", "-0", "+0", "110000", "10FFFF", "10ffff", "-1", "D800",
             "dc80", "7FFFFFFF", "80000000", "-80000000", "-80000001", "FFFFFFFFFFFFFFFFFFFF", "-FFFFFFFFFFFFFFFFFFFF", "zz",
             "20AC", "20ac", "20aC", "20A", "20ACD", "G000", "+20AC", " 20AC", "20AC ", "2_0AC", "0x20", "٣٤٥٦"]


def undxf_strings(ctx):
    maxlen = ctx.n(4, 5)
    for n in range(0, maxlen + 1):
        for t in itertools.product(UNDXF_ALPHA[:9] if n == maxlen else UNDXF_ALPHA, repeat=n):
            yield "exh", "".join(t)
    for tail in INT_TAILS:
        for pre in ["", "a", "\\U+0041", "\\U+0041x", "\\U+20AC\\U+00E4"]:
            yield "tmpl", pre + "\\U+" + tail
        yield "tmpl", "\\M+" + tail
        yield "tmpl", tail
    for s in ["\\U+20AC", "x\\U+20AC", "\\U+20ACx", "\\\\U+20AC", "\\U+20AC\\U+20AC", "\\U+20A\\U+20AC", "\\U+\\U+20AC", "\\U+20ac",
              "x\\U+20ac", "\\M+182A0", "\\M+1xxxx", "\\M+682A0", "\\M+182a0", "x\\M+582A0y", "\\M+182A0\\U+20AC", "\\U+20AC\\M+182A0",
              "\\M+182A", "\\m+182A0", "\\u+20AC", "\\U +20AC", "\\U+D800\\U+DC00", "\\U+DC80", "\\U+0000", "\\U+000A", "\\U+FFFF"]:
        yield "tmpl", s
    rng = ctx.rng("undxf")
    for _ in range(ctx.n(3000, 40000)):
        n = rng.choice([1, 2, 3, 5, 8, 13, 21, 40])
        if rng.random() < 0.5:
            yield "rnd", "".join(rng.choice(UNDXF_RICH) for _ in range(rng.randint(0, n)))
        else:
            atoms = ["\\U+", "\\M+", "\\U+20AC", "\\U+00e4", "\\M+182A0", "\\", "U", "+", "0x", "_", " ", "-", "x", "G"] + list("0123456789ABCDEFabcdef")
            yield "rnd", "".join(rng.choice(atoms) for _ in range(rng.randint(0, n)))


def name_strings(ctx):
    d = gen_data()
    rng = ctx.rng("names")
    keys = [k for k, _ in d["cp2enc"]]
    encs = [e for _, e in d["cp2enc"]]
    for k in keys:
        for pre in ["ANSI_", "ansi_", "", "DOS", "ANSI_1", "x", "ANSI_" + k]:
            yield "toenc", pre + k
        yield "toenc", "ANSI_" + k + " "
        yield "toenc", "ANSI_" + k[:-1]
        yield "toenc", "ANSI_" + k[1:]
        yield "toenc", k + k
    for k1 in keys:
        for k2 in keys[::3]:
            yield "toenc", k1 + k2
    for s in ["", "ANSI_", "ANSI_1200", "dos437", "UTF-8", "ANSI_0", "1252", "ANSI_1252\n", "١٢٥٢", "ANSI_12520"]:
        yield "toenc", s
    for _ in range(ctx.n(400, 4000)):
        yield "toenc", "".join(rng.choice("0123456789AN_S I") for _ in range(rng.randint(0, 9))) + rng.choice(keys + ["", "9"])
    for e in encs:
        for v in [e, e.upper(), e + " ", "x" + e, e[:-1], e.replace("cp", "")]:
            yield "tocp", v
    for s in ["", "utf8", "utf-8", "ascii", "latin1", "cp936", "gb2312", "big5", "shift_jis", "cp437", "cp1252\n"]:
        yield "tocp", s
    for _ in range(ctx.n(200, 2000)):
        yield "tocp", "".join(rng.choice("cpgbk0123456789") for _ in range(rng.randint(0, 7)))


# ---------------------------------------------------------------------- encoding detection at the three reader sites
def ascii_header(ver: str, cp: str) -> str:
    return (f"  0\nSECTION\n  2\nHEADER\n  9\n$ACADVER\n  1\n{ver}\n  9\n$DWGCODEPAGE\n  3\n{cp}\n  9\n$HANDSEED\n  5\nFF\n"
            "  0\nENDSEC\n  0\nEOF\n")


def norm_enc(e: str) -> str:
    return "utf8" if e == "utf-8" else e


def site_ascii(ver: str, cp: str) -> str:
    import io
    from ezdxf.filemanagement import dxf_stream_info

    return norm_enc(dxf_stream_info(io.StringIO(ascii_header(ver, cp))).encoding)


def site_recover(ver: str, cp: str) -> str:
    import io
    from ezdxf.recover import bytes_loader, detect_encoding

    return norm_enc(detect_encoding(bytes_loader(io.BytesIO(ascii_header(ver, cp).encode("utf8")))))


def site_fileindex(ctx, ver: str, cp: str) -> str:
    """lldxf.fileindex.load (iterdxf.opendxf): needs a file"""
    from ezdxf.lldxf import fileindex

    path = ctx.scratch / f"fi_{os.getpid()}.dxf"
    path.write_bytes(ascii_header(ver, cp).encode("utf8"))
    try:
        return norm_enc(fileindex.load(str(path)).encoding)
    except Exception as e:  # noqa
        return "err " + exc_name(e)


def site_zip(ctx, ver: str, cp: str) -> str:
    """tools.zipmanager.ZipReader.get_dxf_info (ezdxf.readzip)"""
    import zipfile
    from ezdxf.tools.zipmanager import ctxZipReader

    zpath = str(ctx.scratch / f"z_{os.getpid()}.zip")
    with zipfile.ZipFile(zpath, "w") as zf:
        zf.writestr("h.dxf", ascii_header(ver, cp).encode("utf8"))
    try:
        with ctxZipReader(zpath) as z:
            return norm_enc(z.encoding)
    except Exception as e:  # noqa
        return "err " + exc_name(e)
    finally:
        os.unlink(zpath)


def site_single_pass(ver: str, cp: str) -> str:
    """iterdxf.single_pass_modelspace: the encoding is a local; observed through the text of a TEXT entity"""
    import io
    from ezdxf.addons import iterdxf

    head = ascii_header(ver, cp).encode("utf8").replace(b"  0\nEOF\n", b"")
    data = head + b"  0\nSECTION\n  2\nENTITIES\n  0\nTEXT\n  5\nA1\n  8\n0\n  1\n" + BIN_PROBE + b"\n  0\nENDSEC\n  0\nEOF\n"
    try:
        ents = list(iterdxf.single_pass_modelspace(io.BytesIO(data), types=["TEXT"]))
        val = ents[0].dxf.text
    except Exception as e:  # noqa
        return "err " + exc_name(e)
    hits = [c for c in ["utf8"] + gen_data()["codecs"] if BIN_PROBE.decode(c, "surrogateescape") == val]
    return hits[0] if len(hits) == 1 else f"ambiguous {hits}"


BIN_PROBE = bytes([0x80, 0x8C, 0xA4, 0xAA, 0xC0, 0xD0, 0xE0, 0xF0, 0xFE, 0x41, 0x95, 0x5C, 0xA5, 0x5C, 0x81, 0x5C])


def bin_file(ver: str, cp: bytes):
    """minimal Binary DXF; returns (data, offset of the first byte of the $DWGCODEPAGE value)"""
    import struct

    r12 = ver <= "AC1009"
    out = bytearray(b"AutoCAD Binary DXF\r\n\x1a\x00")

    def tag(code, val: bytes):
        out.extend(bytes([code]) if r12 else struct.pack("<H", code))
        pos = len(out)
        out.extend(val + b"\x00")
        return pos

    tag(0, b"SECTION"), tag(2, b"HEADER"), tag(9, b"$ACADVER"), tag(1, ver.encode())
    tag(9, b"$DWGCODEPAGE")
    pos = tag(3, cp)
    tag(0, b"ENDSEC"), tag(1, BIN_PROBE), tag(0, b"EOF")
    return bytes(out), pos


def site_binary(ver: str, cp: bytes) -> str:
    """the encoding `scan_params` chose, observed through the decoding of a probe string"""
    from ezdxf.lldxf.tagger import binary_tags_loader

    data, _ = bin_file(ver, cp)
    try:
        val = [t.value for t in binary_tags_loader(data) if t.code == 1][-1]
    except Exception as e:  # noqa
        return "err " + exc_name(e)
    hits = [c for c in ["utf8"] + gen_data()["codecs"] if BIN_PROBE.decode(c, "surrogateescape") == val]
    return hits[0] if len(hits) == 1 else f"ambiguous {hits}"


def detection_cases(ctx):
    d = gen_data()
    rng = ctx.rng("detect")
    keys = [k for k, _ in d["cp2enc"]]
    versions = [v for v, _ in d["versions"]] + ["AC1020", "AC1022", "AC1033", "ac1021", "AC102", "AC10211", "", "AD1021", "AC1O21"]
    spell = []
    for k in keys:
        for pre in ["ANSI_", "ansi_", "Ansi_", "DOS", "dos", "", "ANSI-", "CP", "WINDOWS-", "ANSI_0", "ANSI__", "ANSI_" + keys[0]]:
            spell.append(pre + k)
        spell += ["ANSI_" + k + " ", "ANSI_" + k + "\t", " ANSI_" + k, "ANSI_" + k[:-1], "ANSI_" + k + "0", "ANSI_" + k[1:]]
    spell += ["", "ANSI_", "ANSI_1200", "ANSI_1361", "UTF-8", "utf8", "1252", "ANSI_１２５２", "ANSI_٩٣٢", "x", "ANSI", "A874", "ANS_9", "87", "4"]
    for _ in range(ctx.n(60, 600)):
        spell.append("".join(rng.choice("0123456789ANSI_ dos") for _ in range(rng.randint(0, 10))) + rng.choice(keys + ["", "9"]))
    spell = list(dict.fromkeys(spell))
    for ver in versions:
        for cp in (spell if not ctx.quick else spell[:: 1 + (versions.index(ver) % 3)]):
            yield ver, cp


# ---------------------------------------------------------------------- the writer's side
def writer_states(ctx):
    d = gen_data()
    rng = ctx.rng("writer")
    from ezdxf.lldxf import const

    vers = [v for v, _ in d["versions"] if v in const.versions_supported_by_new]
    for enc in d["codecs"]:
        for k in range(ctx.n(4, 14)):
            loaded = k % 4 != 0
            yield dict(loaded=loaded, ver=vers[(k + len(enc)) % len(vers)], enc=enc,
                       oldver=rng.choice(vers), oldenc=rng.choice(d["codecs"]),
                       oldcp="ANSI_" + dict(d["enc2cp"])[rng.choice(d["codecs"])] if not loaded else "", text=sample_text(rng, enc))


def impl_written(ctx, st) -> str:
    """build the state on a real document, save it, read $ACADVER / $DWGCODEPAGE from the file and find the codec of the bytes"""
    import ezdxf
    from ezdxf.lldxf.encoding import encode
    from ezdxf.tools import codepage

    path = str(ctx.scratch / f"wr_{os.getpid()}.dxf")
    try:
        if st["loaded"]:
            doc = ezdxf.new(st["oldver"])
            doc.encoding = st["oldenc"]
            doc.saveas(path)
            doc = ezdxf.readfile(path)
            st["oldcp"] = doc.header["$DWGCODEPAGE"]
            if doc.dxfversion != st["ver"]:
                doc.dxfversion = st["ver"]
        else:
            doc = ezdxf.new(st["ver"])
            doc.header["$DWGCODEPAGE"] = st["oldcp"]
        doc.encoding = st["enc"]
        doc.modelspace().add_text(st["text"])
        doc.saveas(path)
        raw = open(path, "rb").read()
    except Exception as e:  # noqa
        return "err " + exc_name(e)
    finally:
        try:
            os.unlink(path)
        except OSError:
            pass

    def var(name: bytes) -> str:
        i = raw.index(name + b"\n")
        return raw[i:].split(b"\n")[2].decode("ascii").strip()

    lines = raw.split(b"\n")
    hits = [c for c in ["utf8", st["enc"]] + gen_data()["codecs"] if encode(st["text"], c) in lines]
    benc = hits[0] if hits else "none"
    return f"{cps(var(b'$ACADVER'))};{cps(var(b'$DWGCODEPAGE'))};{cps(benc)}"


def write_str_strings(ctx):
    rng = ctx.rng("writestr")
    seps = ["\u2028", "\u2029", "\x85", "\x0b", "\x0c", "\x1c", "\x1d", "\x1e", "\r", " ", "Ω", "x"]
    for _ in range(ctx.n(300, 3000)):
        tags = []
        for _ in range(rng.randint(0, 4)):
            code = rng.choice(["  9", "  1", "1", "  3", "1000", " 40", "999"])
            val = "".join(rng.choice(seps + ["a", "$MENU", "b"]) for _ in range(rng.randint(0, 5)))
            tags.append(code + "\n" + val + "\n")
        t = "".join(tags)
        k = rng.random()
        if k < 0.1:
            t = t[:-1]  # no trailing line end
        elif k < 0.2:
            t += "  0"  # odd number of lines: the last one is dropped
        yield t


def impl_write_str(t: str) -> str:
    import io
    from ezdxf.lldxf.tagwriter import BinaryTagWriter

    rec = []

    class Rec(BinaryTagWriter):
        def write_tag2(self, code, value):
            rec.append((code, value))

    try:
        Rec(io.BytesIO(), encoding="utf8").write_str(t)
    except Exception as e:  # noqa
        return "err " + exc_name(e)
    return ";".join(f"{cps(str(c))}:{cps(v)}" for c, v in rec)


# ---------------------------------------------------------------------- whole binary tag streams
def binfile_cases(ctx):
    d = gen_data()
    rng = ctx.rng("binfile")
    key = dict(d["enc2cp"])
    for enc in d["codecs"]:
        for k in range(ctx.n(12, 120)):
            ver = ["AC1009", "AC1015", "AC1018"][k % 3]
            tags = [(0, "SECTION"), (2, "HEADER"), (9, "$ACADVER"), (1, ver), (9, "$DWGCODEPAGE"), (3, "ANSI_" + key[enc]), (0, "ENDSEC")]
            for _ in range(rng.randint(1, 5)):
                if rng.random() < 0.7:
                    tags.append((rng.choice([1, 2, 3, 6, 7, 8, 100, 300, 410, 1000, 1001]), sample_text(rng, enc, rng.randint(0, 4))))
                else:
                    tags.append((rng.choice([70, 71, 62, 280, 1070]), rng.randrange(0, 120)))
            tags.append((0, "EOF"))
            yield enc, ver, tags


def impl_binfile(enc: str, ver: str, tags) -> bytes:
    import io
    from ezdxf.lldxf.tagwriter import BinaryTagWriter

    stream = io.BytesIO()
    w = BinaryTagWriter(stream, dxfversion=ver, encoding=enc)
    w.write_signature()
    for c, v in tags:
        w.write_tag2(c, v)
    return stream.getvalue()


def impl_binread(data: bytes) -> str:
    from ezdxf.lldxf.encoding import decode_dxf_unicode
    from ezdxf.lldxf.tagger import binary_tags_loader

    try:
        return ";".join(f"{t.code}:t:{cps(decode_dxf_unicode(t.value))}" if isinstance(t.value, str) else f"{t.code}:i:{t.value}"
                        for t in binary_tags_loader(data))
    except Exception as e:  # noqa
        return "err " + exc_name(e)


def correspond(ctx):
    from ezdxf.tools import codepage

    d = gen_data()
    build = DRIVER_DEPS
    # which handler format does the source have (tabulated)?  the driver compares Gen with the two known formats
    fmt = ctx.driver("C09", ["fmt"], build=build)[0]
    ctx.note(f"handler format tabulated from the source: {fmt}")
    _GEN_CACHE["fmt_name"] = fmt

    # ---- X1 handler
    cases = []
    for x in (stratified_codepoints(ctx, "handler", 3) if ctx.quick else
              list(range(0x10000)) + stratified_codepoints(ctx, "handler", 3)):
        ctx.hist("X1 handler", "single")
        cases.append((f"handler|src|{x}", impl_handler(chr(x)), True))
    rng = ctx.rng("runs")
    for n in (2, 3):
        for pat in itertools.product("LBESX", repeat=n):
            run = "".join(category_char(rng, c, [0x20AC], [0x20AC, 0x3A9, 0xFFFD, 0xABCD, 0x100]) for c in pat)
            ctx.hist("X1 handler", "run-cats")
            cases.append((f"handler|src|{cps(run)}", impl_handler(run), True))
    for _ in range(ctx.n(500, 5000)):
        run = "".join(category_char(rng, rng.choice("LBBEESX"), [0x20AC], [0x20AC, 0x3A9, 0xFFFD, 0xABCD, 0x100])
                      for _ in range(rng.randint(1, 9)))
        ctx.hist("X1 handler", "run-rnd")
        cases.append((f"handler|src|{cps(run)}", impl_handler(run), True))
    ctx.correspond("X1 handler", "C09", cases)

    # ---- X2 encode
    cases = []
    nx = 0
    for enc in ["ascii", "utf8"] + d["codecs"]:
        ext = enc in d["dbcs"]
        for kind, s in encode_strings(ctx, enc):
            ctx.hist("X2 encode", f"{'dbcs' if ext else enc if enc in ('ascii', 'utf8') else 'sbcs'}/{kind}")
            # double-byte pages: the model's own regenerated tables (complete encoder); every 7th case additionally with the
            # per-character encodings supplied by the codec (`ext`), a few short ones through the model's list look-ups
            req = f"enc|src|{enc}|{cps(s)}|"
            out = impl_enc(enc, s)
            nontriv = out.startswith("err") or "92" in out.split()
            cases.append((req, out, nontriv))
            if ext:
                nx += 1
                if nx % 7 == 0:
                    cases.append((ext_request(enc, s, d["grouped"][enc]), out, nontriv))
                if nx % 97 == 0 and len(s) <= 3:
                    cases.append((f"slowenc|{enc}|{cps(s)}", out, nontriv))
    ctx.correspond("X2 encode", "C09", cases)

    # ---- X3 decode
    cases = []
    for b in utf8_byte_strings(ctx):
        ctx.hist("X3 decode", "utf8")
        cases.append((f"dec|utf8|{nat_list(b)}", impl_dec("utf8", b), any(x >= 0x80 for x in b)))
    rng = ctx.rng("sbcsdec")
    for enc in d["sbcs"]:
        allb = bytes(range(256))
        ctx.hist("X3 decode", "sbcs")
        cases.append((f"dec|{enc}|{nat_list(allb)}", impl_dec(enc, allb), True))
        for _ in range(ctx.n(20, 200)):
            b = bytes(rng.randrange(256) for _ in range(rng.randint(1, 12)))
            ctx.hist("X3 decode", "sbcs")
            cases.append((f"dec|{enc}|{nat_list(b)}", impl_dec(enc, b), any(x >= 0x80 for x in b)))
    for enc, full in d["dbcs_full"].items():
        rng = ctx.rng("dbcsdec/" + enc)
        leads = [b for a, z in full["leads"] for b in range(a, z + 1)]
        # every 2-byte sequence in context: <b0 t A> for all t, one request per first byte (quick: every lead byte and
        # every 5th other byte)
        for b0 in range(256):
            if ctx.quick and b0 not in leads and b0 % 5:
                continue
            b = bytes(x for t in range(256) for x in (b0, t, 0x41))
            ctx.hist("X3 decode", "dbcs/pairs")
            cases.append((f"dec|{enc}|{nat_list(b)}", impl_dec(enc, b), b0 >= 0x80))
        good = [e // 65536 for e in full["good"] if e // 65536 > 255]
        for i in range(ctx.n(400, 6000)):
            parts = []
            for _ in range(rng.randint(1, 6)):
                k = rng.random()
                if k < 0.4:
                    key = rng.choice(good)
                    parts.append(bytes([key >> 8, key & 255]))
                elif k < 0.55:
                    parts.append(bytes([rng.choice(leads)]))  # lead byte without its trail byte
                elif k < 0.7:
                    parts.append(bytes([rng.choice(leads), rng.choice([0x20, 0x30, 0x3F, 0x7F, 0x80, 0xFF, 0x0A, 0x5C])]))
                elif k < 0.85:
                    parts.append(bytes([rng.randrange(0x80, 0x100)]))
                else:
                    parts.append(bytes([rng.choice([0x41, 0x5C, 0x55, 0x2B, 0x30])]))
            b = b"".join(parts)
            ctx.hist("X3 decode", "dbcs/rnd")
            cases.append((f"dec|{enc}|{nat_list(b)}", impl_dec(enc, b), True))
            if i % 40 == 0 and len(b) <= 6:
                cases.append((f"slowdec|{enc}|{nat_list(b)}", impl_dec(enc, b), True))
    ctx.correspond("X3 decode", "C09", cases)

    # ---- X4 unescape side
    from ezdxf.lldxf.encoding import has_dxf_unicode, has_mif_encoding

    cases = []
    seen = set()
    for kind, s in undxf_strings(ctx):
        if s in seen:
            continue
        seen.add(s)
        ctx.hist("X4 unescape", kind)
        nt = "\\U+" in s or "\\M+" in s
        c = cps(s)
        cases.append((f"undxf|{c}", impl_undxf(s), nt))
        cases.append((f"has|{c}", "1" if has_dxf_unicode(s) else "0", nt))
        cases.append((f"split|{c}", impl_split(s), nt))
        if kind != "exh" or len(s) <= 3:
            cases.append((f"hasmif|{c}", "1" if has_mif_encoding(s) else "0", nt))
        if "\n" not in s and "\r" not in s and "\x00" not in s:
            cases.append((f"recover|{c}", impl_recover(s), nt))
    ctx.correspond("X4 unescape", "C09", cases)

    # ---- X5 names
    cases = []
    for kind, s in name_strings(ctx):
        ctx.hist("X5 names", kind)
        if kind == "toenc":
            out = codepage.toencoding(s)
            cases.append((f"toenc|{cps(s)}", cps(out), out != "cp1252"))
        else:
            out = codepage.tocodepage(s)
            cases.append((f"tocp|{cps(s)}", cps(out), out != "ANSI_1252"))
    ctx.correspond("X5 names", "C09", cases)

    # ---- X9 the file objects the writers use: io.TextIOWrapper(errors="dxfreplace") (Drawing.saveas, ASCII) with one write()
    # per piece, and BinaryTagWriter's `str(value).encode(encoding, errors="dxfreplace")`
    import io

    cases = []
    for enc in ["ascii", "utf8"] + d["codecs"]:
        rng = ctx.rng("textio/" + enc)
        good, bad = codec_pools(enc)
        for _ in range(ctx.n(60, 600)):
            pieces = []
            for _ in range(rng.randint(1, 5)):
                w = rng.choice(["AGB", "AGLB", "BBE", "B", "GB", "AGLBES"])
                pieces.append("".join(category_char(rng, rng.choice(w), good, bad) for _ in range(rng.randint(0, 6))).replace("\r", "").replace("\n", ""))
            raw = io.BytesIO()
            try:
                fp = io.TextIOWrapper(raw, encoding=enc, errors="dxfreplace", newline="")
                for pc in pieces:
                    fp.write(pc)
                fp.flush()
                out = "ok " + nat_list(raw.getvalue())
            except Exception as e:  # noqa
                out = "err " + exc_name(e)
            ctx.hist("X9 text io", "dbcs" if enc in d["dbcs_full"] else "sbcs" if enc in d["sbcs"] else enc)
            cases.append((f"encs|src|{enc}|{';'.join(cps(pc) for pc in pieces)}", out, "92" in out.split() or out.startswith("err")))
    # the byte level line end conversions of encode_base64 / decode_base64 / ZipReader.readline (source expressions pinned by
    # regenerate) against bytes.replace
    rng = ctx.rng("crlf")
    for _ in range(ctx.n(300, 3000)):
        b = bytes(rng.choice([10, 13, 13, 10, 65, 0x95, 0x5C, 0]) for _ in range(rng.randint(0, 12)))
        ctx.hist("X9 text io", "line-ends")
        cases.append((f"lf2crlf|{nat_list(b)}", nat_list(b.replace(b"\n", b"\r\n")), True))
        cases.append((f"crlf2lf|{nat_list(b)}", nat_list(b.replace(b"\r\n", b"\n")), True))
    ctx.correspond("X9 text io", "C09", cases)

    # ---- X10 the writer: (loaded?, version, doc.encoding, header before) -> ($ACADVER, $DWGCODEPAGE, encoding of the bytes) of
    # the saved file, on real documents; BinaryTagWriter.write_str line pairing
    cases = []
    for st in writer_states(ctx):
        ctx.hist("X10 writer", "loaded" if st["loaded"] else "new")
        cases.append((f"written|{1 if st['loaded'] else 0}|{cps(st['ver'])}|{cps(st['enc'])}|{cps(st['oldcp'])}", impl_written(ctx, st), True))
    for t in write_str_strings(ctx):
        ctx.hist("X10 writer", "write_str")
        cases.append((f"writestr|{cps(t)}", impl_write_str(t), any(c in t for c in "\u2028\u2029\x85\x0b\x0c\x1c\x1d\x1e\r")))
    ctx.correspond("X10 writer", "C09", cases)

    # ---- X11 whole Binary DXF tag streams: real BinaryTagWriter / binary_tags_loader vs codec model + C03's framing model
    cases = []
    for enc, ver, tags in binfile_cases(ctx):
        r12 = 1 if ver <= "AC1009" else 0
        data = impl_binfile(enc, ver, tags)
        req_tags = ";".join(f"{c}:t:{cps(v)}" if isinstance(v, str) else f"{c}:i:{v}" for c, v in tags)
        ctx.hist("X11 binary file", "write")
        cases.append((f"binfile|{r12}|{enc}|{req_tags}", "ok " + nat_list(data[22:]), True))
        ctx.hist("X11 binary file", "read")
        cases.append((f"binread|{r12}|{enc}|{nat_list(data[22:])}", impl_binread(data), True))
    # ASCII: TagWriter.write_tag2 ("%3d\\n%s\\n") and ascii_tags_loader + decode_dxf_unicode vs asciiFileText / asciiReadTags
    import io as _io
    from ezdxf.lldxf.encoding import decode_dxf_unicode as _dec
    from ezdxf.lldxf.tagger import ascii_tags_loader
    from ezdxf.lldxf.tagwriter import TagWriter

    for enc, ver, tags in binfile_cases(ctx):
        tags = [(c, v) for c, v in tags if isinstance(v, str)]
        st = _io.StringIO()
        w = TagWriter(st)
        for c_, v in tags:
            w.write_tag2(c_, v)
        text = st.getvalue()
        ctx.hist("X11 binary file", "ascii-write")
        cases.append((f"asciitext|{';'.join(f'{c_}:{cps(v)}' for c_, v in tags)}", cps(text), True))
        # what the reader sees after the codec: escapes instead of unencodable characters
        seen = text.encode(enc, "dxfreplace").decode(enc)
        try:
            out = "ok " + ";".join(f"{t.code}:{cps(_dec(t.value))}" for t in ascii_tags_loader(_io.StringIO(seen), skip_comments=False))
        except Exception as e:  # noqa
            out = "err " + exc_name(e)
        ctx.hist("X11 binary file", "ascii-read")
        cases.append((f"asciiread|{cps(seen)}", out, True))
    ctx.correspond("X11 binary file", "C09", cases)

    # ---- X8 MIF: decode_mif_to_unicode, re.split(MIF_ENCODED), the complete string branch of the recover loader
    cases = []
    seen = set()
    nm = 0
    for kind, t in mif_strings(ctx):
        if t in seen:
            continue
        seen.add(t)
        ctx.hist("X8 mif", kind)
        c = cps(t)
        out = impl_unmif(t)
        nt = "\\M+" in t
        cases.append((f"unmif|{c}", out, nt))
        cases.append((f"mifsplit|{c}", impl_mifsplit(t), nt))
        cases.append((f"recovertext|{c}", impl_recovertext(t), nt))
        nm += 1
        if nm % 50 == 0 and len(t) <= 16:
            cases.append((f"slowunmif|{c}", out, nt))
    for kind, t in undxf_strings(ctx):
        if kind != "exh" and "\n" not in t and "\r" not in t and "\x00" not in t and t not in seen:
            seen.add(t)
            ctx.hist("X8 mif", "undxf-" + kind)
            cases.append((f"recovertext|{cps(t)}", impl_recovertext(t), "\\U+" in t or "\\M+" in t))
    # which tags the recover loader post-processes: every string typed group code (as the real TYPE_TABLE says) x escape kinds
    from ezdxf.lldxf.types import BINARY_DATA, DXFTag, TYPE_TABLE
    from ezdxf.recover import byte_tag_compiler

    for code in range(0, 1072):
        if TYPE_TABLE.get(code, str) is not str or code in BINARY_DATA:  # 310..319, 1004: hex strings of binary chunks
            continue
        for t in ["X\\U+20AC", "\\M+5D7DF", "PLAIN"]:
            try:
                tags = list(byte_tag_compiler([DXFTag(code, t.encode("utf8"))], encoding="utf8"))
                out = cps(tags[0].value) if len(tags) == 1 and tags[0].code == code else f"other {tags!r}"
            except Exception as e:  # noqa
                out = "err " + exc_name(e)
            ctx.hist("X8 mif", "group-code")
            cases.append((f"recovercode|{code}|{cps(t)}", out, t != "PLAIN"))
    ctx.correspond("X8 mif", "C09", cases)

    # ---- X7 encoding detection: dxf_stream_info (strict ASCII reader), recover.detect_encoding, Binary DXF scan_params
    cases = []
    nsite = 0
    for ver, cp in detection_cases(ctx):
        nt = any(cp.endswith(k) for k, _ in d["cp2enc"])
        ctx.hist("X7 detection", "ascii")
        cases.append((f"detect|{cps(ver)}|{cps(cp)}", cps(site_ascii(ver, cp)), nt))
        ctx.hist("X7 detection", "recover")
        cases.append((f"detectrec|{cps(ver)}|{cps(cp)}", cps(site_recover(ver, cp)), nt))
        nsite += 1
        if nsite % 3 == 0 and "\n" not in cp and "\r" not in cp:
            ctx.hist("X7 detection", "fileindex")
            cases.append((f"detect|{cps(ver)}|{cps(cp)}", cps(site_fileindex(ctx, ver, cp)), nt))
            ctx.hist("X7 detection", "readzip")
            cases.append((f"detect|{cps(ver)}|{cps(cp)}", cps(site_zip(ctx, ver, cp)), nt))
            ctx.hist("X7 detection", "iterdxf.single_pass")
            cases.append((f"detect|{cps(ver)}|{cps(cp)}", cps(site_single_pass(ver, cp)), nt))
        if len(ver) == 6 and cp.isascii():
            data, pos = bin_file(ver, cp.encode())
            ctx.hist("X7 detection", "binary")
            start = data.index(b"$DWGCODEPAGE") + 14  # scan_params; = pos for 1-byte group codes, pos - 1 otherwise
            cases.append((f"detectbin|{cps(ver)}|{nat_list(data[start:])}", cps(site_binary(ver, cp.encode())), nt))
    # the writer's side of the same rule: Drawing.output_encoding for every version ezdxf can create x every code page
    import ezdxf
    from ezdxf.lldxf import const

    for ver, _u in d["versions"]:
        if ver not in const.versions_supported_by_new:
            continue
        doc = ezdxf.new(ver)
        for enc in d["codecs"]:
            doc.encoding = enc
            ctx.hist("X7 detection", "output_encoding")
            cases.append((f"detect|{cps(ver)}|{cps(codepage.tocodepage(enc))}", cps(norm_enc(doc.output_encoding)), True))
    ctx.correspond("X7 detection", "C09", cases)

    # ---- X6 pipeline (model codecs only)
    cases = []
    for enc in ["ascii", "utf8"] + list(d["sbcs"]) + list(d["dbcs_full"]):
        rng = ctx.rng("rt/" + enc)
        good, bad = codec_pools(enc)
        for _ in range(ctx.n(150, 1500)):
            w = rng.choice(["AGB", "AGLB", "AGLBE", "AAAB", "GB"])
            s = "".join(category_char(rng, rng.choice(w), good, bad) for _ in range(rng.randint(1, 16)))
            ctx.hist("X6 pipeline", "sbcs" if enc in d["sbcs"] else "dbcs" if enc in d["dbcs_full"] else enc)
            cases.append((f"rt|src|{enc}|{cps(s)}", impl_rt(enc, s), True))
    ctx.correspond("X6 pipeline", "C09", cases)


# ====================================================================== oracle: real files
LEGACY_VERSIONS = ["R12", "R2000", "R2004"]
UTF8_VERSIONS = ["R2007", "R2010", "R2013", "R2018"]
MODES = [("asc", "strict"), ("asc", "recover"), ("bin", "strict")]
LAYER_FORBIDDEN = set('<>/\\":;?*|=`,')
ASCII_SPECIAL = "\\^%{};U+xM~ '\"#@[]|`$&()*/:<=>?_"


def is_plain_char(x: int) -> bool:
    """BMP, not C0/DEL/C1 control, not a surrogate"""
    return 0x20 <= x <= 0xFFFF and not (0x7F <= x <= 0x9F) and not (0xD800 <= x <= 0xDFFF)


def has_literal_escape(s: str) -> bool:
    return "\\U+" in s or "\\M+" in s


def codec_table(enc: str):
    d = gen_data()
    if enc == "utf8":
        return None
    return d["tables"][enc]


def encodable(enc: str, ch: str) -> bool:
    try:
        ch.encode(enc)
        return True
    except UnicodeEncodeError:
        return False


def lossy_chars(enc: str):
    d = gen_data()
    return set(d["dbcs"].get(enc, {}).get("lossy", []))


def special_trail_chars(enc: str):
    """characters of a double-byte code page whose trail byte is an ASCII character with a meaning in DXF text"""
    d = gen_data()
    if enc not in d["dbcs"]:
        return []
    out = {}
    for x, b in d["tables"][enc].items():
        if len(b) == 2 and is_plain_char(x) and chr(b[1]) in "\\^%{}|~@[]`_" + "ABCDEFabcdef0123456789UMx+":
            out.setdefault(b[1], []).append(x)
    res = []
    for tb, xs in sorted(out.items()):
        res += xs[:6] if chr(tb) in "\\^%{}|~" else xs[:1]
    return res


def trail_escape_strings(enc: str):
    """double-byte pages: a character whose TRAIL byte is an ASCII character with a meaning in DXF text, directly followed by
    the text that would complete an escape at the byte level: `<95 5C>U+0041` is the byte string `..\\U+0041` in the file but
    the text `表U+0041` (no backslash in it: inside the property).  Also `^`+J (caret notation), `%`+%d, `\\`+P, `{`."""
    d = gen_data()
    if enc not in d["dbcs"]:
        return []
    by_trail = {}
    for x, b in d["tables"][enc].items():
        if len(b) == 2 and is_plain_char(x) and x not in d["dbcs"][enc]["lossy"]:
            by_trail.setdefault(b[1], []).append(x)
    out = []
    tails = {0x5C: ["U+0041", "U+20AC", "M+182A0", "M+5D7DF", "P", "U+", "\\U+", "", "~", "fArial|b0;"],
             0x5E: ["J", "I", "M", " "], 0x25: ["%d", "%c", "%%"], 0x7B: ["}", "x"], 0x7C: ["x"], 0x40: ["x"]}
    for tb, tl in tails.items():
        xs = by_trail.get(tb, [])
        for x in xs[:3] + xs[-2:]:
            for t in tl:
                for frame in ("{c}{t}", "a{c}{t}z", "{c}{c}{t}", "Ω{c}{t}Ω"):
                    s = frame.format(c=chr(x), t=t)
                    if not has_literal_escape(s) and s == s.strip() and not s.endswith("^"):
                        out.append(s)
    return list(dict.fromkeys(out))


def sweep_codepoints(ctx, enc: str):
    if not ctx.quick:
        return [x for x in range(0x20, 0x10000) if is_plain_char(x)]
    rng = ctx.rng("sweep/" + enc)
    pts = set(x for x in stratified_codepoints(ctx, "oracle/" + enc, 3) if is_plain_char(x))
    t = codec_table(enc)
    if t is not None:
        enc_pts = sorted(x for x in t if is_plain_char(x) and x >= 0x80)
        # edges of the encodable set + a sample of it
        for i, x in enumerate(enc_pts):
            if i == 0 or enc_pts[i - 1] != x - 1 or i + 1 == len(enc_pts) or enc_pts[i + 1] != x + 1:
                if rng.random() < (1.0 if len(enc_pts) < 300 else 0.08):
                    pts.add(x)
                    if is_plain_char(x + 1):
                        pts.add(x + 1)
        pts.update(rng.sample(enc_pts, min(len(enc_pts), 250)))
        pts.update(x for x in lossy_chars(enc))
        pts.update(special_trail_chars(enc))
    pts.update(range(0xA0, 0x100))  # the former "\xNN" branch of the handler
    return sorted(pts)


def pack(points, n=16):
    """strings of n characters in code point order; framed so that no string starts/ends with white space and no
    literal escape prefix arises"""
    out = []
    for i in range(0, len(points), n):
        s = "s" + "".join(chr(x) for x in points[i : i + n]) + "e"
        if has_literal_escape(s):
            s = s.replace("\\U+", "\\ U+").replace("\\M+", "\\ M+")
        out.append(s)
    return out


def random_strings(ctx, enc: str, count: int):
    rng = ctx.rng("orc-rnd/" + enc)
    t = codec_table(enc)
    if t is None:
        good = [x for x in range(0xA0, 0x10000) if is_plain_char(x)]
        bad = []
    else:
        good = [x for x in t if is_plain_char(x) and x >= 0x80]
        bad = [x for x in range(0xA0, 0x10000) if is_plain_char(x) and x not in t]
    lat = [x for x in range(0xA0, 0x100)]
    digits_only = [x for x in (bad or good) if not any(c in "abcdef" for c in "%04x" % x)]
    special = special_trail_chars(enc) or good
    out = []
    while len(out) < count:
        n = rng.choice([1, 2, 3, 5, 8, 13, 21])
        kinds = rng.choice(["agb", "agbl", "aabbs", "ggggb", "bbbb", "abd", "lllb", "asgb", "a", "gs"])
        cs = []
        for _ in range(rng.randint(1, n)):
            k = rng.choice(kinds)
            if k == "a":
                cs.append(rng.choice(ASCII_SPECIAL + "abcXYZ019"))
            elif k == "g":
                cs.append(chr(rng.choice(good)))
            elif k == "b":
                cs.append(chr(rng.choice(bad or good)))
            elif k == "l":
                cs.append(chr(rng.choice(lat)))
            elif k == "d":
                cs.append(chr(rng.choice(digits_only)))
            elif k == "s":
                cs.append(chr(rng.choice(special)))
        s = "".join(cs)
        if has_literal_escape(s) or not s or s in out or s.endswith("^"):
            continue
        out.append(s)
    # white space at the ends of a value (ASCII blank, NBSP, ideographic space U+3000, en/em spaces, ZWSP, BOM): no loader strips it
    ws = [" ", "\u00a0", "\u3000", "\u2002", "\u2003", "\u2009", "\u200b", "\ufeff", "\u1680", "\u205f"]
    core = chr(rng.choice(good)) + "x" + chr(rng.choice(bad or good))
    for w in ws:
        for s in (w + core, core + w, w + core + w, core + w + w, w):
            if s not in out:
                out.append(s)
    # long values: MTEXT is written in chunks of 250 characters (group 3 ... 1), every escape has 7 bytes
    for n, kinds in ((251, "b"), (600, "agb"), (1300, "gbs")):
        cs = []
        while len(cs) < n:
            k = rng.choice(kinds)
            cs.append(rng.choice("abcXYZ019 ") if k == "a" else chr(rng.choice(good if k == "g" else special if k == "s" else (bad or good))))
        s = "L" + "".join(cs) + "e"
        if not has_literal_escape(s):
            out.insert(len(out) // 2, s)
    return out


NAMED = 10  # strings per document that are also used as block / style names and ATTRIB values


class Place:
    """one document of the oracle: which strings go where"""

    def __init__(self, version, enc, fmt, reader, strings):
        self.version, self.enc, self.fmt, self.reader, self.strings = version, enc, fmt, reader, strings

    def ident(self):
        return f"{self.reader}/{self.fmt}/{self.version}/{self.enc}"


def layer_name(i: int, s: str):
    if any(c in LAYER_FORBIDDEN for c in s) or len(s) > 200:
        return None
    return f"L{i}_{s}"


def with_separator(s: str, sep: str, k: int) -> str:
    """`s` with U+2028 / U+2029 (category Zl / Zp: BMP, no control characters, no line ends of DXF streams - but
    str.splitlines() splits there) at the start, in the middle or at the end"""
    i = (0, len(s) // 2, len(s))[k % 3]
    return s[:i] + sep + s[i:]


def header_extra(pl: Place):
    """string header variables and custom properties: in Binary DXF they reach the file through BinaryTagWriter.write_str
    (preformatted "code\\nvalue\\n" strings), unlike entity attributes"""
    if not pl.strings:
        return []
    base = [t for t in pl.strings[:6] if not t.endswith("^")] or ["x"]
    names = []
    if pl.version != "R12":
        names += ["$HYPERLINKBASE"]
    if pl.version not in ("R12", "R2000"):  # $PROJECTNAME, $LASTSAVEDBY and custom properties are written from R2004 on (C04)
        names += ["$PROJECTNAME", "$LASTSAVEDBY", "Prop A", "Prop B", "Prop C"]
    out = []
    for k, name in enumerate(names):
        v = with_separator(base[k % len(base)], "\u2028\u2029"[k % 2], k)
        if not has_literal_escape(v):
            out.append((name, v))
    return out


def write_doc(pl: Place, path: str):
    import ezdxf

    doc = ezdxf.new(pl.version)
    doc.encoding = pl.enc
    msp = doc.modelspace()
    doc.appids.add("VERIFC09")
    mtext_ok = pl.version != "R12"
    for i, s in enumerate(pl.strings):
        t = msp.add_text(s)
        t.set_xdata("VERIFC09", [(1000, s), (1070, i)])
        if mtext_ok:
            msp.add_mtext(s)
        ln = layer_name(i, s)
        if ln is not None:
            doc.layers.add(ln)
    # more text-carrying attributes for the first strings of the document: block name + INSERT reference, ATTRIB text and
    # tag, text style name, DIMENSION text override
    for i, s in enumerate(pl.strings[:NAMED]):
        bn = layer_name(i, s)
        if bn is None:
            continue
        bn = "B" + bn[1:]
        blk = doc.blocks.new(bn)
        blk.add_point((0, 0))
        ins = msp.add_blockref(bn, (i, 0))
        ins.add_attrib("T" + bn[1:], s, (0, 0))
        doc.styles.add("S" + bn[1:], font="txt.shx")
    if pl.strings:
        doc.header["$MENU"] = pl.strings[0]
        doc.header["$DIMPOST"] = pl.strings[-1]
    for name, val in header_extra(pl):
        if name.startswith("$"):
            doc.header[name] = val
        else:
            doc.header.custom_vars.append(name, val)
    doc.saveas(path, fmt=pl.fmt)


def read_doc(pl: Place, path: str):
    """-> dict where -> list of raw values (strict reader: still escaped)"""
    import ezdxf
    from ezdxf import recover

    if pl.reader == "strict":
        doc = ezdxf.readfile(path)
    else:
        doc, _aud = recover.readfile(path)
    msp = doc.modelspace()
    texts = list(msp.query("TEXT"))
    extra = {}
    if pl.reader == "strict" and pl.fmt == "asc":
        # the other readers of ASCII DXF (none of them decodes \\U+XXXX itself): iterdxf.modelspace (dxf_file_info),
        # iterdxf.single_pass_modelspace (own header scan), iterdxf.opendxf (lldxf.fileindex)
        from ezdxf.addons import iterdxf

        extra["TEXT/iterdxf.modelspace"] = [e.dxf.text for e in iterdxf.modelspace(path, types=["TEXT"])]
        with open(path, "rb") as fh:
            extra["TEXT/iterdxf.single_pass"] = [e.dxf.text for e in iterdxf.single_pass_modelspace(fh, types=["TEXT"])]
        it = iterdxf.opendxf(path)
        try:
            extra["TEXT/iterdxf.opendxf"] = [e.dxf.text for e in it.modelspace(types=["TEXT"])]
        finally:
            it.close()
        # ezdxf.readzip: lines are split at the byte level and decoded one by one (tools/zipmanager.py)
        import zipfile

        zpath = path + ".zip"
        with zipfile.ZipFile(zpath, "w") as zf:
            zf.write(path, "doc.dxf")
        try:
            extra["TEXT/readzip"] = [e.dxf.text for e in ezdxf.readzip(zpath).modelspace().query("TEXT")]
        finally:
            os.unlink(zpath)
        # Drawing.encode_base64 (whole file encoded at once, LF -> CRLF at the byte level) -> ezdxf.decode_base64
        # (CRLF -> LF at the byte level, then decoded as a whole)
        extra["TEXT/base64"] = [e.dxf.text for e in ezdxf.decode_base64(doc.encode_base64()).modelspace().query("TEXT")]
    out = {
        "TEXT": [e.dxf.text for e in texts],
        "XDATA": [e.get_xdata("VERIFC09")[0].value for e in texts],
        "MTEXT": [e.text for e in msp.query("MTEXT")],
        "LAYER": [l.dxf.name for l in doc.layers],
        "BLOCK": [b.name for b in doc.blocks if b.name.startswith("B")],
        "INSERT": [e.dxf.name for e in msp.query("INSERT")],
        "ATTRIB": [(a.dxf.tag, a.dxf.text) for e in msp.query("INSERT") for a in e.attribs],
        "STYLE": [st.dxf.name for st in doc.styles if st.dxf.name.startswith("S")],
        "HEADER": [doc.header["$MENU"], doc.header["$DIMPOST"]],
        "HEADER+": {**{n: doc.header.get(n) for n, _ in header_extra(pl) if n.startswith("$")},
                    **{t: v for t, v in doc.header.custom_vars.properties}},
        "encoding": doc.encoding,
        "output_encoding": doc.output_encoding,
    }
    out.update(extra)
    return out


def function_level(enc: str, s: str, reader: str = "strict"):
    """the same pipeline on the functions alone: encode -> codec decode -> decode_dxf_unicode
    (the recover loader decodes only `if has_dxf_unicode(...)`)"""
    from ezdxf.lldxf.encoding import decode_dxf_unicode, encode, has_dxf_unicode

    try:
        t = encode(s, enc).decode(enc, errors="surrogateescape")
        if reader == "recover" and not has_dxf_unicode(t):
            return t
        return decode_dxf_unicode(t)
    except Exception as e:  # noqa
        return e


def culprit_key(enc: str, s: str):
    """classify a string that does not survive the function level pipeline by the first character that explains it"""
    from ezdxf.lldxf.encoding import encode

    lossy = lossy_chars(enc)
    for ch in s:
        x = ord(ch)
        if encodable(enc, ch):
            if x in lossy:
                return f"lossy-codec/{enc}/U+{x:04X}"
            continue
        w = encode(ch, enc)
        if w == b"\\x%02x" % x:
            return f"escape/latin1-backslash-x/{enc}/U+{x:04X}"
        if w == b"\\U+%04x" % x and w != b"\\U+%04X" % x:
            return f"escape/lower-hex/{enc}/U+{x:04X}"
    return None


class Tally:
    def __init__(self, ctx):
        self.ctx = ctx
        self.counts = {}
        self.keys = set()

    def fail(self, key: str, what: str, replay: dict, cap_class: str | None = None):
        self.keys.add(key)
        cls = cap_class or key
        n = self.counts.get(cls, 0) + 1
        self.counts[cls] = n
        if n <= (12 if cls.startswith("lossy-codec") else 3):
            self.ctx.fail(key, what, replay)


def check_place(ctx, tally: Tally, pl: Place, depth=0):
    from ezdxf.lldxf.encoding import decode_dxf_unicode

    path = str(ctx.scratch / f"o_{os.getpid()}.dxf")
    utf8 = pl.version in UTF8_VERSIONS
    eff = "utf8" if utf8 else pl.enc
    rep = {"op": "file", "version": pl.version, "enc": pl.enc, "fmt": pl.fmt, "reader": pl.reader}
    try:
        write_doc(pl, path)
    except Exception as e:  # noqa
        tally.fail(f"file-layer/save-crash/{pl.ident()}/{type(e).__name__}", f"saveas raised {type(e).__name__}: {e}",
                   {**rep, "strings": pl.strings})
        return
    try:
        got = read_doc(pl, path)
    except Exception as e:  # noqa
        # a string whose escapes make the loader raise takes the whole document with it: classify, drop, retry once
        crashing = [s for s in pl.strings if isinstance(function_level(eff, s, pl.reader), Exception)]
        explained = False
        for s in crashing:
            k = culprit_key(eff, s)
            if k:
                explained = True
                tally.fail(k + "/load-crash", f"{pl.ident()}: loading a file with {s!r} raised {type(e).__name__}: {e}",
                           {**rep, "strings": [s]}, cap_class=k.rsplit("/", 1)[0])
        if not explained or depth > 0:
            tally.fail(f"file-layer/load-crash/{pl.ident()}/{type(e).__name__}",
                       f"{pl.reader} reader raised {type(e).__name__}: {e}", {**rep, "strings": pl.strings})
            return
        rest = [s for s in pl.strings if s not in crashing]
        if rest:
            check_place(ctx, tally, Place(pl.version, pl.enc, pl.fmt, pl.reader, rest), depth + 1)
        return
    finally:
        try:
            os.unlink(path)
        except OSError:
            pass
    want_enc = pl.enc
    if got["encoding"] != want_enc or got["output_encoding"] != ("utf-8" if utf8 else want_enc):
        tally.fail(f"file-layer/encoding-detection/{pl.ident()}",
                   f"document encoding after load: {got['encoding']}/{got['output_encoding']}, saved with {want_enc}",
                   {**rep, "strings": pl.strings[:1]})
    dec = decode_dxf_unicode if pl.reader == "strict" else (lambda v: v)

    def compare(where, s, raw):
        ctx.count("O1 file round trip", (pl.ident(), where, s), not s.isascii())
        try:
            val = dec(raw)
        except Exception as e:  # noqa
            val = e
        if isinstance(val, str) and val == s:
            return
        fl = function_level(eff, s, pl.reader)
        same = (isinstance(fl, Exception) and isinstance(val, Exception) and type(fl) is type(val)) or (
            isinstance(fl, str) and isinstance(val, str) and fl == val)
        k = culprit_key(eff, s) if same else None
        shown = f"{type(val).__name__}: {val}" if isinstance(val, Exception) else repr(val)
        if k:
            tally.fail(k, f"{pl.ident()} {where}: {s!r} read back as {shown}", {**rep, "strings": [s], "where": where},
                       cap_class=k.rsplit("/", 1)[0])
        else:
            tally.fail(f"roundtrip/{pl.ident()}/{where}/{s!r}", f"{pl.ident()} {where}: {s!r} read back as {shown}",
                       {**rep, "strings": [s], "where": where}, cap_class=f"roundtrip/{pl.ident()}/{where}")

    n = len(pl.strings)
    for where in ("TEXT", "XDATA") + (("MTEXT",) if pl.version != "R12" else ()) + tuple(k for k in got if k.startswith("TEXT/")):
        vals = got[where]
        if len(vals) != n:
            tally.fail(f"file-layer/count/{pl.ident()}/{where}", f"{where}: wrote {n} read {len(vals)}", {**rep, "strings": pl.strings})
            continue
        for s, raw in zip(pl.strings, vals):
            compare(where, s, raw)
    compare("HEADER", pl.strings[0], got["HEADER"][0])
    compare("HEADER", pl.strings[-1], got["HEADER"][1])
    for name, val in header_extra(pl):
        raw = got["HEADER+"].get(name)
        if raw is None:
            tally.fail(f"file-layer/header-missing/{pl.ident()}/{name}", f"{name} = {val!r} missing after load",
                       {**rep, "strings": pl.strings[:6], "where": "HEADER/" + name})
        else:
            compare("HEADER/" + name, val, raw)
    # named objects: the raw names must be consistent (INSERT -> BLOCK) and decode to what was stored
    want_named = [(i, s) for i, s in enumerate(pl.strings[:NAMED]) if layer_name(i, s) is not None]
    for where, prefix in (("BLOCK", "B"), ("INSERT", "B"), ("STYLE", "S")):
        found = {}
        for raw in got[where]:
            m = re.match(prefix + r"(\d+)_", raw)
            if m:
                found[int(m.group(1))] = raw
        for i, s in want_named:
            if i not in found:
                tally.fail(f"file-layer/{where.lower()}-missing/{pl.ident()}/{s!r}", f"{where} {prefix}{i}_… missing after load",
                           {**rep, "strings": [s], "where": where})
                continue
            compare(where, prefix + layer_name(i, s)[1:], found[i])
    if set(got["INSERT"]) - set(got["BLOCK"]):
        tally.fail(f"file-layer/insert-without-block/{pl.ident()}", f"INSERT names without block: {sorted(set(got['INSERT']) - set(got['BLOCK']))[:3]!r}",
                   {**rep, "strings": pl.strings[:NAMED], "where": "INSERT"})
    atts = {}
    for tag, text in got["ATTRIB"]:
        m = re.match(r"T(\d+)_", tag)
        if m:
            atts[int(m.group(1))] = (tag, text)
    for i, s in want_named:
        if i not in atts:
            tally.fail(f"file-layer/attrib-missing/{pl.ident()}/{s!r}", f"ATTRIB T{i}_… missing after load", {**rep, "strings": [s], "where": "ATTRIB"})
            continue
        compare("ATTRIB.tag", "T" + layer_name(i, s)[1:], atts[i][0])
        compare("ATTRIB.text", s, atts[i][1])
    names = {}
    for raw in got["LAYER"]:
        m = re.match(r"L(\d+)_", raw)
        if m:
            names[int(m.group(1))] = raw
    for i, s in enumerate(pl.strings):
        ln = layer_name(i, s)
        if ln is None:
            continue
        if i not in names:
            tally.fail(f"file-layer/layer-missing/{pl.ident()}/{s!r}", f"layer {ln!r} missing after load", {**rep, "strings": [s], "where": "LAYER"})
            continue
        compare("LAYER", ln, names[i])


def oracle_places(ctx):
    d = gen_data()
    per_doc = ctx.n(48, 256)
    for ei, enc in enumerate(d["codecs"]):
        strings = pack(sweep_codepoints(ctx, enc)) + random_strings(ctx, enc, ctx.n(160, 1500))
        tes = trail_escape_strings(enc)
        if ctx.quick and len(tes) > 90:
            tes = ctx.rng("tes/" + enc).sample(tes, 90)
        strings = tes + strings
        combos = [(v, m) for v in LEGACY_VERSIONS for m in MODES]
        if ctx.quick:
            # every (version, mode) combination sees an interleaved 1/9 of the strings
            for ci, (v, (fmt, reader)) in enumerate(combos):
                part = strings[ci::len(combos)]
                for i in range(0, len(part), per_doc):
                    yield Place(v, enc, fmt, reader, part[i : i + per_doc])
        else:
            # every mode sees every string; the version rotates per document
            for mi, (fmt, reader) in enumerate(MODES):
                for di, i in enumerate(range(0, len(strings), per_doc)):
                    v = LEGACY_VERSIONS[(di + mi + ei) % 3]
                    yield Place(v, enc, fmt, reader, strings[i : i + per_doc])
    # R2007+: UTF-8 whatever the document encoding says
    strings = pack(sweep_codepoints(ctx, "utf8")) + random_strings(ctx, "utf8", ctx.n(160, 1500))
    vers = ["R2007", "R2018"] if ctx.quick else UTF8_VERSIONS
    combos = [(v, m) for v in vers for m in MODES]
    for ci, (v, (fmt, reader)) in enumerate(combos):
        part = strings[ci::len(combos)] if ctx.quick else strings
        enc = d["codecs"][ci % len(d["codecs"])]
        for i in range(0, len(part), per_doc):
            yield Place(v, enc, fmt, reader, part[i : i + per_doc])


def check_function(tally: Tally, enc: str, s: str):
    """the property on the functions alone (both readers' post-processing)"""
    r = function_level(enc, s)
    r2 = function_level(enc, s, "recover")
    if r == s and r2 == s:
        return
    if r == s:
        r = r2
    k = culprit_key(enc, s)
    what = f"encode/decode/decode_dxf_unicode under {enc}: {s!r} -> " + (
        f"{type(r).__name__}: {r}" if isinstance(r, Exception) else repr(r))
    if k:
        tally.fail(k, what, {"op": "function", "enc": enc, "strings": [s]}, cap_class=k.rsplit("/", 1)[0])
    else:
        tally.fail(f"roundtrip/function/{enc}/" + ("U+%04X" % ord(s[1]) if len(s) == 3 else repr(s)), what, {"op": "function", "enc": enc, "strings": [s]},
                   cap_class=f"roundtrip/function/{enc}")


SPELLING_PREFIXES = ["ansi_", "DOS", "dos", "Ansi_"]


def check_spelling(ctx, tally, enc: str, version: str, fmt: str, spellings, texts):
    """save `texts` under code page `enc`, re-spell $DWGCODEPAGE in the file, read it with every reader of the format"""
    import ezdxf
    from ezdxf import recover
    from ezdxf.lldxf.encoding import decode_dxf_unicode

    d = gen_data()
    key = dict(d["enc2cp"]).get(enc)
    if key is None:
        return
    doc = ezdxf.new(version)
    doc.encoding = enc
    msp = doc.modelspace()
    for t in texts:
        msp.add_text(t)
    path = str(ctx.scratch / f"sp_{os.getpid()}.dxf")
    doc.saveas(path, fmt=fmt)
    raw = open(path, "rb").read()
    std = b"ANSI_" + key.encode()
    try:
        for sp in spellings:
            spelling = sp.encode()
            if fmt == "bin":
                patched = raw.replace(std + b"\x00", spelling + b"\x00", 1)
            else:
                patched = raw.replace(b"\n" + std + b"\n", b"\n" + spelling + b"\n", 1)
            if patched == raw:
                tally.fail(f"file-layer/codepage-not-written/{enc}/{version}/{fmt}", f"$DWGCODEPAGE {std!r} not found in the file",
                           {"op": "codepage", "enc": enc})
                continue
            with open(path, "wb") as fh:
                fh.write(patched)
            readers = [("strict", lambda: ezdxf.readfile(path))]
            if fmt == "asc":
                readers.append(("recover", lambda: recover.readfile(path)[0]))
            for rname, rd in readers:
                ctx.count("O4 code page spellings", (enc, version, fmt, sp, rname), True)
                try:
                    back = rd()
                    got = [e.dxf.text if rname == "recover" else decode_dxf_unicode(e.dxf.text) for e in back.modelspace().query("TEXT")]
                except Exception as e:  # noqa
                    got = f"{type(e).__name__}: {e}"
                if got != texts:
                    tally.fail(f"file-layer/codepage-spelling/{enc}/{version}/{fmt}/{rname}/{sp}",
                               f"$DWGCODEPAGE={sp!r} ({version}, {fmt}, {rname} reader): {texts!r} read back as {got!r}",
                               {"op": "spelling", "enc": enc, "version": version, "fmt": fmt, "reader": rname,
                                "spelling": sp, "strings": texts})
    finally:
        try:
            os.unlink(path)
        except OSError:
            pass


def oracle_spellings(ctx, tally):
    d = gen_data()
    enc2cp = dict(d["enc2cp"])
    for enc in d["codecs"]:
        key = enc2cp.get(enc)
        if key is None:
            continue
        good = [x for x in d["tables"][enc] if is_plain_char(x) and x >= 0x80 and x not in lossy_chars(enc)]
        rng = ctx.rng("spell/" + enc)
        texts = ["".join(chr(rng.choice(good)) for _ in range(6)) + "Ω", "x" + chr(good[0]) + chr(good[-1])]
        for version, fmt in (("R2000", "asc"), ("R12", "asc"), ("R2000", "bin"), ("R12", "bin")):
            check_spelling(ctx, tally, enc, version, fmt, [pre + key for pre in SPELLING_PREFIXES], texts)


HISTORY_VERSIONS = [("R2000", "R2000"), ("R12", "R12"), ("R2004", "R2000"), ("R2010", "R2004"), ("R2000", "R2013"), ("R2018", "R2000"),
                    ("R2004", "R2004"), ("R2013", "R2018")]
HISTORY_LOADERS = ["readfile", "recover", "override", "readzip", "base64"]


ALL_LOSSY = None


def sample_text(ctx_rng, enc: str, n: int = 5) -> str:
    """encodable + one unencodable character; none of the best-fit characters of ANY code page (known finding F15): in a
    history the text is written again under another code page"""
    global ALL_LOSSY
    d = gen_data()
    if ALL_LOSSY is None:
        ALL_LOSSY = set().union(*(lossy_chars(c) for c in d["codecs"]))
    t = d["tables"][enc]
    good = [x for x in t if is_plain_char(x) and x >= 0x80 and x not in ALL_LOSSY]
    bad = [x for x in range(0xA0, 0x3000) if is_plain_char(x) and x not in t and x not in ALL_LOSSY]
    return "h" + "".join(chr(ctx_rng.choice(good)) for _ in range(n)) + chr(ctx_rng.choice(bad)) + "e"


def run_history(ctx, tally, h: dict):
    """new(v1, e1) + text -> save -> LOAD -> doc.encoding = e2 (or readfile(encoding=e2)) -> more text -> dxfversion = v2 ->
    saveas(fmt) -> every reader: all texts come back and the readers agree with the writer about the encoding"""
    import ezdxf
    from ezdxf import recover
    from ezdxf.lldxf.encoding import decode_dxf_unicode

    v1, v2, e1, e2, loader, fmt, t1, t2 = (h[k] for k in ("v1", "v2", "e1", "e2", "loader", "fmt", "t1", "t2"))
    ident = f"{loader}/{v1}:{e1}->{v2}:{e2}/{fmt}"
    rep = {"op": "history", **h}
    p1 = str(ctx.scratch / f"h1_{os.getpid()}.dxf")
    p2 = str(ctx.scratch / f"h2_{os.getpid()}.dxf")
    try:
        doc = ezdxf.new(v1)
        doc.encoding = e1
        doc.modelspace().add_text(t1)
        doc.saveas(p1)
        if loader == "readfile":
            doc = ezdxf.readfile(p1)
        elif loader == "recover":
            doc, _ = recover.readfile(p1)
        elif loader == "override":
            # the documented override: decode the file with e1 (what it is), the argument is stored as document encoding
            doc = ezdxf.readfile(p1, encoding=e1 if v1 in LEGACY_VERSIONS else "utf-8")
        elif loader == "readzip":
            import zipfile

            with zipfile.ZipFile(p1 + ".zip", "w") as zf:
                zf.write(p1, "doc.dxf")
            doc = ezdxf.readzip(p1 + ".zip")
            os.unlink(p1 + ".zip")
        else:
            doc = ezdxf.decode_base64(doc.encode_base64())
        doc.encoding = e2
        doc.modelspace().add_text(t2)
        if v2 != v1:
            doc.dxfversion = v2
        doc.saveas(p2, fmt=fmt)
    except Exception as e:  # noqa
        tally.fail(f"history/crash/{ident}/{type(e).__name__}", f"history {ident} raised {type(e).__name__}: {e}", rep)
        return
    # the text loaded from the first file: the strict readers hand out the escaped form, it is written as it is
    want = [t1, t2]
    readers = [("strict", lambda: ezdxf.readfile(p2))]
    if fmt == "asc":
        readers.append(("recover", lambda: recover.readfile(p2)[0]))
    for rname, rd in readers:
        ctx.count("O5 histories", (ident, rname), True)
        try:
            back = rd()
            got = [e.dxf.text if rname == "recover" else decode_dxf_unicode(e.dxf.text) for e in back.modelspace().query("TEXT")]
            got = [decode_dxf_unicode(g) for g in got]  # t1 may have been loaded by a strict reader (escapes kept)
            benc = back.encoding
        except Exception as e:  # noqa
            got, benc = f"{type(e).__name__}: {e}", None
        if got != want:
            tally.fail(f"history/text/{ident}/{rname}", f"history {ident}, {rname} reader: {want!r} read back as {got!r}", rep)
        elif benc != e2:
            tally.fail(f"history/encoding/{ident}/{rname}", f"history {ident}, {rname} reader: document encoding {benc}, saved with {e2}", rep)
    for q in (p1, p2):
        try:
            os.unlink(q)
        except OSError:
            pass


def oracle_histories(ctx, tally):
    d = gen_data()
    rng = ctx.rng("hist")
    k = 0
    for e2 in d["codecs"]:
        for rnd in range(ctx.n(6, 40)):
            v1, v2 = HISTORY_VERSIONS[k % len(HISTORY_VERSIONS)]
            loader = HISTORY_LOADERS[(k // 3) % len(HISTORY_LOADERS)]
            fmt = "bin" if k % 4 == 3 else "asc"
            k += 1
            e1 = rng.choice([c for c in d["codecs"] if c != e2])
            run_history(ctx, tally, dict(v1=v1, v2=v2, e1=e1, e2=e2, loader=loader, fmt=fmt,
                                         t1=sample_text(rng, e1), t2=sample_text(rng, e2)))


def run_other_writer(ctx, tally, w: dict):
    """r12export (any document -> R12 file in doc.encoding) and r12writer (cp1252, ASCII or binary)"""
    import ezdxf
    from ezdxf import recover
    from ezdxf.lldxf.encoding import decode_dxf_unicode

    path = str(ctx.scratch / f"ow_{os.getpid()}.dxf")
    ident = f"{w['writer']}/{w.get('version', 'R12')}/{w['enc']}/{w['fmt']}"
    rep = {"op": "writer", **w}
    try:
        if w["writer"] == "r12export":
            from ezdxf.addons import r12export

            doc = ezdxf.new(w["version"])
            doc.encoding = w["enc"]  # changed after new(), never saved through Drawing.save
            for t in w["strings"]:
                doc.modelspace().add_text(t)
            r12export.saveas(doc, path)
        else:
            from ezdxf.addons.r12writer import r12writer

            with r12writer(path, fmt=w["fmt"]) as dxf:
                for t in w["strings"]:
                    dxf.add_text(t)
    except Exception as e:  # noqa
        tally.fail(f"writer/crash/{ident}/{type(e).__name__}", f"{ident} raised {type(e).__name__}: {e}", rep)
        return
    readers = [("strict", lambda: ezdxf.readfile(path))]
    if w["fmt"] == "asc":
        readers.append(("recover", lambda: recover.readfile(path)[0]))
    for rname, rd in readers:
        ctx.count("O6 other writers", (ident, rname, tuple(w["strings"])), True)
        try:
            got = [e.dxf.text if rname == "recover" else decode_dxf_unicode(e.dxf.text) for e in rd().modelspace().query("TEXT")]
        except Exception as e:  # noqa
            got = f"{type(e).__name__}: {e}"
        if got != w["strings"]:
            tally.fail(f"writer/text/{ident}/{rname}", f"{ident}, {rname} reader: {w['strings']!r} read back as {got!r}", rep)
    try:
        os.unlink(path)
    except OSError:
        pass


def oracle_other_writers(ctx, tally):
    d = gen_data()
    rng = ctx.rng("writers")
    for i, enc in enumerate(d["codecs"]):
        strings = [sample_text(rng, enc), with_separator(sample_text(rng, enc, 3), "\u2028", i), "plain"]
        run_other_writer(ctx, tally, dict(writer="r12export", version=["R2000", "R2018", "R12", "R2004"][i % 4], enc=enc, fmt="asc", strings=strings))
    lat = [x for x in d["tables"]["cp1252"] if is_plain_char(x) and x >= 0xA0]
    for i in range(ctx.n(6, 40)):
        enc_only = ["w" + "".join(chr(rng.choice(lat)) for _ in range(4)), with_separator("abc", "\u2028\u2029"[i % 2], i)]
        # ASCII r12writer opens the file as cp1252 without error handler: only cp1252 text (U+2028 is not: binary only)
        run_other_writer(ctx, tally, dict(writer="r12writer", enc="cp1252", fmt="asc", strings=enc_only[:1] + ["plain"]))
        run_other_writer(ctx, tally, dict(writer="r12writer", enc="cp1252", fmt="bin",
                                          strings=enc_only + [sample_text(rng, "cp1252"), with_separator("Ωx", "\u2029", i)]))


def oracle(ctx):

    d = gen_data()
    tally = Tally(ctx)
    # O2: the function level pipeline on single BMP code points x every codec
    # (thorough: every plain BMP code point; quick: U+0020..U+05FF, 24 per 256-block, the codec's own sweep points)
    base = None
    if ctx.quick:
        base = set(range(0x20, 0x600)) | set(stratified_codepoints(ctx, "o2", 24))
    for enc in d["codecs"] + ["utf8"]:
        pts = range(0x20, 0x10000) if base is None else sorted(base | set(sweep_codepoints(ctx, enc)))
        for x in pts:
            if is_plain_char(x):
                ctx.count("O2 function level", (enc, x), x >= 0x80)
                check_function(tally, enc, "a" + chr(x) + "b")
        for t in trail_escape_strings(enc) if enc != "utf8" else []:
            ctx.count("O2 function level", (enc, t), True)
            check_function(tally, enc, t)
    # O4: the same file with $DWGCODEPAGE in another spelling (lower case, DOS prefix, bare number) is read the same way
    oracle_spellings(ctx, tally)
    # O5: histories over LOADED documents (change of code page / version after loading); O6: the other writers
    oracle_histories(ctx, tally)
    oracle_other_writers(ctx, tally)
    # O1: real files
    ndocs = 0
    for pl in oracle_places(ctx):
        ndocs += 1
        ctx.hist("O1 file round trip", f"{pl.reader}/{pl.fmt}/{pl.version}")
        check_place(ctx, tally, pl)
    ctx.note(f"oracle documents written and read: {ndocs}; failing inputs per class (all, before the per-class cap of 12): {tally.counts}")
    # O3: the code page written to the file names the codec that was used
    import ezdxf

    from ezdxf.tools import codepage

    for enc in d["codecs"]:
        doc = ezdxf.new("R2000")
        doc.encoding = enc
        path = str(ctx.scratch / "o3.dxf")
        doc.saveas(path)
        back = ezdxf.readfile(path)
        ctx.count("O3 code page header", enc, True)
        if back.encoding != enc:
            tally.fail(f"file-layer/codepage/{enc}", f"saved with {enc}, $DWGCODEPAGE={back.header['$DWGCODEPAGE']} loads as {back.encoding}",
                       {"op": "codepage", "enc": enc})
        name = codepage.tocodepage(enc)
        if codepage.toencoding(name) != enc or not codepage.is_supported_encoding(enc):
            tally.fail(f"names/{enc}", f"tocodepage({enc!r}) = {name!r}, toencoding({name!r}) = {codepage.toencoding(name)!r}",
                       {"op": "codepage", "enc": enc})


def replay(ctx, rep):
    """re-evaluate every recorded failing input; it still fails if the same key is produced again"""
    gen_data()
    bad = []
    for f in rep.get("failing_inputs", []):
        r = f["replay"]
        tally = Tally(ctx)
        tally.ctx = type("NoRecord", (), {"fail": staticmethod(lambda *a, **k: None), "count": ctx.count, "scratch": ctx.scratch})()
        if r["op"] == "file":
            check_place(tally.ctx, tally, Place(r["version"], r["enc"], r["fmt"], r["reader"], r["strings"]))
        elif r["op"] == "function":
            for s in r["strings"]:
                check_function(tally, r["enc"], s)
        elif r["op"] == "history":
            run_history(tally.ctx, tally, {k: v for k, v in r.items() if k != "op"})
        elif r["op"] == "writer":
            run_other_writer(tally.ctx, tally, {k: v for k, v in r.items() if k != "op"})
        elif r["op"] == "spelling":
            check_spelling(tally.ctx, tally, r["enc"], r["version"], r["fmt"], [r["spelling"]], r["strings"])
        elif r["op"] == "codepage":
            import ezdxf
            from ezdxf.tools import codepage

            doc = ezdxf.new("R2000")
            doc.encoding = r["enc"]
            p = str(ctx.scratch / "rp.dxf")
            doc.saveas(p)
            if ezdxf.readfile(p).encoding != r["enc"] or codepage.toencoding(codepage.tocodepage(r["enc"])) != r["enc"]:
                tally.keys.add(f["key"])
        base = f["key"][: -len("/load-crash")] if f["key"].endswith("/load-crash") else f["key"]
        if f["key"] in tally.keys or base in tally.keys:
            bad.append(f["key"])
    return (not bad, "; ".join(bad) or "all recorded failing inputs pass now")

"""C06  Audit is sound on valid documents and converges on damaged ones (DESIGN.md section 7, C06)."""
from __future__ import annotations

import io
import random
import re
import signal

import dxfparse
from gen.dochist import Runner, gen_history, gen_rich, hx

ID = "C06"
LEAN_MODULES = ["EzdxfVerif.Props.C06"]
DRIVER_DEPS = ["EzdxfVerif.Model.Doc", "EzdxfVerif.Model.Audit", "Drivers.Proto"]
RULE = (
    "correspondence: generated API histories on a real Drawing followed by in-memory structural damage (owner handle "
    "overwritten with a dangling / wrong / missing value, entity listed in a second entity space, block reference to an "
    "undefined block, unlinked entity; session 3: groups with dead / unlinked / block-owned members or members on several "
    "layouts, empty groups, a *Paper_Space... block record without layout that holds entities and is referenced, the active "
    "block *Paper_Space renamed) and two "
    "doc.audit() runs: number of applied fixes and all observables after each "
    "run vs the Lean audit model. oracle (real code): (1) no false positives - audit of documents built by rich API "
    "histories (all entities linked, no stale group members) reports no error, no fix and does not change the written "
    "bytes; (2) convergence - every combination of k<=3 faults from a tag-level catalogue (dangling owner, dangling "
    "pointer, duplicate handle, invalid handle text, undefined linetype/text style/layer/block, missing SEQEND, orphaned "
    "LAYOUT, lost ACAD_LAYOUT entry, invalid colour/lineweight value, invalid values of every float attribute of every "
    "entity type, every pointer field of the OBJECTS section, owner fault on every entity type) injected into valid files of all versions: load (strict, else recover), "
    "audit, second audit applies no fix and lists the same errors, save, strict reload, harness-owned structural "
    "validation of the saved file. non-trivial = at least one fault / mutation; distinct by hash."
)
TRUSTED_BASE = [
    "modelled part of Auditor.run (Model/Doc.lean `audit`): BlocksSection.audit owner check, Layouts.audit orphaned paperspace block records and restoration of the active paperspace layout (not: creation of a new layout when none is left), check_owner_exist incl. unlinked entities, Insert.audit undefined block, trashcan, GroupCollection.audit (invalid members, members on several layouts, empty groups) in the order of the (fixed) pipeline; root dictionary / table / object audits, LAYOUT objects, the value fixers and the ~60 entity-specific audit() overrides are exercised by the oracle only",
    "harness/dxfparse.py validator for the saved file",
]
ASSUMPTIONS = ["faults are applied at the tag level to files written by ezdxf itself"]
OPEN = ["no false positives over histories is proved (audit_sound_history, audit_sound_no_unlink) relative to decidable predicates on the REACHED state: defined block references, valid non-empty groups, no user block named *Paper_Space... (RefsValid) - these are not invariants of the API (add_blockref accepts undefined names, group members can be moved away) and are corresponded/oracled; 'every entity linked' IS proved for all histories without unlink_entity",
        "missing SEQEND repair, duplicate / invalid handles, dictionary entries to dead objects, undefined linetype/style/layer names, invalid attribute values: oracle only (fault catalogue)",
        "F24 (partially fixed): audit still raises for two duplicate-handle constellations on structural objects"]

VERS = ["R2000", "R2004", "R2007", "R2010", "R2013", "R2018"]


def correspond(ctx):
    rng = ctx.rng("c06")
    cases = []
    for i in range(ctx.n(150, 2000)):
        seed = rng.randrange(1 << 30)
        hr = random.Random(seed)
        r = Runner(hr.choice(VERS))
        choose = gen_history(hr, 0, misuse=False, with_reload=False)
        lines = [(r.init_line(), "ok;" + r.observe())]
        for _ in range(hr.choice([4, 8, 14])):
            op = choose(r)
            if op[0] in ("renblock", "delblock", "dellayout", "purge"):
                continue
            req, out = r.apply(op)
            lines.append((req, out + ";" + r.observe()))
        orphan = hr.random() < 0.3
        if orphan:
            # a paperspace block record without a layout (`Layouts.audit` deletes it with its content; block references
            # to it and entities owned by it must be repaired by the same run)
            name = hr.choice(["*Paper_Space7", "*PAPER_SPACE8"])
            for op in (("newblock", name),):
                req, out = r.apply(op)
                lines.append((req, out + ";" + r.observe()))
            kb = [k for k, lay in r.containers().items() if lay is not None and lay.name == name]
            for op in ([("add", kb[0]), ("addl", kb[0], None, 2)] if kb else []) + [("addl", sorted(r.containers())[0], name, hr.choice([0, 1]))]:
                req, out = r.apply(op)
                lines.append((req, out + ";" + r.observe()))
            ctx.hist("X1 audit model", "orphan-paperspace-block")
        noactive = hr.random() < 0.2
        if noactive:
            # no active paperspace layout: the block *Paper_Space is renamed (low level tool) - with a paperspace layout left
            # `Layouts.audit` restores the active layout by renaming the block of the first paperspace layout; when the renamed
            # block has no layout at all it is an orphan and deleted first
            act = r.doc.block_records.get("*Paper_Space")
            owned = any(l.block_record_handle == act.dxf.handle for l in r.doc.layouts)
            if owned or len([l for l in r.doc.layouts if l.name != "Model"]) >= 1:
                req, out = r.apply(("renblock", "*Paper_Space", hr.choice(["*Paper_Space5", "*PAPER_SPACE6"])))
                lines.append((req, out + ";" + r.observe()))
                ctx.hist("X1 audit model", "no-active-layout")
        ks = sorted(r.containers().keys())
        live = [h for h in r.order if r.ents[h].is_alive]
        nd = hr.choice([0, 1, 2, 3, 4])
        for _ in range(nd):
            if not live:
                break
            h = hr.choice(live)
            kind = hr.random()
            if kind < 0.45:
                op = ("dmgowner", h, hr.choice([None, 65535, hr.choice(ks), hr.choice(ks)]))
            else:
                op = ("dmgappend", hr.choice(ks), h)
            req, out = r.apply(op)
            lines.append((req, out + ";" + r.observe()))
            ctx.hist("X1 audit model", op[0])
        for _ in range(2):
            req, out = r.apply(("auditfix",))
            lines.append((req, out + ";" + r.observe()))
        for req, resp in lines:
            cases.append((req, resp, nd > 0 or orphan or noactive))
    ctx.correspond("X1 audit model", "C05", cases, build=DRIVER_DEPS)


# ------------------------------------------------------------------ oracle
class _Timeout(Exception):
    pass


def _on_alarm(*a):
    raise _Timeout()


STRIP = re.compile(r"^\s*9\n\$(TDUPDATE|TDUUPDATE|VERSIONGUID|FINGERPRINTGUID|TDCREATE|TDUCREATE)\n\s*\d+\n.*\n", re.M)


STAMP = re.compile(r"^(\d[\w.]* @ )\d{4}-\d\d-\d\dT\S+$", re.M)


def written(doc) -> str:
    s = io.StringIO()
    doc.write(s)
    return STAMP.sub(r"\1<time>", STRIP.sub("", s.getvalue()))


def no_false_positive(ctx, seed, version):
    hr = random.Random(seed)
    r = Runner(version)
    choose = gen_rich(hr)
    rep = {"op": "nfp", "seed": seed, "version": version}
    for i in range(hr.choice([8, 16, 24])):
        op = choose(r)
        if op[0] in ("unlink", "reactor", "audit", "auditstep", "destroy", "reload"):
            continue  # unlinked entities / hand-made reactors are outside "valid"; destroy() alone leaves stale members
        if version == "R12" and op[0] in ("newlayout", "dellayout", "renlayout", "activate"):
            continue
        signal.alarm(5)
        try:
            r.apply(op)
        except _Timeout:
            return
        finally:
            signal.alarm(0)
    doc = r.doc
    # precondition of the clause: every live entity linked, groups reference only live linked entities on one layout
    for h, e in r.ents.items():
        if e.is_alive and (e.dxf.owner is None or e.get_layout() is None):
            return
    try:
        for name, g in doc.groups:
            members = list(g)
            if not members or len(members) != len(g._data):
                return  # empty group / stale members: outside "groups reference only live objects"
            if len({m.dxf.owner for m in members}) > 1 or any(m.get_layout() is None or not m.get_layout().is_any_layout for m in members):
                return
    except Exception:  # noqa
        return
    ctx.count("O1 no false positives", (seed, version), True)
    try:
        before = written(doc)
    except Exception:  # noqa  (documents that cannot be written are C04's subject)
        return
    a = doc.audit()
    if a.errors or a.fixes:
        msgs = [f"{x.code.name}" for x in (a.errors + a.fixes)][:4]
        ctx.fail(f"false-positive/{msgs[0]}", f"{version}: audit of an API-built document reports {msgs}", rep)
        return
    after = written(doc)
    if before != after:
        rb, ra = dxfparse.records(dxfparse.parse_ascii(before)), dxfparse.records(dxfparse.parse_ascii(after))
        kind = "other"
        if len(rb) == len(ra):
            diffs = [(x, y) for x, y in zip(rb, ra) if x != y]
            if diffs and all(x[0][1] in ("VERTEX", "ATTRIB", "SEQEND") and len(x) == len(y)
                             and all(t == u or (t[0] == 330 and u[0] == 330) for t, u in zip(x, y)) for x, y in diffs):
                kind = "subentity-owner"
        ctx.fail(f"audit-changed-output/{kind}/{version}", f"{version}: audit without findings changed the written file ({kind})", rep)


def factory_calls(doc, lay):
    """every creation method of the graphics factory with minimal legal arguments and boundary values (few points, zero
    sizes, optional parts missing): (label, thunk).  Not included because the audit removes them by design (entities
    without geometry): MESH without vertices, MLINE with a single vertex"""
    P2 = [(0, 0), (2, 1)]
    P3 = [(0, 0), (2, 1), (4, 0)]
    P4 = [(0, 0), (2, 1), (4, 0), (6, 1)]
    P6 = P4 + [(8, 0), (10, 1)]
    calls = [
        ("point", lambda: lay.add_point((0, 0))), ("line", lambda: lay.add_line((0, 0), (1, 0))),
        ("line0", lambda: lay.add_line((0, 0), (0, 0))),
        ("circle", lambda: lay.add_circle((0, 0), 1)), ("arc", lambda: lay.add_arc((0, 0), 1, 0, 360)),
        ("ellipse", lambda: lay.add_ellipse((0, 0), (1, 0), 1.0)), ("ellipse-thin", lambda: lay.add_ellipse((0, 0), (1, 0), 1e-6)),
        ("solid", lambda: lay.add_solid([(0, 0), (1, 0), (0, 1)])), ("trace", lambda: lay.add_trace([(0, 0), (1, 0), (0, 1), (1, 1)])),
        ("3dface", lambda: lay.add_3dface([(0, 0, 0), (1, 0, 0), (0, 1, 0)])),
        ("text", lambda: lay.add_text("")), ("text2", lambda: lay.add_text("x", height=0.1)),
        ("mtext", lambda: lay.add_mtext("")), ("mtext-cols", lambda: lay.add_mtext_static_columns(["a", "b"], 3, 1, 5)),
        ("attdef", lambda: lay.add_attdef("TAG")), ("shape", lambda: lay.add_shape("S")),
        ("polyline2d-1", lambda: lay.add_polyline2d([(0, 0)])), ("polyline2d", lambda: lay.add_polyline2d(P3, close=True)),
        ("polyline3d", lambda: lay.add_polyline3d([(0, 0, 0), (1, 1, 1)])),
        ("polymesh", lambda: lay.add_polymesh((2, 2))), ("polyface", lambda: lay.add_polyface().append_face([(0, 0, 0), (1, 0, 0), (1, 1, 0)])),
        ("lwpolyline-1", lambda: lay.add_lwpolyline([(0, 0)])), ("lwpolyline", lambda: lay.add_lwpolyline(P3, close=True)),
        ("spline-fit2", lambda: lay.add_spline(P2)), ("spline-fit3", lambda: lay.add_spline(P3)),
        ("spline-fit4", lambda: lay.add_spline(P4)), ("spline-fit6", lambda: lay.add_spline(P6)),
        ("spline-deg2", lambda: lay.add_spline(P3, degree=2)),
        ("spline-tangents", lambda: lay.add_spline(P3, dxfattribs={"start_tangent": (1, 0, 0), "end_tangent": (1, 0, 0)})),
        ("spline-ctrl", lambda: lay.add_open_spline(P4)), ("spline-closed", lambda: lay.add_closed_spline(P4)),
        ("spline-rational", lambda: lay.add_rational_spline(P4, [1, 2, 2, 1])),
        ("spline-cpfit", lambda: lay.add_spline_control_frame(P3)), ("spline-cad", lambda: lay.add_cad_spline_control_frame(P3)),
        ("hatch-empty", lambda: lay.add_hatch()),
        ("hatch-poly", lambda: lay.add_hatch().paths.add_polyline_path(P3, is_closed=True)),
        ("hatch-edge", lambda: lay.add_hatch().paths.add_edge_path().add_line((0, 0), (1, 0))),
        ("mpolygon", lambda: lay.add_mpolygon().paths.add_polyline_path(P3, is_closed=True)),
        ("image", lambda: lay.add_image(doc.add_image_def("x.png", (10, 10)), (0, 0), (1, 1))),
        ("wipeout", lambda: lay.add_wipeout([(0, 0), (1, 1)])), ("underlay", lambda: lay.add_underlay(doc.add_underlay_def("x.pdf", "pdf"), (0, 0))),
        ("xline", lambda: lay.add_xline((0, 0), (1, 0))), ("ray", lambda: lay.add_ray((0, 0), (1, 0))),
        ("leader", lambda: lay.add_leader(P2)), ("leader3", lambda: lay.add_leader(P3)),
        ("mline", lambda: lay.add_mline(P3, close=True)),
        ("helix", lambda: lay.add_helix(1, 1, 1)),
        ("blockref", lambda: lay.add_blockref("FBLK", (0, 0))), ("blockref-attrib", lambda: lay.add_blockref("FBLK", (0, 0)).add_attrib("T", "v")),
        ("auto-blockref", lambda: lay.add_auto_blockref("FBLK", (0, 0), {"T": "v"})),
        ("lindim", lambda: lay.add_linear_dim(base=(0, 2), p1=(0, 0), p2=(3, 0)).render()),
        ("aligned-dim", lambda: lay.add_aligned_dim(p1=(0, 0), p2=(3, 1), distance=1).render()),
        ("radius-dim", lambda: lay.add_radius_dim(center=(0, 0), radius=2, angle=30).render()),
        ("diameter-dim", lambda: lay.add_diameter_dim(center=(0, 0), radius=2, angle=30).render()),
        ("angular-dim", lambda: lay.add_angular_dim_3p(base=(0, 3), center=(0, 0), p1=(3, 0), p2=(0, 3)).render()),
        ("arc-dim", lambda: lay.add_arc_dim_3p(base=(0, 3), center=(0, 0), p1=(3, 0), p2=(0, 3)).render()),
        ("ordinate-dim", lambda: lay.add_ordinate_x_dim(feature_location=(1, 1), offset=(0, 2)).render()),
        ("mleader", lambda: lay.add_multileader_mtext("Standard").build(insert=(0, 0))),
        ("3dsolid", lambda: lay.add_3dsolid()), ("region", lambda: lay.add_region()), ("body", lambda: lay.add_body()),
        ("surface", lambda: lay.add_surface()), ("extruded", lambda: lay.add_extruded_surface()),
    ]
    return calls


def factory_sweep(ctx):
    """O3: no false positives for every creation method of the graphics factory (minimal legal arguments, boundary
    values) in the modelspace, a paperspace layout and a block definition, all versions"""
    import ezdxf

    for version in ["R12"] + VERS:
        for where in ("msp", "psp", "blk"):
            if version == "R12" and where == "psp":
                continue
            doc = ezdxf.new(version)
            blk = doc.blocks.new("FBLK")
            blk.add_attdef("T", (0, 0))
            blk.add_line((0, 0), (1, 1))
            target = doc.blocks.new("TARGET")
            lay = {"msp": doc.modelspace(), "psp": doc.layout("Layout1") if version != "R12" else None, "blk": target}[where]
            made = []
            for label, f in factory_calls(doc, lay):
                try:
                    f()
                    made.append(label)
                except Exception:  # noqa  (not every method exists for every version / layout kind: rejected is fine)
                    ctx.hist("O3 factory sweep", "rejected")
            rep = {"op": "factory", "version": version, "where": where}
            ctx.count("O3 factory sweep", (version, where), True)
            ctx.hist("O3 factory sweep", f"created={len(made)}")
            n0 = {t: 0 for t in ()}
            before_types = sorted(e.dxftype() for e in lay)
            try:
                before = written(doc)
            except Exception as e:  # noqa
                ctx.fail(f"factory-write-raised/{version}/{type(e).__name__}", f"{version} {where}: writing the factory document raised {type(e).__name__}: {e}", rep)
                continue
            a = doc.audit()
            if a.errors or a.fixes:
                msgs = [f"{x.code.name}" for x in (a.errors + a.fixes)][:4]
                ctx.fail(f"false-positive/{msgs[0]}", f"{version} {where}: audit of a document built by the graphics factory reports {msgs}: "
                         f"{(a.errors + a.fixes)[0].message[:120]}", rep)
                continue
            if sorted(e.dxftype() for e in lay) != before_types:
                ctx.fail(f"false-positive/entity-removed/{version}", f"{version} {where}: audit removed entities of a factory-built document", rep)
            if written(doc) != before:
                ctx.fail(f"audit-changed-output/factory/{version}", f"{version} {where}: audit without findings changed the written file", rep)


# ---- tag level faults
def base_files(ctx):
    """valid files (tags) of all versions with polyline, insert+attribs, group, xdict, dimension"""
    import ezdxf

    out = []
    for v in ["R12"] + VERS:
        doc = ezdxf.new(v, setup=True)
        msp = doc.modelspace()
        blk = doc.blocks.new("BLK")
        blk.add_line((0, 0), (1, 1))
        blk.add_attdef("TAG", (0, 0))
        a = msp.add_line((0, 0), (1, 0), dxfattribs={"layer": "L1", "linetype": "DASHED", "color": 3})
        msp.add_polyline2d([(0, 0), (1, 0), (1, 1)])
        ins = msp.add_blockref("BLK", (2, 2))
        ins.add_attrib("TAG", "v", (0, 0))
        msp.add_text("txt", dxfattribs={"style": "OpenSans"})
        doc.layers.add("L1")
        if v != "R12":
            msp.add_lwpolyline([(0, 0), (1, 0)])
            g = doc.groups.new("G")
            g.set_data([a])
            xd = a.new_extension_dict()
            xd.add_xrecord("X").reset([(1, "p")])
            # nested (soft-owner) dictionaries, the child stored in OBJECTS in front of its parent
            parent = doc.rootdict.add_new_dict("VERIF_PARENT")
            child = parent.add_new_dict("SUB")
            child.add_xrecord("PAYLOAD").reset([(1, "nested")])
            es = doc.objects.get_entity_space().entities
            es.remove(child)
            es.insert(es.index(parent), child)
            second = doc.layouts.new("Second")
            second.add_line((0, 0), (1, 1))
            second.add_blockref("BLK", (1, 1))
            msp.add_mtext("m")
            msp.add_spline([(0, 0), (1, 1), (2, 0)])
            msp.add_hatch().paths.add_polyline_path([(0, 0), (1, 0), (1, 1)], is_closed=True)
            msp.add_ellipse((0, 0), (1, 0), 0.5)
            dim = msp.add_linear_dim(base=(0, 2), p1=(0, 0), p2=(3, 0))
            dim.render()
        msp.add_circle((0, 0), 1)
        msp.add_polyline3d([(0, 0, 0), (1, 1, 1)])
        msp.add_polyface().append_face([(0, 0, 0), (1, 0, 0), (1, 1, 0)])
        s = io.StringIO()
        doc.write(s)
        out.append((v, dxfparse.parse_ascii(s.getvalue())))
    return out


BAD_NUMBERS = ["-1.5", "0.0", "1e+11", "-1e+11"]


def fault_sites(tags):
    """(kind, index) of applicable faults"""
    sites = []
    section = None
    for i, (c, v) in enumerate(tags):
        if c == 2 and i and tags[i - 1] == (0, "SECTION"):
            section = v
        if section in ("ENTITIES", "BLOCKS", "OBJECTS", "TABLES"):
            if c == 330:
                sites.append(("dangling-owner", i))
            if c in (340, 350, 360) and section == "OBJECTS":
                sites.append(("dangling-pointer", i))
            if c == 5:
                sites.append(("dup-handle", i))
                sites.append(("bad-handle", i))
            if section in ("ENTITIES", "BLOCKS"):
                if c == 6:
                    sites.append(("undef-linetype", i))
                if c == 7:
                    sites.append(("undef-style", i))
                if c == 8:
                    sites.append(("undef-layer", i))
                if c == 62:
                    sites.append(("bad-color", i))
                if c == 370:
                    sites.append(("bad-lineweight", i))
                if 40 <= c <= 48:
                    # invalid attribute VALUES of the float attributes (radius, height, axis ratio, parameters ...):
                    # negative, zero, huge, huge negative
                    for k in range(len(BAD_NUMBERS)):
                        sites.append((f"bad-number{k}", i))
                if c == 2 and tags[i - 1][0] != 0 and any(t == (0, "INSERT") for t in tags[max(0, i - 12):i]):
                    sites.append(("undef-block", i))
                if (c, v) == (0, "SEQEND"):
                    sites.append(("missing-seqend", i))
            if section == "OBJECTS" and (c, v) == (0, "LAYOUT"):
                sites.append(("orphan-layout", i))
    # the entries of the ACAD_LAYOUT dictionary (the DICTIONARY that has an entry "Model"): losing the entry of a
    # paperspace layout orphans its LAYOUT object AND its *Paper_Space block record with all content
    i = 0
    while i < len(tags):
        if tags[i] == (0, "DICTIONARY"):
            j = i + 1
            names = []
            while j < len(tags) and tags[j][0] != 0:
                if tags[j][0] == 3 and j + 1 < len(tags) and tags[j + 1][0] in (350, 360):
                    names.append((tags[j][1], j))
                j += 1
            if any(n == "Model" for n, _ in names):
                for n, k in names:
                    if n != "Model":
                        sites.append(("lost-layout-entry", k))
            i = j
        else:
            i += 1
    return sites


def apply_faults(tags, faults, used_handles):
    tags = list(tags)
    drop = set()
    for kind, i in faults:
        c, v = tags[i]
        if kind in ("dangling-owner", "dangling-pointer"):
            tags[i] = (c, "FFFF1")
        elif kind == "dup-handle":
            other = next((h for h in used_handles if h != v), v)
            tags[i] = (c, other)
        elif kind == "bad-handle":
            tags[i] = (c, "XYZ")
        elif kind in ("undef-linetype", "undef-style", "undef-layer", "undef-block"):
            tags[i] = (c, "UNDEFINED_" + kind[6:].upper())
        elif kind == "bad-color":
            tags[i] = (c, "300")
        elif kind.startswith("bad-number"):
            tags[i] = (c, BAD_NUMBERS[int(kind[10:])])
        elif kind == "bad-lineweight":
            tags[i] = (c, "999")
        elif kind == "missing-seqend":
            j = i
            drop.add(j)
            j += 1
            while j < len(tags) and tags[j][0] != 0:
                drop.add(j)
                j += 1
        elif kind == "lost-layout-entry":
            drop.add(i)
            drop.add(i + 1)
        elif kind == "orphan-layout":
            # make the LAYOUT point to a block record that does not exist
            j = i + 1
            last330 = None
            while j < len(tags) and tags[j][0] != 0:
                if tags[j][0] == 330:
                    last330 = j
                j += 1
            if last330 is not None:
                tags[last330] = (330, "FFFF2")
    return [t for k, t in enumerate(tags) if k not in drop]


def to_text(tags):
    return "".join(f"{c:>3}\n{v}\n" for c, v in tags)


def converge(ctx, version, tags, faults, vcode):
    import ezdxf
    from ezdxf import recover
    from ezdxf.lldxf.const import DXFStructureError

    used = [v for c, v in tags if c == 5]
    text = to_text(apply_faults(tags, faults, used))
    rep = {"op": "faults", "version": version, "faults": [(k, i) for k, i in faults]}
    key = ("dup/" if any(k in ("dup-handle", "bad-handle") for k, _ in faults) else "nodup/") + "+".join(sorted(k for k, _ in faults))
    ctx.count("O2 convergence", (version, tuple(faults)), True)
    ctx.hist("O2 convergence", f"k={len(faults)}")
    # a hang of pure-Python code burns CPU: count CPU time of this process (a loaded machine is not a hang), 10x wall backstop
    signal.setitimer(signal.ITIMER_PROF, 30)
    signal.setitimer(signal.ITIMER_REAL, 300)
    stage = "load"
    try:
        try:
            doc = ezdxf.read(io.StringIO(text))
            how = "strict"
        except Exception:  # noqa  (not loadable by the strict reader: the recover reader decides)
            try:
                doc, aud0 = recover.read(io.BytesIO(text.encode("utf8" if vcode >= "AC1021" else "cp1252", "replace")))
                how = "recover"
            except Exception:  # noqa  (other exception types of the recover reader are C07's subject)
                ctx.hist("O2 convergence", "not-loadable")
                return
        ctx.hist("O2 convergence", how)
        stage = "audit"
        a1 = doc.audit()
        a2 = doc.audit()
        if a2.fixes:
            ctx.fail(f"not-converged/{key}/{a2.fixes[0].code.name}", f"{version} faults {key}: second audit applied {[f.code.name for f in a2.fixes][:4]}", rep)
        e1 = sorted((e.code.name) for e in a1.errors)
        e2 = sorted((e.code.name) for e in a2.errors)
        if e1 != e2:
            ctx.fail(f"errors-differ/{key}", f"{version} faults {key}: unfixable errors {e1} then {e2}", rep)
        if a2.errors:
            ctx.hist("O2 convergence", "unfixable-errors-reported")
            return  # the document is declared unfixable: no guarantee for the saved file is claimed
        stage = "save"
        s = io.StringIO()
        doc.write(s)
        out = s.getvalue()
        stage = "reload"
        try:
            ezdxf.read(io.StringIO(out))
        except Exception as e:  # noqa
            ctx.fail(f"reload-failed/{key}/{type(e).__name__}", f"{version} faults {key}: audited document does not reload strictly: {type(e).__name__}: {e}", rep)
            return
        problems = dxfparse.check_file(dxfparse.parse_ascii(out), vcode)
        for p in problems[:3]:
            kind = p.split(":")[0].split("#")[0].strip()[:30]
            if re.search(r": reactor \w+ not in file", p):
                continue  # finding F22 (C04): reactors of destroyed groups
            if re.search(r"handle \w+ >= \$HANDSEED", p):
                ctx.fail(f"handseed-not-advanced/{key}", f"{version} faults {key}: audited and saved file: {p}", rep)
                continue
            if p.startswith("duplicate handle"):
                ctx.fail(f"dup-handle-survives/{key}", f"{version} faults {key}: audited and saved file: {p}", rep)
                continue
            ctx.fail(f"audited-file/{key}/{kind}", f"{version} faults {key}: audited and saved file: {p}", rep)
    except _Timeout:
        ctx.fail(f"hang/{key}", f"{version} faults {key}: load/audit/save did not finish in 30 s CPU time", rep)
    except Exception as e:  # noqa
        ctx.fail(f"raised-in-{stage}/{type(e).__name__}/{key}", f"{version} faults {key}: {stage} raised {type(e).__name__}: {e}", rep)
    finally:
        signal.setitimer(signal.ITIMER_PROF, 0)
        signal.setitimer(signal.ITIMER_REAL, 0)


VCODE = {"R12": "AC1009", "R2000": "AC1015", "R2004": "AC1018", "R2007": "AC1021", "R2010": "AC1024", "R2013": "AC1027", "R2018": "AC1032"}


def oracle(ctx):
    signal.signal(signal.SIGALRM, _on_alarm)
    signal.signal(signal.SIGPROF, _on_alarm)
    rng = ctx.rng("oracle")
    for i in range(ctx.n(100, 1500)):
        no_false_positive(ctx, rng.randrange(1 << 30), (["R12"] + VERS)[i % 7])
    factory_sweep(ctx)
    files = base_files(ctx)
    for version, tags in files:
        sites = fault_sites(tags)
        site_set = set(sites)
        by_kind = {}
        for k, i in sites:
            by_kind.setdefault(k, []).append((k, i))
        # every single fault kind at a few positions, then random pairs and triples
        singles = [f for k in sorted(by_kind) if not k.startswith("bad-number")
                   for f in rng.sample(by_kind[k], min(len(by_kind[k]), ctx.n(2, 12)))]
        # every entry pointer of the root dictionary (the first DICTIONARY of OBJECTS), one fault each
        first_dict = next((i for i, t in enumerate(tags) if t == (0, "DICTIONARY")), None)   # none in R12
        j = len(tags) if first_dict is None else first_dict + 1
        while j < len(tags) and tags[j][0] != 0:
            if tags[j][0] in (350, 360):
                singles.append(("dangling-pointer", j))
            j += 1
        # every entity TYPE x the owner faults: the owner tag (first 330) of every record of the ENTITIES section
        # (R12 files have no owner tags)
        in_entities = False
        k = 0
        while k < len(tags):
            if tags[k] == (2, "ENTITIES") and tags[k - 1] == (0, "SECTION"):
                in_entities = True
            elif tags[k] == (0, "ENDSEC"):
                in_entities = False
            elif in_entities and tags[k][0] == 0:
                m = k + 1
                while m < len(tags) and tags[m][0] != 0:
                    if tags[m][0] == 330 and not any(t[0] == 102 and t[1].startswith("{") for t in tags[k + 1:m] if False):
                        singles.append(("dangling-owner", m))
                        break
                    m += 1
            k += 1
        # every (entity type, float attribute) x invalid values: all values in thorough, one value per pair in quick
        # (rotating with the version, so that every value meets every pair over the versions)
        vi = (["R12"] + VERS).index(version)
        seen_pairs = {}
        typ = None
        for k, (c, v) in enumerate(tags):
            if c == 0:
                typ = v
            if 40 <= c <= 48 and ("bad-number0", k) in site_set:
                if (typ, c) not in seen_pairs:
                    seen_pairs[(typ, c)] = k
        for j, ((typ, c), k) in enumerate(sorted(seen_pairs.items())):
            for n in range(len(BAD_NUMBERS)):
                if not ctx.quick or n == (vi + j) % len(BAD_NUMBERS):
                    singles.append((f"bad-number{n}", k))
        # EVERY pointer field (340/350/360) of the objects of the OBJECTS section, dangling: all versions in thorough, one
        # version per run in quick (chosen by the run seed), the others sampled above
        if not ctx.quick or vi == 1 + (ctx.seed % len(VERS)):
            singles += by_kind.get("dangling-pointer", [])
        for f in dict.fromkeys(singles):
            converge(ctx, version, tags, [f], VCODE[version])
        # directed pairs: the owner fault together with the loss of the SEQEND on the same POLYLINE / INSERT (the repair of
        # the one must cope with the deletion by the other)
        for _, si in by_kind.get("missing-seqend", []):
            j = si - 1
            while j > 0 and not (tags[j][0] == 0 and tags[j][1] in ("POLYLINE", "INSERT")):
                j -= 1
            m = j + 1
            while m < len(tags) and tags[m][0] != 0:
                if tags[m][0] == 330:
                    converge(ctx, version, tags, [("dangling-owner", m), ("missing-seqend", si)], VCODE[version])
                    break
                m += 1
        for _ in range(ctx.n(12, 300)):
            k = rng.choice([2, 3])
            fs = rng.sample(sites, k)
            if len({i for _, i in fs}) == k:
                converge(ctx, version, tags, sorted(fs, key=lambda x: x[1]), VCODE[version])


def replay(ctx, rep):
    signal.signal(signal.SIGALRM, _on_alarm)
    signal.signal(signal.SIGPROF, _on_alarm)
    n0 = len(ctx.failures)
    files = dict(base_files(ctx))
    for f in rep.get("failing_inputs", []):
        r = f["replay"]
        if r.get("op") == "faults":
            converge(ctx, r["version"], files[r["version"]], [tuple(x) for x in r["faults"]], VCODE[r["version"]])
        elif r.get("op") == "nfp":
            no_false_positive(ctx, r["seed"], r["version"])
        elif r.get("op") == "factory":
            factory_sweep(ctx)
    bad = ctx.failures[n0:]
    return (not bad, "; ".join(x.key for x in bad) or "recorded inputs pass now")

"""C18  The drawing front end renders what the document defines (DESIGN.md section 7, C18)."""
from __future__ import annotations

import math
import zlib
from fractions import Fraction as Fr

from leanfmt import lean_list

ID = "C18"
LEAN_MODULES = ["EzdxfVerif.Props.C18"]
DRIVER_DEPS = ["EzdxfVerif.Model.Render", "EzdxfVerif.Gen.RenderTables", "EzdxfVerif.Gen.RenderShape", "Drivers.Proto"]
RULE = (
    "regenerate: Gen/RenderTables (constants, default plot style table, layer defaults, probed every run) and Gen/RenderShape: the "
    "statement order and the early-exit count of draw_composite_entity (INSERT branch), draw_insert, draw_entity, _draw_entities, "
    "push_state/pop_state, and where filter_func is passed, extracted from the AST of frontend.py / properties.py; the theorems "
    "tie_push_pop_shape and tie_traversal_shape state that they equal the shape the Lean model transcribes. "
    "correspondence: seeded generator documents built through the public ezdxf API (LINE, POINT, LWPOLYLINE, SOLID, CIRCLE, ARC, ELLIPSE, "
    "ATTDEF in blocks, INSERT and MINSERT (row/column counts and spacings, zero spacing, nested and at the top level) with ATTRIBs, "
    "EMPTY block definitions referenced before other entities; random layer tables with off/frozen/locked/no-plot/true-color/"
    "transparent layers and boundary ACI values, mixed-case and undefined layer references; BYLAYER/BYBLOCK/BYOBJECT/explicit ACI, "
    "true color, transparency, linetype, lineweight, invisible flag on every nesting level; ARC and ELLIPSE entities (compared by the "
    "centre of the curve entity that reaches the draw method, i.e. through Ellipse.from_arc under non-uniform scaling); nesting depth "
    "<= 4; INSERT translations, "
    "positive/negative/non-uniform scales, extrusion (0,0,-1), block base points; rotations by multiples of 90 degrees (streams X1, "
    "X2: exact comparison on the 2^-12 grid) and by arbitrary angles with rational cosine and sine (Pythagorean triples; streams X1r, "
    "X2r: the model answers in exact rationals, coordinates are compared with |d| <= 1e-9(1+|x|), everything else exactly; documents "
    "with uniformly scaled references = the class of draw_eq_spec_uniform, and documents with any scales, where a sheared nested "
    "INSERT makes the code take the explode fall-back that the model follows); modelspace and paperspace, export_mode on/off; a third "
    "of the runs with a generated plot style table (CTB) that overrides lineweights and colours of some ACIs, a quarter with a "
    "filter_func that rejects some layout entities; plus cyclic and dangling block references as error classes. "
    "X1/X1r draw: Frontend(RenderContext(doc[, ctb]), Recorder-probe, line_policy=SOLID, text_policy=IGNORE).draw_layout(layout"
    "[, filter_func]) -> Player.recordings() canonicalised (kind, #rrggbb[aa], pen, layer, linetype name, lineweight as fraction, "
    "BackendProperties.handle, coordinates; exception class for errors) vs. the Lean model's drawLayout / drawLayoutFiltered on the "
    "same document (entity handles as the document assigned them), which must also end with the initial state stack. X2/X2r spec: "
    "the same observation vs. Spec.flatten of the Lean block tree (unfold) for every document without a sheared reference ('no-tree' "
    "when a bad reference hides below an invisible INSERT). X3 reach: the model's validity predicate (hypothesis of draw_total) vs. a "
    "graph walk of the harness (acyclic and closed). X4 lawful: the model's Forest.lawful (hypothesis of draw_eq_spec) vs. an "
    "independent floating point shear test of the harness along every INSERT path. X5 layer table: RenderContext.from_viewport(vp)."
    "layers for a VIEWPORT with frozen layers and per-viewport layer property overrides (as stored in the document; overrides of "
    "another viewport must not leak) vs. the model's mkVpCtxOv / applyOverride (key, name, colour, pen, linetype, lineweight, "
    "visible, ACI-7 flag of every layer). X6: the status values for which _draw_viewports calls draw_viewport vs. viewportsDrawn. "
    "X8: a paperspace layout with 1-3 top-view VIEWPORT entities (status values incl. active / off, frozen layers, per-viewport "
    "overrides, dyadic scale and offset, the whole modelspace visible) vs. drawLayoutVp. X9: layouts with a redraw order table "
    "(set_redraw_order: colliding, zero and foreign sort handles; with and without filter_func) vs. drawLayoutOrdered. "
    "X10: Configuration(color_policy, custom_fg_color, background_policy, custom_bg_color) for every colour policy x background policy "
    "on documents with many primitives of the same RGB and different alpha in one rendering vs. drawLayout + backendStage (colour "
    "policy with the cache of get_backend_properties) under the foreground colour of layoutFg. "
    "X11: the references at which Insert.transform raises (Forest.failing of the Lean block tree, with the reason) vs. an independent "
    "floating point walk (first non-orthogonal reference on every INSERT path). X12: stroke-width of the JSON backend under "
    "Configuration(min_lineweight, lineweight_scaling) vs. backendStrokeWidth (|d| <= 0.005: the output is rounded to 2 decimals). "
    "X13: HATCH (solid / pattern / too dense pattern / gradient, 0-3 loops, nested or not) x every HatchPolicy: nothing / hatch lines / "
    "one path per loop / one filled-paths call vs. hatchDecision. "
    "X7: draw_layout after RenderContext.set_layer_properties_override(f) for f in {all layers on, all layers off, one colour / "
    "linetype / lineweight} vs. drawLayout on Ctx.overrideLayers. "
    "non-trivial = the layout has a visible INSERT (X1-X4), a non-empty frozen list (X5), more than one viewport (X6); distinct by "
    "hash of the request line. "
    "oracle O1: the real front end vs. an independent pure-Python transliteration of the specification (matrix product along the "
    "path, DXF inheritance rules, MINSERT = block repeated rows x columns times along the rotated axes, plot style table lineweight "
    "by the raw ACI, filter_func on layout entities only): exact for quarter-turn documents, |d| <= 1e-9(1+|x|) for general rotation "
    "angles (degrees and rational cos/sin); circles by center and by the radius of every flattened vertex under the inverse composed "
    "map; never raises for audited documents; state stack empty afterwards. O2: CustomJSONBackend output (direct and via "
    "Player.replay) vs. the recorder primitives. O3: LinePolicy.ACCURATE: every dash lies on the expected transformed geometry, same "
    "properties. O6: 20 non-text entity types x 13 routes to the backend (layout, references: uniform, non-uniform, mirrored, extrusion "
    "-Z, nested, sheared = explode fall-back, MINSERT, VIEWPORT) x 6 reasons to be hidden (invisible flag, layer off / frozen / not "
    "plotted, layer-0 content of a reference on a frozen layer, frozen in the viewport): nothing reaches the backend, the visible twin "
    "does. O5: paperspace layouts with 1-3 viewports: own entities, then per drawn viewport (documented status rule) the "
    "modelspace content as the document defines it for that viewport (frozen layers and property overrides at EVERY nesting depth), "
    "mapped by scale and offset. O4: BackendProperties.handle of EVERY primitive: own handle for layout entities and for the ATTRIBs attached "
    "directly to a top level INSERT, handle of the top level reference for everything else (block content at any depth, MINSERT "
    "elements, nested ATTRIBs)."
)
TRUSTED_BASE = [
    "entity.transform(m) of LINE/POINT/LWPOLYLINE/SOLID/ATTRIB maps the defining points by m (C12's subject; tied here by the correspondence stream)",
    "CIRCLE/ELLIPSE path construction is not modelled: the model emits the transformed center only, the oracle checks the curve under tolerance",
    "the hand translation of properties.py / frontend.py / explode.py / insert.py / transformtools.py into Model/Render.lean is validated by the correspondence streams and by the AST-shape ties, not proved",
    "numbers: the model computes in exact rationals; InsertCoordinateSystem.transform's tolerance tests (|ux.uy| > 1e-9 on normalised vectors, isclose for the handedness) are exact tests in the model; vector lengths must be rational (Pythagorean directions) - otherwise the model answers 'outside irrational' and the case is only counted",
    "plot style table: the effective table of the live RenderContext (plot_styles[aci].color, get_lineweight(aci) for entries that are not OBJECT_LINEWEIGHT) is read from the running code and handed to the model; loading CTB files and linetype overrides of plot styles are not modelled",
    "ASCII layer / linetype / block names (str.lower/upper modelled for ASCII)",
]
ASSUMPTIONS = [
    "documents of the generator: non-text geometry (ATTRIB/ATTDEF appear as pseudo primitives at their insert point), nesting depth <= 4, extrusion (0,0,+-1), z = 0, zscale = 1, no XCLIP, no redraw order table, $PDMODE = 0, non-zero scale factors",
    "Configuration(line_policy=SOLID, text_policy=IGNORE) for the correspondence streams (linetype pattern rendering and text pipelines are outside the model)",
]
OPEN = [
    "draw_eq_spec holds for every document whose block tree has no reference at which Insert.transform raises (Forest.failing = [], theorem lawful_iff_no_reference_raises; final round: draw_differs_only_with_raising_reference and f20_confined_to_entities_with_raising_reference state exactly where a drawing can leave the specification); proved to pass outright: quarter-turn documents and uniformly scaled documents with arbitrary rational rotations, MINSERT included. For the remaining documents (a rotated reference below a non-uniformly scaled one) the code takes the explode fall-back, which the model follows (transformOne/explode) and which does NOT draw what the document defines: finding F20 stays open (not fixed: needs a new protocol between explode.py and frontend.py)",
    "rotation angles whose cosine/sine are irrational (30 degrees ...) are oracle-only (O1, tolerance 1e-9)",
    "linetype pattern rendering, text/hatch/viewport content pipelines (draw_viewport itself), clipping (XCLIP), linetype overrides of plot style tables, the JSON backend, circle shapes and dashed linetypes: oracle-only or not modelled",
    "3DFACE (visibility rule modelled: resolveVisibleFace; drawing of the edges not), SPLINE, HATCH, MESH, POLYLINE variants, XLINE/RAY: only in oracle O6 (hidden x type x route); proxy graphics, DXFGraphicProxy wrapping and the VIEWPORT deferral of _draw_entities are in the AST-shape tie only",
    "min_lineweight / lineweight_scaling: modelled for the vector backends' rule (backendStrokeWidth, stream X12 on the JSON backend); LineweightPolicy.RELATIVE* of the raster/SVG backends not modelled",
    "HATCH: the decision logic is modelled (hatchDecision, X13); hatch line geometry, island detection, MPOLYGON and text boxes are not; TEXT/ATTRIB: only the resolved properties and the insert point of ATTRIB/ATTDEF are compared, not rotation/height/what reaches draw_text",
]

GRID = 4096
BYBLOCK_T = 0x01000000


# ====================================================================== regenerate
def regenerate(ctx):
    srcs = [
        "src/ezdxf/addons/drawing/properties.py",
        "src/ezdxf/addons/drawing/frontend.py",
        "src/ezdxf/lldxf/const.py",
        "src/ezdxf/colors.py",
        "src/ezdxf/addons/acadctb.py",
        "src/ezdxf/entities/layer.py",
    ]
    for s in srcs:
        ctx.src(s)
    for s in ("src/ezdxf/entities/insert.py", "src/ezdxf/explode.py", "src/ezdxf/math/transformtools.py",
              "src/ezdxf/addons/drawing/pipeline.py", "src/ezdxf/addons/drawing/recorder.py", "src/ezdxf/entities/solid.py",
              "src/ezdxf/path/tools.py"):
        ctx.src(s)
    from ezdxf.lldxf import const
    from ezdxf import colors
    from ezdxf.addons import acadctb
    from ezdxf.addons.drawing import properties as P
    from ezdxf.entities import Layer

    rc = P.RenderContext()
    fg = rc.current_layout_properties.default_color
    aci = []
    for i in range(256):
        if i == 0:
            aci.append(0)
            continue
        c = rc.plot_styles[i].color
        aci.append((c[0] << 16) | (c[1] << 8) | c[2])
    ctb_object = all(
        rc.plot_styles[i].lineweight == acadctb.OBJECT_LINEWEIGHT and rc.plot_styles[i].linetype == acadctb.OBJECT_LINETYPE
        for i in range(1, 256)
    )
    alpha = [P.transparency_to_alpha(colors.transparency2float(0x02000000 | a)) for a in range(256)]
    rt = [colors.float2transparency(colors.transparency2float(0x02000000 | a)) & 0xFF for a in range(256)]
    d = P.DEFAULT_LAYER_PROPERTIES
    dflt_rgb = int(d.color[1:7], 16)
    psp_fg = P.LayoutProperties("Layout1", P.PAPER_SPACE_BG_COLOR).default_color

    def b(x):
        return "true" if x else "false"

    text = f"""
namespace EzdxfVerif.Gen.RenderTables

/-- const.BYLAYER / BYBLOCK / BYOBJECT -/
def BYLAYER : Int := {const.BYLAYER}
def BYBLOCK : Int := {const.BYBLOCK}
def BYOBJECT : Int := {const.BYOBJECT}
/-- const.LINEWEIGHT_BYLAYER / _BYBLOCK / _DEFAULT -/
def LINEWEIGHT_BYLAYER : Int := ({const.LINEWEIGHT_BYLAYER})
def LINEWEIGHT_BYBLOCK : Int := ({const.LINEWEIGHT_BYBLOCK})
def LINEWEIGHT_DEFAULT : Int := ({const.LINEWEIGHT_DEFAULT})
def TRANSPARENCY_BYBLOCK : Nat := {const.TRANSPARENCY_BYBLOCK}
/-- RenderContext.default_lineweight() * 100 and the minimum returned by resolve_lineweight * 100 -/
def defaultLineweight100 : Nat := {round(rc.default_lineweight() * 100)}
def defaultLineweightExact : Bool := {b(rc.default_lineweight() * 100 == round(rc.default_lineweight() * 100))}
/-- Layer.FROZEN, Layer.LOCK bit masks -/
def layerFrozenMask : Nat := {Layer.FROZEN}
def layerLockMask : Nat := {Layer.LOCK}
/-- `RenderContext().plot_styles[aci].color` as 0xRRGGBB for aci 1..255 (entry 0 unused) -/
def aciRgb : List Nat := {lean_list(str(x) for x in aci)}
/-- every entry of the default plot style table has OBJECT_LINEWEIGHT and OBJECT_LINETYPE -/
def ctbAllObject : Bool := {b(ctb_object)}
/-- transparency_to_alpha(transparency2float(0x02000000 | a)) for a in 0..255 -/
def layerAlpha : List Nat := {lean_list(str(x) for x in alpha)}
/-- float2transparency(transparency2float(0x02000000 | a)) & 0xFF for a in 0..255: what `_apply_layer_overrides` does to the
    transparency of a layer that has a per-viewport override (`layer.transparency = overrides.get_transparency(vp)`) -/
def transparencyRoundTrip : List Nat := {lean_list(str(x) for x in rt)}
/-- default foreground colors of the modelspace and of a paperspace layout -/
def mspFg : Nat := {int(fg[1:7], 16)}
def pspFg : Nat := {int(psp_fg[1:7], 16)}
/-- DEFAULT_LAYER_PROPERTIES: color, pen, linetype name, lineweight*100, has_aci_color_7, is_visible -/
def dfltLayerRgb : Nat := {dflt_rgb}
def dfltLayerAlphaLen : Nat := {len(d.color) - 7}
def dfltLayerPen : Int := {d.pen}
def dfltLayerLinetype : String := "{d.linetype_name}"
def dfltLayerLineweight100 : Nat := {round(d.lineweight * 100)}
def dfltLayerAci7 : Bool := {b(d.has_aci_color_7)}
def dfltLayerVisible : Bool := {b(d.is_visible)}
def dfltLayerName : String := "{d.layer}"

end EzdxfVerif.Gen.RenderTables
"""
    ctx.write_gen("RenderTables", text, srcs)
    shape_srcs = ["src/ezdxf/addons/drawing/frontend.py", "src/ezdxf/addons/drawing/properties.py",
                  "src/ezdxf/addons/drawing/pipeline.py", "src/ezdxf/entities/ellipse.py", "src/ezdxf/entities/insert.py",
                  "src/ezdxf/explode.py"]
    extra = {k: ctx.src(k) for k in shape_srcs[2:]}
    ctx.write_gen("RenderShape", render_shape(ctx.src(shape_srcs[0]), ctx.src(shape_srcs[1]), extra), shape_srcs)


# ---------------------------------------------------------------------- control flow shape extracted from the AST
def _stmt_sig(node):
    """one line per statement: kind + the called name / tested expression (ast.unparse), no bodies"""
    import ast

    if isinstance(node, ast.Expr) and isinstance(node.value, ast.Call):
        return "call " + ast.unparse(node.value.func)
    if isinstance(node, ast.Assign):
        v = node.value
        rhs = ("call " + ast.unparse(v.func)) if isinstance(v, ast.Call) else ast.unparse(v)
        return "assign " + ",".join(ast.unparse(t) for t in node.targets) + " = " + rhs
    if isinstance(node, ast.If):
        return "if " + ast.unparse(node.test)
    if isinstance(node, ast.For):
        return "for " + ast.unparse(node.target) + " in " + ast.unparse(node.iter)
    if isinstance(node, ast.FunctionDef):
        return "def " + node.name
    if isinstance(node, ast.Expr) and isinstance(node.value, ast.Constant):
        return "doc"
    return type(node).__name__.lower()


def _exits(nodes):
    """number of statements that leave the enclosing function or loop early (not inside nested function definitions)"""
    import ast

    n = 0
    todo = list(nodes)
    while todo:
        x = todo.pop()
        if isinstance(x, (ast.FunctionDef, ast.Lambda, ast.AsyncFunctionDef)):
            continue
        if isinstance(x, (ast.Return, ast.Raise, ast.Break, ast.Continue, ast.Yield, ast.YieldFrom, ast.Try, ast.With)):
            n += 1
        todo.extend(ast.iter_child_nodes(x))
    return n


def _find_func(tree, name, cls=None):
    import ast

    for node in ast.walk(tree):
        if cls is not None:
            if isinstance(node, ast.ClassDef) and node.name == cls:
                for sub in node.body:
                    if isinstance(sub, ast.FunctionDef) and sub.name == name:
                        return sub
        elif isinstance(node, ast.FunctionDef) and node.name == name:
            return node
    raise KeyError(name)


def _calls(node, attr):
    import ast

    return sum(1 for x in ast.walk(node) if isinstance(x, ast.Call) and isinstance(x.func, ast.Attribute) and x.func.attr == attr)


def render_shape2(properties_src, extra):
    """follow-up of session 3: the pipeline colour cache, apply_color_policy, Ellipse.from_arc, the MINSERT spacing update of
    Insert.transform, the polyline branch of the explode fall-back, the head of resolve_visible"""
    import ast
    from leanfmt import lean_str

    def L(items):
        return "[" + ", ".join(lean_str(x) for x in items) + "]"

    pl = ast.parse(extra["src/ezdxf/addons/drawing/pipeline.py"])
    gbp = _find_func(pl, "get_backend_properties", "RenderPipeline2d")
    keys = [ast.unparse(n.slice) for n in ast.walk(gbp) if isinstance(n, ast.Subscript) and "_color_mapping" in ast.unparse(n.value)]
    key_assigns = [ast.unparse(n) for n in gbp.body if isinstance(n, ast.Assign)]
    acp = _find_func(pl, "apply_color_policy")
    chain, node = [], next(n for n in acp.body if isinstance(n, ast.If))
    while True:
        chain.append(ast.unparse(node.test) + " => " + "; ".join(ast.unparse(x) for x in node.body))
        if len(node.orelse) == 1 and isinstance(node.orelse[0], ast.If):
            node = node.orelse[0]
        else:
            chain.append("else => " + "; ".join(ast.unparse(x) for x in node.orelse))
            break
    acp_frame = [ast.unparse(n) for n in acp.body if not isinstance(n, ast.If)]
    el = ast.parse(extra["src/ezdxf/entities/ellipse.py"])
    fa = _find_func(el, "from_arc", "Ellipse")
    attribs_src = [ast.unparse(n.value) for n in ast.walk(fa) if isinstance(n, ast.Assign) and ast.unparse(n.targets[0]) == "attribs"]
    ins = ast.parse(extra["src/ezdxf/entities/insert.py"])
    tr = _find_func(ins, "transform", "Insert")
    spacing = [ast.unparse(n) for n in ast.walk(tr) if isinstance(n, ast.AugAssign)]
    ex = ast.parse(extra["src/ezdxf/explode.py"])
    vb = _find_func(ex, "virtual_block_reference_entities")
    poly = [n for n in ast.walk(vb) if isinstance(n, ast.If) and "LWPOLYLINE" in ast.unparse(n.test) and "POLYLINE" in ast.unparse(n.test)]
    poly_body = [ast.unparse(x).split("\n")[0] for x in (poly[0].body if poly else [])]
    pt = ast.parse(properties_src)
    rv = _find_func(pt, "resolve_visible", "RenderContext")
    head, node = [], next(n for n in rv.body if isinstance(n, ast.If))
    while True:
        head.append(ast.unparse(node.test) + " => " + "; ".join(ast.unparse(x) for x in node.body))
        if len(node.orelse) == 1 and isinstance(node.orelse[0], ast.If):
            node = node.orelse[0]
        else:
            break
    return f"""
/-- `RenderPipeline2d.get_backend_properties`: every subscript of `self._color_mapping` (lookup, store), local assignments -/
def colorCacheKeys : List String := {L(keys)}
def colorCacheAssigns : List String := {L(key_assigns)}
/-- `apply_color_policy`: statements around the if-chain, the chain as `test => body` -/
def colorPolicyFrame : List String := {L(acp_frame)}
def colorPolicyChain : List String := {L(chain)}
/-- `Ellipse.from_arc`: what the DXF attributes of the new ELLIPSE are taken from -/
def fromArcAttribs : List String := {L(attribs_src)}
/-- `Insert.transform`: the augmented assignments (MINSERT spacing update) -/
def spacingUpdates : List String := {L(spacing)}
/-- explode fall-back, LWPOLYLINE / POLYLINE with arcs under non-uniform scaling: first line of every statement -/
def polylineFallback : List String := {L(poly_body)}
/-- `RenderContext.resolve_visible`: the leading if-chain as `test => body` -/
def resolveVisibleHead : List String := {L(head)}
"""


def render_shape(frontend_src, properties_src, extra=None):
    """statement order and exit paths of the functions the model transcribes, as Lean data (theorem tie_push_pop_shape)"""
    import ast
    from leanfmt import lean_str

    ft = ast.parse(frontend_src)
    pt = ast.parse(properties_src)
    dce = _find_func(ft, "draw_composite_entity", "UniversalFrontend")
    body = [n for n in dce.body if _stmt_sig(n) != "doc"]
    draw_insert = next(n for n in body if isinstance(n, ast.FunctionDef) and n.name == "draw_insert")
    top_if = next(n for n in body if isinstance(n, ast.If))
    insert_branch = top_if.body
    di_body = [n for n in draw_insert.body if _stmt_sig(n) != "doc"]
    de = _find_func(ft, "draw_entity", "UniversalFrontend")
    de_body = [n for n in de.body if _stmt_sig(n) != "doc"]
    loop = _find_func(ft, "_draw_entities")
    loop_for = next(n for n in loop.body if isinstance(n, ast.For))
    push = _find_func(pt, "push_state", "RenderContext")
    pop = _find_func(pt, "pop_state", "RenderContext")
    dl = _find_func(ft, "draw_layout", "UniversalFrontend")
    dl_body = [n for n in dl.body if _stmt_sig(n) != "doc"]
    dl_if = next((n for n in dl_body if isinstance(n, ast.If) and "handle_mapping" in ast.unparse(n.test)), None)

    def first_arg(stmts):
        for n in stmts:
            if isinstance(n, ast.Expr) and isinstance(n.value, ast.Call) and n.value.args:
                return ast.unparse(n.value.args[0])
        return ""

    dh = _find_func(ft, "draw_hatch_entity", "UniversalFrontend")
    hatch_chain, hnode = [], next(n for n in dh.body if isinstance(n, ast.If) and "hatch_policy" in ast.unparse(n.test))
    while True:
        hatch_chain.append(ast.unparse(hnode.test) + " => " + "; ".join(ast.unparse(x) for x in hnode.body))
        if len(hnode.orelse) == 1 and isinstance(hnode.orelse[0], ast.If):
            hnode = hnode.orelse[0]
        else:
            break
    hatch_tests = [ast.unparse(n.test) for n in dh.body if isinstance(n, ast.If)]
    cb = _find_func(ft, "draw_entities_callback", "UniversalFrontend")
    cb_body = [n for n in cb.body if _stmt_sig(n) != "doc"]
    cb_try = next((n for n in cb_body if isinstance(n, ast.Try)), None)

    def sigs(nodes):
        return "[" + ", ".join(lean_str(_stmt_sig(n)) for n in nodes) + "]"

    def sub_sigs(node):
        return sigs(node.body) + ", " + sigs(node.orelse)

    mc_if = next((n for n in insert_branch if isinstance(n, ast.If)), None)
    return f"""
namespace EzdxfVerif.Gen.RenderShape

/-- `draw_composite_entity`: test of the top level `if`, statements of its INSERT branch in order -/
def insertTest : String := {lean_str(ast.unparse(top_if.test))}
def insertBranch : List String := {sigs(insert_branch)}
/-- the `if entity.mcount > 1` statement inside: then-branch, else-branch -/
def mcountThen : List String := {sigs(mc_if.body) if mc_if else "[]"}
def mcountThenLoop : List String := {sigs(mc_if.body[0].body) if mc_if and isinstance(mc_if.body[0], ast.For) else "[]"}
def mcountElse : List String := {sigs(mc_if.orelse) if mc_if else "[]"}
/-- statements that leave early (return / raise / break / continue / yield / try / with) inside the INSERT branch -/
def insertBranchExits : Nat := {_exits(insert_branch)}
/-- `draw_insert` (nested function): statements in order, early exits -/
def drawInsert : List String := {sigs(di_body)}
def drawInsertExits : Nat := {_exits(di_body)}
/-- `push_state` / `pop_state` calls in the whole of frontend.py -/
def pushCalls : Nat := {_calls(ft, "push_state")}
def popCalls : Nat := {_calls(ft, "pop_state")}
/-- `RenderContext.push_state` / `pop_state` bodies -/
def pushBody : List String := {sigs([n for n in push.body if _stmt_sig(n) != "doc"])}
def popBody : List String := {sigs([n for n in pop.body if _stmt_sig(n) != "doc"])}
/-- `draw_entity`: first statements, and the early exits of the whole body -/
def drawEntityHead : List String := {sigs(de_body[:2])}
def drawEntityHandleSet : List String := {sigs(de_body[1].body) if isinstance(de_body[1], ast.If) else "[]"}
def drawEntityTail : String := {lean_str(_stmt_sig(de_body[-1]))}
def drawEntityExits : Nat := {_exits(de_body)}
/-- `_draw_entities`: statements before the loop, loop body in order, the `if properties.is_visible` branches -/
def loopPrefix : List String := {sigs([n for n in loop.body if n is not loop_for and loop.body.index(n) < loop.body.index(loop_for)])}
def loopBody : List String := {sigs(loop_for.body)}
def loopVisible : List String := {sigs(loop_for.body[-1].body) if isinstance(loop_for.body[-1], ast.If) else "[]"}
def loopInvisible : List String := {sigs(loop_for.body[-1].orelse) if isinstance(loop_for.body[-1], ast.If) else "[]"}
/-- `draw_layout`: statements in order; what is drawn with / without a redraw order table -/
def layoutBody : List String := {sigs(dl_body)}
def layoutOrdered : String := {lean_str(first_arg(dl_if.body) if dl_if else "")}
def layoutPlain : String := {lean_str(first_arg(dl_if.orelse) if dl_if else "")}
/-- `draw_hatch_entity`: the hatch policy chain as `test => body`, and the tests of all top level `if` statements in order -/
def hatchPolicyChain : List String := {"[" + ", ".join(lean_str(x) for x in hatch_chain) + "]"}
def hatchTests : List String := {"[" + ", ".join(lean_str(x) for x in hatch_tests) + "]"}
/-- `draw_entities_callback` (used by `pipeline.draw_viewport`): statements, body of its `try`, its `finally` -/
def callbackBody : List String := {sigs(cb_body)}
def callbackTry : List String := {sigs(cb_try.body) if cb_try else "[]"}
def callbackFinally : List String := {sigs(cb_try.finalbody) if cb_try else "[]"}
/-- calls of `draw_entities` in `draw_layout` and how many of them pass `filter_func`; in the rest of frontend.py -/
def layoutDrawCalls : Nat := {_calls(dl, "draw_entities")}
def layoutFilterArgs : Nat := {sum(1 for x in ast.walk(dl) if isinstance(x, ast.Call) and isinstance(x.func, ast.Attribute) and x.func.attr == "draw_entities" and any(k.arg == "filter_func" for k in x.keywords))}
def otherFilterArgs : Nat := {sum(1 for x in ast.walk(ft) if isinstance(x, ast.Call) and isinstance(x.func, ast.Attribute) and x.func.attr == "draw_entities" and any(k.arg == "filter_func" for k in x.keywords)) - sum(1 for x in ast.walk(dl) if isinstance(x, ast.Call) and isinstance(x.func, ast.Attribute) and x.func.attr == "draw_entities" and any(k.arg == "filter_func" for k in x.keywords))}
{render_shape2(properties_src, extra) if extra else ""}

end EzdxfVerif.Gen.RenderShape
"""


# ====================================================================== abstract documents
Q = Fr(1, 4)
LAYER_SPECS = [
    # name, color, true_color, transparency(float|None), linetype, lineweight, off, frozen, locked, plot
    ("Walls", 1, None, None, "DASHED", 50, False, False, False, 1),
    ("DOORS", 7, None, None, "Continuous", -3, False, False, True, 1),
    ("hidden_off", 3, None, None, "CENTER", 13, True, False, False, 1),
    ("Frozen", 4, None, None, "Continuous", 25, False, True, False, 1),
    ("NoPlot", 5, None, None, "DOT", 0, False, False, False, 0),
    ("TC", 6, 0x1A2B3C, None, "DASHDOT", 211, False, False, False, 1),
    ("Alpha", 30, None, 0.5, "Continuous", 5, False, False, False, 1),
    ("OffTC", 7, 0x00FF10, 0.2, "DASHED", 100, True, False, True, 1),
]
LINETYPES = ["BYLAYER", "BYBLOCK", "Continuous", "DASHED", "center", "ByLayer", "byblock", "DOT"]
LINEWEIGHTS = [-1, -2, -3, 0, 5, 13, 25, 50, 100, 211]
TRANSP = [None, None, None, BYBLOCK_T, 0x02000000, 0x0200007F, 0x020000FE, 0x020000FF]
SCALES = [Fr(1), Fr(1), Fr(-1), Fr(2), Fr(-2), Fr(1, 2), Fr(-1, 2), Fr(3)]
# rational points of the unit circle (cos, sin): quarter turns and Pythagorean triples in all quadrants
UNIT_DIRS = [(Fr(1), Fr(0)), (Fr(0), Fr(1)), (Fr(-1), Fr(0)), (Fr(0), Fr(-1)),
             (Fr(3, 5), Fr(4, 5)), (Fr(4, 5), Fr(3, 5)), (Fr(-3, 5), Fr(4, 5)), (Fr(3, 5), Fr(-4, 5)), (Fr(-4, 5), Fr(-3, 5)),
             (Fr(5, 13), Fr(12, 13)), (Fr(-12, 13), Fr(5, 13)), (Fr(8, 17), Fr(-15, 17)), (Fr(7, 25), Fr(24, 25))]


def _case_variant(rng, name):
    r = rng.random()
    if name == "0" or r < 0.6:
        return name
    if r < 0.8:
        return name.upper()
    return name.lower()


def gen_props(rng, layers, inside):
    """entity properties; `inside` biases towards layer 0 / BYBLOCK"""
    r = rng.random()
    if r < (0.35 if inside else 0.15):
        layer = "0"
    elif r < 0.93:
        layer = _case_variant(rng, rng.choice(layers))
    else:
        layer = "Undefined"
    r = rng.random()
    if r < 0.3:
        color = 256
    elif r < (0.55 if inside else 0.4):
        color = 0
    elif r < 0.6:
        color = 257
    elif r < 0.7:
        color = 7
    else:
        color = rng.choice([1, 2, 3, 5, 6, 8, 9, 30, 141, 250, 254, 255])
    return {
        "layer": layer,
        "color": color,
        "true_color": rng.choice([0x102030, 0xFF00FF, 0x000000, 0xFFFFFF]) if rng.random() < 0.15 else None,
        "linetype": rng.choice(LINETYPES) if rng.random() < 0.6 else "BYLAYER",
        "lineweight": rng.choice(LINEWEIGHTS) if rng.random() < 0.6 else -1,
        "invisible": 1 if rng.random() < 0.1 else 0,
        "transparency": rng.choice(TRANSP),
    }


def _pt(rng, span=6):
    return (Q * rng.randint(-4 * span, 4 * span), Q * rng.randint(-4 * span, 4 * span))


def gen_leaf(rng, layers, inside, allow_attdef):
    kinds = ["LINE", "LINE", "POINT", "LWPOLYLINE", "SOLID", "CIRCLE", "ARC", "ELLIPSE"] + (["ATTDEF"] if allow_attdef else [])
    t = rng.choice(kinds)
    e = {"t": t, **gen_props(rng, layers, inside)}
    if t == "LINE":
        e["pts"] = [_pt(rng), _pt(rng)]
    elif t in ("POINT", "ATTDEF"):
        e["pts"] = [_pt(rng)]
        if t == "POINT" and rng.random() < 0.08:
            e["layer"] = rng.choice(["Defpoints", "DEFPOINTS"])
    elif t == "LWPOLYLINE":
        n = rng.choice([1, 2, 2, 3, 4, 5])
        pts = [_pt(rng) for _ in range(n)]
        if n > 1 and rng.random() < 0.15:
            pts[-1] = pts[0]
        if n > 2 and rng.random() < 0.1:
            pts[1] = pts[0]
        e["pts"] = pts
        e["closed"] = rng.random() < 0.5
    elif t == "SOLID":
        pts = [_pt(rng) for _ in range(4)]
        if rng.random() < 0.3:
            pts[3] = pts[2]
        e["pts"] = pts
    elif t in ("CIRCLE", "ARC", "ELLIPSE"):
        e["pts"] = [_pt(rng)]
        e["r"] = Q * rng.randint(1, 12)
        if t == "ARC":
            e["angles"] = (rng.choice([0.0, 30.0, 200.0, 350.0]), rng.choice([90.0, 180.0, 10.0, 359.0]))
        if t == "ELLIPSE":
            e["ratio"] = rng.choice([0.25, 0.5, 1.0])
            e["major"] = rng.choice([(1, 0), (0, 1), (-1, 0), (3, 4)])
    return e


def gen_insert(rng, layers, inside, target, mode):
    """mode: 'quarter' | 'safe' (lawful nesting) | 'angle' (general angles, uniform scales) | 'angle-any' |
    'rational' (rational (cos, sin), |sx| = |sy|: the uniform class) | 'rational-any' (rational (cos, sin), any scales)"""
    e = {"t": "INSERT", **gen_props(rng, layers, inside), "name": target}
    e["pos"] = _pt(rng, 8)
    sx = rng.choice(SCALES)
    sy = rng.choice(SCALES)
    if mode in ("safe", "angle", "rational") or rng.random() < 0.5:
        sy = sx if rng.random() < 0.5 else -sx
    e["sx"], e["sy"] = sx, sy
    if mode in ("angle", "angle-any"):
        e["rot"] = rng.choice([0.0, 30.0, 45.0, 90.0, 123.456, -77.25, 200.5, 359.0, 180.0])
    elif mode in ("rational", "rational-any"):
        c, sn = rng.choice(UNIT_DIRS) if rng.random() < 0.8 else rng.choice(UNIT_DIRS[:4])
        e["cs"] = (c, sn)
        e["rot"] = math.degrees(math.atan2(float(sn), float(c)))
    else:
        e["rot"] = 90.0 * rng.choice([0, 0, 1, 2, 3])
    e["flip"] = rng.random() < 0.15
    e["grid"] = None
    if rng.random() < 0.18:
        # MINSERT: zero counts / zero spacings are legal and mean "no grid in that direction"
        e["grid"] = (rng.choice([1, 2, 2, 3]), rng.choice([1, 2, 3]), Q * rng.choice([0, 6, 10, -8]), Q * rng.choice([0, 6, 12, -4]))
    e["attribs"] = []
    for _ in range(rng.choice([0, 0, 0, 1, 2])):
        a = gen_props(rng, layers, True)
        a["pos"] = _pt(rng, 8)
        a["flag"] = 1 if rng.random() < 0.15 else 0
        e["attribs"].append(a)
    return e


def gen_doc(rng, mode="quarter", depth=None):
    """abstract document: layers, blocks in levels (level k inserts only lower levels -> acyclic), two layouts"""
    nl = rng.randint(2, len(LAYER_SPECS))
    specs = rng.sample(LAYER_SPECS, nl)
    # half of the layers keep the hand-written profile, the others get random properties (boundary ACI values,
    # true colour with ACI 7, transparency 0 / 1, every flag combination)
    for k in range(nl):
        if rng.random() < 0.5:
            specs[k] = (
                specs[k][0],
                rng.choice([1, 7, 7, 255, 254, 8, 9, 250, 30, 2]),
                rng.choice([0x1A2B3C, 0xFFFFFF, 0x000001]) if rng.random() < 0.25 else None,
                rng.choice([None, None, 0.0, 0.5, 0.2, 1.0, 0.996]),
                rng.choice(["Continuous", "DASHED", "CENTER", "DOT", "DASHDOT"]),
                rng.choice([-3, 0, 5, 13, 25, 50, 100, 211]),
                rng.random() < 0.15, rng.random() < 0.15, rng.random() < 0.2, 0 if rng.random() < 0.15 else 1,
            )
    layer_names = [s[0] for s in specs] + ["Defpoints"]
    depth = depth if depth is not None else rng.choice([1, 2, 2, 3, 3, 4])
    blocks, by_level = [], {}
    for lvl in range(depth):
        for k in range(rng.choice([1, 1, 2])):
            name = f"{rng.choice(['Blk', 'PART', 'sym'])}_{lvl}_{k}"
            ents = []
            for _ in range(rng.randint(1, 3)):
                ents.append(gen_leaf(rng, layer_names, True, True))
            if lvl > 0:
                for _ in range(rng.choice([1, 1, 2])):
                    tl = lvl - 1 if rng.random() < 0.75 else rng.randrange(lvl)
                    tgt = rng.choice(by_level[tl])
                    ents.append(gen_insert(rng, layer_names, True, _case_variant(rng, tgt), mode))
            rng.shuffle(ents)
            base = _pt(rng, 2) if rng.random() < 0.3 else (Fr(0), Fr(0))
            blocks.append({"name": name, "base": base, "ents": ents})
            by_level.setdefault(lvl, []).append(name)
    # EMPTY block definitions and references to them (no attribs), placed anywhere - also first - in blocks and layouts:
    # a reference that draws nothing must still leave the block-reference state as it found it
    empties = []
    if rng.random() < 0.45:
        for k in range(rng.choice([1, 1, 2])):
            name = f"Empty_{k}"
            blocks.insert(rng.randrange(len(blocks) + 1), {"name": name, "base": (Fr(0), Fr(0)), "ents": []})
            empties.append(name)
        for b in blocks:
            if b["name"] not in empties and rng.random() < 0.5:
                e = gen_insert(rng, layer_names, True, _case_variant(rng, rng.choice(empties)), mode)
                e["attribs"] = []
                b["ents"].insert(rng.choice([0, 0, rng.randrange(len(b["ents"]) + 1)]), e)
    layouts = {}
    for lay in ("msp", "psp"):
        ents = []
        for _ in range(rng.randint(0, 2)):
            ents.append(gen_leaf(rng, layer_names, False, False))
        for _ in range(rng.randint(1, 2) if lay == "msp" else rng.randint(0, 1)):
            lvl = depth - 1 if rng.random() < 0.7 else rng.randrange(depth)
            ents.append(gen_insert(rng, layer_names, False, rng.choice(by_level[lvl]), mode))
        rng.shuffle(ents)
        if empties and rng.random() < 0.7:
            e = gen_insert(rng, layer_names, False, rng.choice(empties), mode)
            e["attribs"] = []
            if rng.random() < 0.5:
                e["layer"] = rng.choice(layer_names)  # often a hidden layer: later layer-0 content must not vanish
            ents.insert(rng.choice([0, 0, rng.randrange(len(ents) + 1)]), e)
        layouts[lay] = ents
    zero = {"color": rng.choice([7, 7, 2, -7, 251, 255, 1]), "linetype": rng.choice(["Continuous", "DASHED"]),
            "lineweight": rng.choice([-3, 25, 35]), "true_color": 0x334455 if rng.random() < 0.1 else None}
    return {"mode": mode, "layers": specs, "zero": zero, "blocks": blocks, "layouts": layouts}


def special_docs():
    """hand-written documents: the defect witness, cycles, dangling references, deep BYBLOCK chains"""
    P0 = {"layer": "0", "color": 256, "true_color": None, "linetype": "BYLAYER", "lineweight": -1, "invisible": 0, "transparency": None}
    Z = (Fr(0), Fr(0))

    def line(a, b, **kw):
        return {"t": "LINE", **P0, **kw, "pts": [a, b]}

    def ins(name, pos=Z, sx=1, sy=1, rot=0.0, flip=False, grid=None, cs=None, **kw):
        e = {"t": "INSERT", **P0, **kw, "name": name, "pos": pos, "sx": Fr(sx), "sy": Fr(sy), "rot": rot, "flip": flip,
             "attribs": [], "grid": grid}
        if cs is not None:
            e["cs"] = cs
            e["rot"] = math.degrees(math.atan2(float(cs[1]), float(cs[0])))
        return e

    zero = {"color": 7, "linetype": "Continuous", "lineweight": -3, "true_color": None}
    docs = []
    # F18 witness: INNER rotated by 90 degrees inside OUTER scaled (2, 1)
    docs.append(("witness", {"mode": "quarter", "layers": [], "zero": zero, "blocks": [
        {"name": "INNER", "base": Z, "ents": [line(Z, (Fr(1), Fr(0))), line(Z, (Fr(0), Fr(1)))]},
        {"name": "OUTER", "base": Z, "ents": [ins("INNER", rot=90.0)]}],
        "layouts": {"msp": [ins("OUTER", sx=2, sy=1)], "psp": []}}))
    # BYBLOCK chain of depth 4 with explicit color only at the top
    chain = [{"name": "C0", "base": Z, "ents": [line(Z, (Fr(1), Fr(1)), color=0, linetype="BYBLOCK", lineweight=-2)]}]
    for i in range(1, 4):
        chain.append({"name": f"C{i}", "base": Z, "ents": [ins(f"C{i-1}", pos=(Fr(1), Fr(0)), color=0, linetype="BYBLOCK", lineweight=-2)]})
    docs.append(("byblock-chain", {"mode": "quarter", "layers": [LAYER_SPECS[0]], "zero": zero, "blocks": chain,
                                   "layouts": {"msp": [ins("C3", color=3, linetype="DASHED", lineweight=50, layer="Walls")],
                                               "psp": [ins("C3", color=0, linetype="BYBLOCK", lineweight=-2)]}}))
    # reference to an EMPTY block before layer-0 / BYBLOCK content, at top level and as a sibling inside a block
    docs.append(("empty-block", {"mode": "quarter", "layers": [LAYER_SPECS[0], LAYER_SPECS[2]], "zero": zero, "blocks": [
        {"name": "EMPTY", "base": Z, "ents": []},
        {"name": "PART", "base": Z, "ents": [ins("EMPTY", layer="Walls", color=3, lineweight=70),
                                             line(Z, (Fr(1), Fr(1)), color=0, lineweight=-2)]}],
        "layouts": {"msp": [line(Z, (Fr(5), Fr(0))), ins("EMPTY", layer="hidden_off"), line((Fr(0), Fr(1)), (Fr(5), Fr(1))),
                            ins("PART", pos=(Fr(0), Fr(3)), layer="DOORS", color=4, lineweight=30),
                            line((Fr(0), Fr(2)), (Fr(5), Fr(2)), color=0, linetype="BYBLOCK", lineweight=-2)],
                    "psp": [ins("EMPTY", color=1), ins("PART", color=0), line(Z, (Fr(1), Fr(0)), color=0)]}}))
    # MINSERT: grid at the top level and nested (rotated, non-uniform), zero spacing in one direction, BYBLOCK content
    docs.append(("minsert", {"mode": "quarter", "layers": [LAYER_SPECS[0]], "zero": zero, "blocks": [
        {"name": "CELL", "base": (Fr(1, 2), Fr(0)), "ents": [line(Z, (Fr(1), Fr(0)), color=0, lineweight=-2), line(Z, (Fr(0), Fr(2)))]},
        {"name": "ROW", "base": Z, "ents": [ins("CELL", rot=90.0, sx=2, sy=1, grid=(1, 3, Fr(0), Fr(5)), color=0)]}],
        "layouts": {"msp": [ins("CELL", pos=(Fr(1), Fr(1)), rot=90.0, grid=(2, 3, Fr(4), Fr(3)), color=1, layer="Walls"),
                            ins("ROW", pos=(Fr(0), Fr(20)), sx=1, sy=-2, rot=180.0, color=5, lineweight=50)],
                    "psp": [ins("CELL", grid=(3, 3, Fr(2), Fr(0)), color=2), ins("CELL", grid=(1, 2, Fr(2), Fr(3)), color=3)]}}))
    # general rotations (3-4-5 below 5-12-13, uniform scales, mirror): the uniform class of draw_eq_spec_uniform
    docs.append(("rational", {"mode": "rational", "layers": [LAYER_SPECS[0]], "zero": zero, "blocks": [
        {"name": "INNER", "base": Z, "ents": [line(Z, (Fr(5), Fr(0)), color=0)]},
        {"name": "OUTER", "base": Z, "ents": [ins("INNER", pos=(Fr(1), Fr(0)), cs=(Fr(3, 5), Fr(4, 5)), color=0)]}],
        "layouts": {"msp": [ins("OUTER", sx=2, sy=-2, cs=(Fr(5, 13), Fr(12, 13)), color=3)],
                    "psp": [ins("OUTER", sx=2, sy=1, color=3)]}}))  # psp: the F20 shape (non-uniform above a rotated reference)
    # cycle and dangling reference
    docs.append(("cycle", {"mode": "quarter", "layers": [], "zero": zero, "blocks": [
        {"name": "A", "base": Z, "ents": [line(Z, (Fr(1), Fr(0))), ins("B")]},
        {"name": "B", "base": Z, "ents": [ins("A", pos=(Fr(1), Fr(1)))]}],
        "layouts": {"msp": [ins("A")], "psp": [line(Z, (Fr(1), Fr(0)))]}}))
    docs.append(("self-cycle", {"mode": "quarter", "layers": [], "zero": zero, "blocks": [
        {"name": "A", "base": Z, "ents": [ins("a", pos=(Fr(1), Fr(1)))]}],
        "layouts": {"msp": [ins("A", invisible=1), line(Z, (Fr(2), Fr(0)))], "psp": [ins("A")]}}))
    docs.append(("dangling", {"mode": "quarter", "layers": [], "zero": zero, "blocks": [
        {"name": "A", "base": Z, "ents": [line(Z, (Fr(1), Fr(0))), ins("NOPE")]}],
        "layouts": {"msp": [ins("A")], "psp": [ins("NOPE", invisible=1), line(Z, (Fr(1), Fr(0)))]}}))
    return docs


# ====================================================================== build through the public API
def _attribs(p, extra=None):
    d = {"layer": p["layer"], "color": p["color"], "linetype": p["linetype"], "lineweight": p["lineweight"]}
    if p["invisible"]:
        d["invisible"] = 1
    if p["true_color"] is not None:
        d["true_color"] = p["true_color"]
    if p["transparency"] is not None:
        d["transparency"] = p["transparency"]
    # leave defaults unset half of the time so that the hasattr()/default paths are exercised
    for k, dv in (("color", 256), ("linetype", "BYLAYER"), ("lineweight", -1)):
        if d[k] == dv and (zlib.crc32((p["layer"] + k).encode()) & 1):
            del d[k]
    if extra:
        d.update(extra)
    return d


def _f(p):
    return (float(p[0]), float(p[1]))


def _add_entity(layout, e):
    """adds the entity and records the handle the document gave it in e["_h"] (attribs: a["_h"])"""
    t = e["t"]
    if t == "LINE":
        ent = layout.add_line(_f(e["pts"][0]), _f(e["pts"][1]), dxfattribs=_attribs(e))
    elif t == "POINT":
        ent = layout.add_point(_f(e["pts"][0]), dxfattribs=_attribs(e))
    elif t == "LWPOLYLINE":
        ent = layout.add_lwpolyline([_f(p) for p in e["pts"]], close=e["closed"], dxfattribs=_attribs(e))
    elif t == "SOLID":
        ent = layout.add_solid([_f(p) for p in e["pts"]], dxfattribs=_attribs(e))
    elif t == "CIRCLE":
        ent = layout.add_circle(_f(e["pts"][0]), float(e["r"]), dxfattribs=_attribs(e))
    elif t == "ARC":
        ent = layout.add_arc(_f(e["pts"][0]), float(e["r"]), e["angles"][0], e["angles"][1], dxfattribs=_attribs(e))
    elif t == "ELLIPSE":
        k = float(e["r"]) / math.hypot(*e["major"])
        ent = layout.add_ellipse(_f(e["pts"][0]), (e["major"][0] * k, e["major"][1] * k), e["ratio"], dxfattribs=_attribs(e))
    elif t == "ATTDEF":
        ent = layout.add_attdef("TAG", _f(e["pts"][0]), "dflt", dxfattribs=_attribs(e))
    elif t == "INSERT":
        extra = {"xscale": float(e["sx"]), "yscale": float(e["sy"]), "rotation": e["rot"]}
        if e["flip"]:
            extra["extrusion"] = (0, 0, -1)
        if e.get("grid"):
            rows, cols, rsp, csp = e["grid"]
            extra.update({"row_count": rows, "column_count": cols, "row_spacing": float(rsp), "column_spacing": float(csp)})
        ent = ins = layout.add_blockref(e["name"], _f(e["pos"]), dxfattribs=_attribs(e, extra))
        for a in e["attribs"]:
            at = ins.add_attrib("TAG", "txt", _f(a["pos"]), dxfattribs=_attribs(a))
            if a["flag"]:
                at.is_invisible = True
            a["_h"] = int(at.dxf.handle, 16)
    else:
        raise ValueError(t)
    e["_h"] = int(ent.dxf.handle, 16)


def build(desc):
    import ezdxf

    doc = ezdxf.new("R2010", setup=True)
    for name, color, tc, transp, lt, lw, off, frozen, locked, plot in desc["layers"]:
        kw = {"color": color, "linetype": lt, "lineweight": lw, "plot": bool(plot)}
        if tc is not None:
            kw["true_color"] = tc
        if transp is not None:
            kw["transparency"] = transp
        layer = doc.layers.add(name, **kw)
        if off:
            layer.off()
        if frozen:
            layer.freeze()
        if locked:
            layer.lock()
    z = doc.layers.get("0")
    z.dxf.color = desc["zero"]["color"]
    z.dxf.linetype = desc["zero"]["linetype"]
    z.dxf.lineweight = desc["zero"]["lineweight"]
    if desc["zero"]["true_color"] is not None:
        z.dxf.true_color = desc["zero"]["true_color"]
    for b in desc["blocks"]:
        doc.blocks.new(b["name"], base_point=_f(b["base"]))
    for b in desc["blocks"]:
        blk = doc.blocks.get(b["name"])
        for e in b["ents"]:
            _add_entity(blk, e)
    msp = doc.modelspace()
    for e in desc["layouts"]["msp"]:
        _add_entity(msp, e)
    psp = doc.layout("Layout1")
    for e in desc["layouts"]["psp"]:
        _add_entity(psp, e)
    return doc


# ====================================================================== observation of the real front end
def _probe_class():
    from ezdxf.addons.drawing.recorder import Recorder

    class Probe(Recorder):
        """Recorder + the resolved Properties handed to enter_entity (linetype name is not part of BackendProperties)"""

        def __init__(self):
            super().__init__()
            self.cur = None
            self.tags = []  # parallel to self.records: (dxftype, linetype_name)
            self.pipe = None  # the render pipeline of the front end (for the current entity handle)
            self.stack = []

        def enter_entity(self, entity, properties):
            t = entity.dxftype()
            self.cur = (t, properties.linetype_name)
            self.center = None
            if t in ("CIRCLE", "ARC"):
                c = entity.ocs().to_wcs(entity.dxf.center)
                self.center = (c.x, c.y)
            elif t == "ELLIPSE":
                self.center = (entity.dxf.center.x, entity.dxf.center.y)
            self.stack.append((entity, properties))

        def exit_entity(self, entity):
            from ezdxf.addons.drawing.recorder import PointsRecord
            from ezdxf.npshapes import NumpyPoints2d
            from ezdxf.addons.drawing.properties import BackendProperties

            ent, properties = self.stack.pop()
            t = entity.dxftype()
            if t in ("ATTRIB", "ATTDEF"):
                # text pipeline is switched off: record the entity as a pseudo primitive at its WCS insert point, with the
                # entity handle the pipeline would put into BackendProperties at this moment
                p = entity.ocs().to_wcs(entity.dxf.insert)
                p2 = p.vec2
                if self.pipe is not None and self.pipe.clipping_portal.is_active:
                    # inside a VIEWPORT: what the pipeline does to every point primitive (matrix of the viewport, clipping)
                    p2 = self.pipe.clipping_portal.clip_point(p2)
                    if p2 is None:
                        return
                rec = PointsRecord(NumpyPoints2d((p2,)))
                h = self.pipe._current_entity_handle if self.pipe is not None else ""
                self.cur = (t, properties.linetype_name)
                if self.pipe is not None:
                    # the stage every real primitive passes: colour policy + cache, current entity handle
                    self.store(rec, self.pipe.get_backend_properties(properties))
                else:
                    self.store(rec, BackendProperties(properties.color, properties.lineweight, properties.layer, properties.pen, h))
                self.tags[-1] = (t, properties.linetype_name, "text")

        def store(self, record, properties):
            super().store(record, properties)
            self.tags.append(self.cur[:2] + ("geom", getattr(self, "center", None)))

    return Probe


LAYER_OVERRIDES = ("allon", "alloff", "mono")


def layer_override_func(name):
    """the functions handed to RenderContext.set_layer_properties_override (edit the resolved LayerProperties in place)"""
    def allon(layers):
        for lp in layers:
            lp.is_visible = True

    def alloff(layers):
        for lp in layers:
            lp.is_visible = False

    def mono(layers):
        for lp in layers:
            lp.color = "#112233"
            lp.has_aci_color_7 = False
            lp.lineweight = 0.5
            lp.linetype_name = "MONO"

    return {"allon": allon, "alloff": alloff, "mono": mono}[name]


def observe(doc, layout_name="msp", export=False, line_policy="SOLID", ctb=None, filter_func=None, layer_override=None,
            config_changes=None):
    """run the real front end; returns ('ok', [prim...], ctx) or ('err', ExceptionName).
    prim = dict(kind, color, pen, layer, ltype, lw, pts(float pairs), handle, dxftype, path)"""
    from ezdxf.addons.drawing import Frontend, RenderContext
    from ezdxf.addons.drawing.config import Configuration, LinePolicy, TextPolicy
    from ezdxf.addons.drawing.recorder import PointsRecord, PathRecord, SolidLinesRecord

    layout = doc.modelspace() if layout_name == "msp" else doc.layout("Layout1")
    rec = _probe_class()()
    cfg = Configuration(line_policy=getattr(LinePolicy, line_policy), text_policy=TextPolicy.IGNORE)
    if config_changes:
        cfg = cfg.with_changes(**config_changes)
    rctx = RenderContext(doc, export_mode=export) if ctb is None else RenderContext(doc, export_mode=export, ctb=ctb)
    if layer_override is not None:
        rctx.set_layer_properties_override(layer_override_func(layer_override))
    try:
        fe = Frontend(rctx, rec, config=cfg)
        rec.pipe = fe.pipeline
        fe.draw_layout(layout, filter_func=filter_func)
    except RecursionError:
        return ("err", "RecursionError")
    except Exception as e:  # noqa
        return ("err", type(e).__name__)
    prims = []
    for (record, bp), tag in zip(rec.player().recordings(), rec.tags):
        d = {"color": bp.color, "pen": bp.pen, "layer": bp.layer, "lw": bp.lineweight, "handle": bp.handle,
             "dxftype": tag[0], "ltype": tag[1], "path": None}
        if isinstance(record, PointsRecord):
            v = record.points.vertices()
            d["pts"] = [(p.x, p.y) for p in v]
            if tag[2] == "text":
                d["kind"] = "attrib" if tag[0] == "ATTRIB" else "attdef"
            else:
                d["kind"] = "point" if len(v) == 1 else "line" if len(v) == 2 else "fill"
        elif isinstance(record, PathRecord):
            if record.path.has_curves:
                d["kind"] = "curve"
                # centre of the CIRCLE / ARC / ELLIPSE entity that is being drawn (after all transformations); other curves: bbox
                if len(tag) > 3 and tag[3] is not None:
                    d["pts"] = [tag[3]]
                else:
                    c = record.path.bbox().center
                    d["pts"] = [(c.x, c.y)]
                d["path"] = record.path
            else:
                d["kind"] = "path"
                d["pts"] = [(p.x, p.y) for p in record.path.control_vertices()]
        elif isinstance(record, SolidLinesRecord):
            d["kind"] = "lines"
            d["pts"] = [(p.x, p.y) for p in record.lines.vertices()]
        else:
            d["kind"] = type(record).__name__
            d["pts"] = []
        prims.append(d)
    return ("ok", prims, rctx)


def _grid(x):
    n = round(x * GRID)
    if abs(x * GRID - n) > 1e-6:
        return "offgrid:%r" % x
    return _rat(Fr(n, GRID))


def _rat(fr):
    fr = Fr(fr)
    return str(fr.numerator) if fr.denominator == 1 else f"{fr.numerator}/{fr.denominator}"


def canon(obs):
    """one response line of the line protocol"""
    if obs[0] == "err":
        return "err " + obs[1]
    out = []
    for p in obs[1]:
        lw = Fr(p["lw"]).limit_denominator(1000)
        pts = " ".join(_grid(x) + " " + _grid(y) for x, y in p["pts"])
        out.append(",".join([p["kind"], p["color"], str(p["pen"]), p["layer"], p["ltype"], _rat(lw), str(_hnum(p["handle"])), pts]))
    return "ok " + ";".join(out)


def _hnum(h):
    return int(h, 16) if h else 0


def parse_model_prims(resp):
    """'ok prim;prim...' of the Lean driver -> list of (fields tuple, [(Fraction, Fraction)...])"""
    body = resp[3:]
    out = []
    if not body:
        return out
    for pr in body.split(";"):
        f = pr.split(",")
        nums = [Fr(x) for x in f[7].split()] if f[7] else []
        out.append((tuple(f[:7]), list(zip(nums[0::2], nums[1::2]))))
    return out


def approx_equal(obs, model_resp, tol=1e-9):
    """real front end observation vs exact model response: all properties equal, coordinates within tol*(1+|x|)"""
    if obs[0] == "err":
        return model_resp == "err " + obs[1]
    if not model_resp.startswith("ok"):
        return False
    if model_resp.startswith("ok-unbalanced"):
        return False
    mp = parse_model_prims(model_resp)
    if len(mp) != len(obs[1]):
        return False
    for p, (f, pts) in zip(obs[1], mp):
        lw = Fr(p["lw"]).limit_denominator(1000)
        mine = (p["kind"], p["color"], str(p["pen"]), p["layer"], p["ltype"], _rat(lw), str(_hnum(p["handle"])))
        if mine != f or len(pts) != len(p["pts"]):
            return False
        for (x, y), (mx, my) in zip(p["pts"], pts):
            if not (_close(x, float(mx), tol) and _close(y, float(my), tol)):
                return False
    return True


# ====================================================================== request encoding (document as the code sees it)
def _enc_props(p, sep):
    tc = -1 if p["true_color"] is None else p["true_color"]
    tr = -1 if p["transparency"] is None else p["transparency"]
    return sep.join([p["layer"], str(p["color"]), str(tc), p["linetype"], str(p["lineweight"]), str(p["invisible"]), str(tr),
                     str(p.get("_h", 0))])


def _enc_ent(e):
    t = e["t"]
    if t == "INSERT":
        if "cs" in e:
            q = f"r{_rat(e['cs'][0])}_{_rat(e['cs'][1])}"
        else:
            q = str(int(round(e["rot"] / 90.0)) % 4)
            assert abs(e["rot"] - 90.0 * round(e["rot"] / 90.0)) < 1e-12, "quarter-turn or rational (cos, sin) documents only"
        att = "&".join(_enc_props(a, "~") + f"~{a['flag']}~{_rat(a['pos'][0])}~{_rat(a['pos'][1])}" for a in e["attribs"])
        f = ["i", _enc_props(e, ","), e["name"], _rat(e["pos"][0]), _rat(e["pos"][1]), _rat(e["sx"]), _rat(e["sy"]),
             q, "1" if e["flip"] else "0", att]
        if e.get("grid"):
            rows, cols, rsp, csp = e["grid"]
            f.append(f"{rows}_{cols}_{_rat(rsp)}_{_rat(csp)}")
        return ",".join(f)
    kind = {"LINE": "line", "POINT": "point", "LWPOLYLINE": "pclosed" if e.get("closed") else "popen", "SOLID": "solid",
            "CIRCLE": "circle", "ARC": "circle", "ELLIPSE": "circle", "ATTDEF": "attdef"}[t]  # model: curve entity = its centre
    pts = " ".join(_rat(x) + " " + _rat(y) for x, y in e["pts"])
    return ",".join(["k", kind, _enc_props(e, ","), pts])


def read_layers(doc):
    """raw layer table as the document defines it (name, color, true_color, raw transparency, linetype, lineweight, flags, plot)"""
    out = []
    for layer in doc.layers:
        tc = layer.dxf.get("true_color")
        try:
            tr = layer.get_xdata("AcCmTransparency")[0].value
        except Exception:  # noqa
            tr = None
        out.append((layer.dxf.name, layer.dxf.color, -1 if tc is None else tc, -1 if tr is None else tr,
                    str(layer.dxf.linetype), layer.dxf.lineweight, layer.dxf.flags, int(layer.dxf.plot)))
    return out


def encode(desc, doc, layout_name, export, ctb=None, keep=None, ents=None, ovf=None):
    layers = ";".join(",".join(str(x) for x in l) for l in read_layers(doc))
    blocks = "!".join(
        f"{b['name']},{_rat(b['base'][0])},{_rat(b['base'][1])}:" + ";".join(_enc_ent(e) for e in b["ents"]) for b in desc["blocks"]
    )
    ents = ";".join(_enc_ent(e) for e in (desc["layouts"][layout_name] if ents is None else ents))
    f = [layout_name, "1" if export else "0", layers, blocks, ents]
    if ctb is not None or keep is not None or ovf is not None:
        f.append(enc_ctb(ctb) if ctb is not None else "")
    if keep is not None:
        f.append(";".join(str(h) for h in keep))
    elif ovf is not None:
        f.extend(["", ovf])
    return "|".join(f)


# ---------------------------------------------------------------------- plot style tables
def gen_ctb(rng):
    """a CTB with a few entries that override the object lineweight and / or the object colour"""
    from ezdxf.addons import acadctb

    ctb = acadctb.new_ctb()
    for aci in rng.sample([1, 2, 3, 5, 6, 7, 8, 9, 30, 141, 250, 254, 255], rng.randint(2, 6)):
        st = ctb[aci]
        r = rng.random()
        if r < 0.7:
            st.set_lineweight(rng.choice([0.0, 0.05, 0.13, 0.25, 0.5, 0.7, 1.4, 2.11]))
        if r > 0.4:
            st.color = rng.choice([(10, 20, 30), (255, 0, 255), (0, 0, 0), (250, 250, 250)])
    return ctb


def ctb_tables(rctx):
    """the effective tables of the live RenderContext: aci -> lineweight override (mm) and aci -> colour"""
    from ezdxf.addons import acadctb

    lw, col = {}, {}
    for aci in range(1, 256):
        st = rctx.plot_styles[aci]
        if st.lineweight != acadctb.OBJECT_LINEWEIGHT:
            lw[aci] = Fr(rctx.plot_styles.get_lineweight(aci)).limit_denominator(1000)
        c = st.color
        col[aci] = (c[0] << 16) | (c[1] << 8) | c[2]
    return lw, col


def enc_ctb(tables):
    lw, col = tables
    base = aci_table()
    out = []
    for aci in range(1, 256):
        if aci in lw or col[aci] != base[aci]:
            out.append(f"{aci}:{_rat(lw[aci]) if aci in lw else '-'}:{col[aci] if col[aci] != base[aci] else '-'}")
    return ";".join(out)


# ====================================================================== independent specification (oracle)
class M2:
    """2D affine map, row vector convention p' = p*L + t; numbers are Fractions or floats"""

    def __init__(self, a, b, c, d, tx, ty):
        self.v = (a, b, c, d, tx, ty)

    def apply(self, p):
        a, b, c, d, tx, ty = self.v
        return (p[0] * a + p[1] * c + tx, p[0] * b + p[1] * d + ty)

    def lin(self, p):
        a, b, c, d, _, _ = self.v
        return (p[0] * a + p[1] * c, p[0] * b + p[1] * d)

    def then(self, o):
        """first self, then o"""
        a, b, c, d, tx, ty = self.v
        r0 = o.lin((a, b))
        r1 = o.lin((c, d))
        t = o.apply((tx, ty))
        return M2(r0[0], r0[1], r1[0], r1[1], t[0], t[1])

    def inverse_apply(self, p):
        a, b, c, d, tx, ty = self.v
        det = a * d - b * c
        x, y = p[0] - tx, p[1] - ty
        return ((x * d - y * c) / det, (-x * b + y * a) / det)


IDENT = M2(1, 0, 0, 1, 0, 0)


def insert_matrix(e, base, exact):
    """what the DXF reference says an INSERT does: scale, rotate about the extrusion axis, OCS, translate, base point"""
    sx, sy = e["sx"], e["sy"]
    if exact and "cs" in e:
        c, s = e["cs"]
    elif exact:
        q = int(round(e["rot"] / 90.0)) % 4
        c, s = [(1, 0), (0, 1), (-1, 0), (0, -1)][q]
    else:
        sx, sy = float(sx), float(sy)
        c, s = math.cos(math.radians(e["rot"])), math.sin(math.radians(e["rot"]))
    # block coordinates -> scaled -> rotated in the OCS -> OCS to WCS (x mirrored for extrusion -Z)
    ex = -1 if e["flip"] else 1
    a, b = sx * c * ex, sx * s
    cc, d = -sy * s * ex, sy * c
    px, py = e["pos"]
    if not exact:
        px, py = float(px), float(py)
    m = M2(a, b, cc, d, 0, 0)
    bx, by = m.lin(base if exact else (float(base[0]), float(base[1])))
    return M2(a, b, cc, d, ex * px - bx, py - by)


def grid_cells(e, exact):
    """what the DXF reference says a MINSERT is: the block repeated rows x columns times, spacing measured along the axes of
    the (rotated) reference, not scaled; a zero spacing switches the repetition in that direction off.
    Returns the list of (insert dict, attribs) per element."""
    g = e.get("grid")
    if not g:
        return [e]
    rows, cols, rsp, csp = g
    n = (rows if rsp != 0 else 1) * (cols if csp != 0 else 1)
    if n <= 1:
        return [e]
    if exact or "cs" in e:
        if "cs" in e:
            c, sn = e["cs"]
        else:
            c, sn = [(1, 0), (0, 1), (-1, 0), (0, -1)][int(round(e["rot"] / 90.0)) % 4]
        if not exact:
            c, sn = float(c), float(sn)
    else:
        c, sn = math.cos(math.radians(e["rot"])), math.sin(math.radians(e["rot"]))
    out, seen = [], set()
    for r in range(rows):
        for k in range(cols):
            off = (k * csp, r * rsp)
            if off in seen:
                continue
            seen.add(off)
            ox, oy = (off[0], off[1]) if exact else (float(off[0]), float(off[1]))
            dx, dy = ox * c - oy * sn, ox * sn + oy * c
            cell = dict(e)
            cell["pos"] = (e["pos"][0] + dx, e["pos"][1] + dy)
            ex = -1 if e["flip"] else 1  # the ATTRIBs move with their grid element in the WCS
            cell["attribs"] = [dict(a, pos=(a["pos"][0] + ex * dx, a["pos"][1] + dy)) for a in e["attribs"]]
            cell["_cell"] = True
            out.append(cell)
    return out


def _hex(rgb):
    return "#%06x" % rgb


class SpecCtx:
    def __init__(self, layers, fg, export, aci_rgb, ctb_lw=None):
        self.fg = fg
        self.aci = aci_rgb
        self.ctb_lw = ctb_lw or {}
        self.layers = {}
        for name, color, tc, tr, lt, lw, flags, plot in layers:
            if tc >= 0:
                col = _hex(tc & 0xFFFFFF)
            else:
                a = abs(color)
                col = fg if (a == 7 or a < 1 or a > 255) else _hex(aci_rgb[a])
            alpha = ""
            if tr >= 0 and (tr & 0x02000000) and (tr & 0xFF) < 255:
                alpha = "%02x" % (tr & 0xFF)
            vis = color >= 0 and not (flags & 1) and (bool(plot) or not export)
            self.layers[name.lower()] = {
                "color": col + alpha, "aci7": tc < 0 and color == 7, "pen": color, "ltype": lt.upper(),
                "lw": Fr(25, 100) if lw < 0 else Fr(lw, 100), "visible": vis,
            }

    DEFAULT = {"color": "#ffffff", "aci7": False, "pen": 7, "ltype": "CONTINUOUS", "lw": Fr(1, 4), "visible": True}

    def resolve(self, p, env, is_insert, attrib_flag=0):
        layer = p["layer"]
        if layer == "0" and env is not None:
            layer = env["layer"]
        known = self.layers.get(layer.lower())
        lp = known or self.DEFAULT
        # color
        if p["true_color"] is not None:
            col = _hex(p["true_color"] & 0xFFFFFF)
        elif p["color"] == 256:
            col = self.fg if lp["aci7"] else lp["color"][:7]
        elif p["color"] == 0:
            col = self.fg if env is None else env["color"][:7]
        elif p["color"] == 7 or not (0 < p["color"] < 256):
            col = self.fg
        else:
            col = _hex(self.aci[p["color"]])
        tr = p["transparency"]
        if tr == BYBLOCK_T:
            alpha = "" if env is None else env["color"][7:]
        elif tr is None:
            alpha = lp["color"][7:]
        else:
            alpha = "%02x" % (tr & 0xFF) if (tr & 0xFF) < 255 else ""
        # pen
        pen = p["color"]
        if pen == 256:
            pen = lp["pen"]
        elif pen == 0:
            pen = 7 if env is None else env["pen"]
        elif pen == 257:
            pen = 7
        # linetype
        lt = p["linetype"].upper()
        if lt == "BYLAYER":
            lt = lp["ltype"]
        elif lt == "BYBLOCK":
            lt = "STANDARD" if env is None else env["ltype"]
        # lineweight
        lw = p["lineweight"]
        if p["color"] in self.ctb_lw:
            w = self.ctb_lw[p["color"]]
        elif lw == -1:
            w = lp["lw"]
        elif lw == -2:
            w = Fr(1, 4) if env is None else env["lw"]
        elif lw == -3:
            w = Fr(1, 4)
        else:
            w = Fr(lw, 100)
        w = max(Fr(1, 100), w)
        if is_insert:
            vis = not p["invisible"]
        else:
            vis = not (known and not known["visible"]) and not p["invisible"] and not attrib_flag
        return {"layer": layer, "color": col + alpha, "pen": pen, "ltype": lt, "lw": w, "visible": vis}


def spec_flatten(desc, layout_name, layers, fg, export, aci_rgb, exact, ctb_lw=None, keep=None):
    """list of expected primitives; each carries the path of INSERTs that leads to it"""
    sc = SpecCtx(layers, fg, export, aci_rgb, ctb_lw)
    blocks = {b["name"].lower(): b for b in desc["blocks"]}
    out = []

    def emit(kind, rp, pts, path, extra=None, src=None):
        out.append({"kind": kind, **rp, "pts": pts, "path": path, "src": src, **(extra or {})})

    def walk(ents, env, acc, path, top):
        for e in ents:
            t = e["t"]
            if t == "INSERT":
                rp = sc.resolve(e, env, True)
                if not rp["visible"]:
                    continue
                blk = blocks[e["name"].lower()]
                for cell in grid_cells(e, exact):
                    for a in cell["attribs"]:
                        ra = sc.resolve(a, rp, False, a["flag"])
                        if ra["visible"]:
                            emit("attrib", ra, [acc.apply(a["pos"] if exact else (float(a["pos"][0]), float(a["pos"][1])))], path + [e],
                                 {"own": a if (not path and not cell.get("_cell")) else None})
                    m = insert_matrix(cell, blk["base"], exact).then(acc)
                    walk(blk["ents"], rp, m, path + [e], False)
                continue
            if t == "ATTDEF" and not top:
                continue
            rp = sc.resolve(e, env, False)
            if not rp["visible"]:
                continue
            pts = [acc.apply(p) for p in e["pts"]]
            if t == "LINE":
                emit("line", rp, pts, path, src=e)
            elif t == "POINT":
                if rp["layer"].lower() != "defpoints":
                    emit("point", rp, pts, path, src=e)
            elif t == "ATTDEF":
                emit("attdef", rp, pts, path, src=e)
            elif t == "LWPOLYLINE":
                if len(pts) >= 2:
                    if e["closed"] and pts[-1] != pts[0]:
                        pts = pts + [pts[0]]
                    emit("path", rp, pts, path, src=e)
            elif t == "SOLID":
                if pts[3] != pts[2]:
                    pts = [pts[0], pts[1], pts[3], pts[2]]
                else:
                    pts = pts[:3]
                emit("fill", rp, pts, path, src=e)
            elif t == "CIRCLE":
                emit("curve", rp, pts, path, {"m": acc, "c": e["pts"][0], "r": e["r"]}, src=e)
            elif t in ("ARC", "ELLIPSE"):
                emit("curve", rp, pts, path, {"shape": False}, src=e)

    top = desc["layouts"][layout_name]
    if keep is not None:
        top = [e for e in top if keep(e)]
    walk(top, None, IDENT, [], True)
    return out


def shear_fallback(path):
    """remaining finding F20: the composed matrix of an INSERT below its ancestors is a shear (rotation that is not a multiple
    of 90 degrees below a non-uniform scale): Insert.transform raises InsertTransformationError and
    virtual_block_reference_entities falls back to exploding the nested INSERT, which drops its block-reference state"""
    acc = IDENT
    zero = (0.0, 0.0)
    for j, e in enumerate(path):
        m = insert_matrix(e, zero, False)
        if j > 0:
            a, b, c, d, _, _ = m.v
            n0, n1 = math.hypot(a, b), math.hypot(c, d)
            ux = acc.lin((a / n0, b / n0))
            uy = acc.lin((c / n1, d / n1))
            dot = (ux[0] * uy[0] + ux[1] * uy[1]) / (math.hypot(*ux) * math.hypot(*uy))
            if abs(dot) > 1e-9:
                return True
        acc = m.then(acc)
    return False


def walk_paths(desc, layout_name, ents=None):
    """all INSERT paths of a layout (lists of insert dicts), for acyclic closed documents"""
    blocks = {b["name"].lower(): b for b in desc["blocks"]}
    out = []

    def go(ents, path):
        for e in ents:
            if e["t"] == "INSERT":
                p = path + [e]
                out.append(p)
                if len(p) > len(blocks) + 1:
                    raise RecursionError
                go(blocks[e["name"].lower()]["ents"], p)

    go(desc["layouts"][layout_name] if ents is None else ents, [])
    return out


def fallback_changes_sequence(desc, layout_name):
    """a sheared nested INSERT (explode fall-back, F20) that is invisible or has ATTRIBs: its content is drawn although it must not
    be / its ATTRIBs are not drawn: the number and order of the primitives of the layout change"""
    try:
        for p in walk_paths(desc, layout_name):
            if shear_fallback(p) and any(e["invisible"] or e["attribs"] for e in p[1:]):
                return True
    except (RecursionError, KeyError):
        pass
    return False


def layout_fallback(desc, layout_name):
    try:
        return any(shear_fallback(p) for p in walk_paths(desc, layout_name))
    except (RecursionError, KeyError):
        return False


# ====================================================================== streams
_ACI = None


def aci_table():
    global _ACI
    if _ACI is None:
        from ezdxf.colors import DXF_DEFAULT_COLORS

        # the AutoCAD default palette straight from ezdxf.colors (independent of RenderContext / acadctb)
        _ACI = [c & 0xFFFFFF for c in DXF_DEFAULT_COLORS]
    return _ACI


FG = {"msp": "#ffffff", "psp": "#000000"}


def doc_stream(ctx, modes_counts):
    """yield (docid, rngkey, desc)"""
    import random

    for name, desc in special_docs():
        yield f"special/{name}", None, desc
    for mode, n in modes_counts:
        for i in range(n):
            key = f"{ctx.seed}/{ctx.pid}/doc/{mode}/{i}"
            yield f"{mode}/{i}", key, gen_doc(random.Random(key), mode)


def desc_by_id(docid, rngkey):
    import random

    if rngkey is None:
        return dict(special_docs())[docid.split("/", 1)[1]]
    return gen_doc(random.Random(rngkey), docid.split("/")[0])


def correspond(ctx):
    cases_draw, cases_spec, cases_reach, cases_lawful = [], [], [], []
    approx = []  # (stream, request, observation, nontrivial, expectation) compared under tolerance after the driver ran
    nq = ctx.n(400, 5000)
    plan = [("quarter", nq), ("safe", nq // 2), ("rational", nq // 2), ("rational-any", nq // 4)]
    for docid, key, desc in doc_stream(ctx, plan):
        rational = desc["mode"] in ("rational", "rational-any")
        doc = build(desc)
        combos = [("msp", False), ("msp", True), ("psp", False), ("psp", True)]
        if key is not None:
            r = ctx.rng("combo/" + docid)
            combos = [("msp", r.random() < 0.3), ("psp", r.random() < 0.5)]
        rr = ctx.rng("ctbkeep/" + docid)
        for lay, export in combos:
            # a third of the runs with a plot style table that overrides lineweights / colours, a quarter with a filter_func
            ctb = gen_ctb(rr) if rr.random() < 0.33 else None
            top = desc["layouts"][lay]
            keep = None
            if rr.random() < 0.25 and top:
                keep = sorted(e["_h"] for e in top if rr.random() < 0.6)
            kset = set(keep) if keep is not None else None
            ff = (lambda ent: int(ent.dxf.handle, 16) in kset) if kset is not None else None
            # a fifth of the unfiltered runs with a layer property override function (set_layer_properties_override)
            ovf = rr.choice(LAYER_OVERRIDES) if (keep is None and rr.random() < 0.2) else None
            if ovf is not None and not rational:
                approx.append(("X7 draw with layer property override", "draw|" + encode(desc, doc, lay, export, None, None, ovf=ovf),
                               observe(doc, lay, export, layer_override=ovf), True, False))
                ctx.hist("X7 draw with layer property override", ovf)
            obs = observe(doc, lay, export, ctb=ctb, filter_func=ff)
            tables = ctb_tables(obs[2]) if (ctb is not None and obs[0] == "ok") else None
            if ctb is not None and tables is None:
                from ezdxf.addons.drawing import RenderContext
                tables = ctb_tables(RenderContext(doc, ctb=ctb))
            body = encode(desc, doc, lay, export, tables, keep)
            has_ins = any(e["t"] == "INSERT" and not e["invisible"] and (kset is None or e["_h"] in kset) for e in top)
            ctx.hist("X1 draw", "error-class" if obs[0] == "err" else ("with-insert" if has_ins else "leaf-only"))
            if ctb is not None:
                ctx.hist("X1 draw", "with plot style table overrides")
            if keep is not None:
                ctx.hist("X1 draw", "with filter_func")
            if any(e["t"] == "INSERT" and e.get("grid") for e in top) or any(e["t"] == "INSERT" and e.get("grid") for b in desc["blocks"] for e in b["ents"]):
                ctx.hist("X1 draw", "document with MINSERT")
            fb = layout_fallback(desc, lay)
            if rational:
                approx.append(("X1r draw (rational rotations, tolerance 1e-9)", "draw|" + body, obs, has_ins, fb))
            else:
                cases_draw.append(("draw|" + body, canon(obs), has_ins))
            if obs[0] == "ok":
                kept = [e for e in top if kset is None or e["_h"] in kset]
                try:
                    walk_paths(desc, lay, kept)
                    tree = True
                except (RecursionError, KeyError):
                    tree = False  # cyclic / dangling reference below an invisible INSERT: no block tree
                ctx.hist("X2 spec", "block tree" if tree else "no block tree (draw ok: bad reference is invisible)")
                sbody = encode(desc, doc, lay, export, tables, None, ents=kept) if (tables is not None or keep is not None) else encode(desc, doc, lay, export, ents=kept)
                if rational:
                    if not fb:  # in the fall-back case the front end does NOT draw what the document defines (finding F20)
                        approx.append(("X2r spec (rational rotations, tolerance 1e-9)", "spec|" + sbody, obs if tree else ("no-tree",), has_ins, False))
                else:
                    cases_spec.append(("spec|" + sbody, canon(obs) if tree else "no-tree", has_ins))
        # validity predicate of draw_total vs. the audit verdict; lawfulness of the block tree vs. an independent shear test
        for lay in ("msp", "psp"):
            body = encode(desc, doc, lay, False)
            try:
                paths = walk_paths(desc, lay)
                ok = True
            except (RecursionError, KeyError):
                ok = False
            nontriv = any(e["t"] == "INSERT" for e in desc["layouts"][lay])
            cases_reach.append(("reach|" + body, "1" if ok else "0", nontriv))
            if ok:
                fb = any(shear_fallback(p) for p in paths)
                ctx.hist("X4 lawful", "sheared nested INSERT (explode fall-back)" if fb else "lawful block tree")
                cases_lawful.append(("lawful|" + body, "0" if fb else "1", nontriv and any(len(p) > 1 for p in paths)))
    deps = ["EzdxfVerif.Model.Render", "EzdxfVerif.Gen.RenderTables", "Drivers.Proto"]
    ctx.correspond("X1 draw", "C18", cases_draw, build=deps)
    ctx.correspond("X2 spec", "C18", cases_spec)
    ctx.correspond("X3 reach", "C18", cases_reach)
    ctx.correspond("X4 lawful", "C18", cases_lawful)
    # tolerance streams: the driver answers exactly (rationals), the comparison is done here
    outs = ctx.driver("C18", [a[1] for a in approx])
    for (stream, req, obs, nontriv, fb), model in zip(approx, outs):
        impl = "no-tree" if obs[0] == "no-tree" else canon_float(obs)
        ctx.count(stream, req, nontriv, sample={"request": req[:300], "impl": impl[:300], "model": model[:300]})
        ctx.cov["disagreements_checked"] += 1
        if fb:
            ctx.hist(stream, "layout with a sheared nested INSERT: explode fall-back (F20) followed by the model")
        if model.startswith("outside"):
            ctx.hist(stream, "outside the model (" + model + ")")
            good = True
        elif obs[0] == "no-tree":
            good = model == "no-tree"
        else:
            ctx.hist(stream, "compared under tolerance")
            good = approx_equal(obs, model)
        if not good:
            ctx.disagree(stream, req, impl, model)
    correspond_layers(ctx)
    correspond_viewports(ctx)
    correspond_viewport_content(ctx)
    correspond_redraw_order(ctx)
    correspond_policies(ctx)
    correspond_final_round(ctx)
    correspond_hatch(ctx)


def canon_float(obs):
    if obs[0] == "err":
        return "err " + obs[1]
    out = []
    for p in obs[1]:
        lw = Fr(p["lw"]).limit_denominator(1000)
        pts = " ".join("%.9g %.9g" % (x, y) for x, y in p["pts"])
        out.append(",".join([p["kind"], p["color"], str(p["pen"]), p["layer"], p["ltype"], _rat(lw), str(_hnum(p["handle"])), pts]))
    return "ok " + ";".join(out)


def correspond_layers(ctx):
    """X5: the layer table the traversal works with - RenderContext(doc).from_viewport(vp) for a VIEWPORT with frozen layers
    and per-viewport layer property overrides (Layer.get_vp_overrides) vs. the model's mkVpCtxOv / applyOverride /
    resolveLayerProps"""
    from ezdxf.addons.drawing import RenderContext
    from ezdxf import colors
    import random

    cases = []
    for i in range(ctx.n(60, 600)):
        key = f"{ctx.seed}/{ctx.pid}/layers/{i}"
        rng = random.Random(key)
        desc = gen_doc(rng, "quarter", depth=1)
        doc = build(desc)
        names = [l.dxf.name for l in doc.layers]
        frozen = [_case_variant(rng, n) for n in rng.sample(names, rng.randint(0, min(3, len(names))))]
        if rng.random() < 0.3:
            frozen.append("NoSuchLayer")
        psp = doc.layout("Layout1")
        vp = psp.add_viewport(center=(5, 5), size=(4, 4), view_center_point=(0, 0), view_height=10)
        other = psp.add_viewport(center=(15, 5), size=(4, 4), view_center_point=(0, 0), view_height=10)
        vp.frozen_layers = list(frozen)
        layers_before = ";".join(",".join(str(x) for x in l) for l in read_layers(doc))
        ovs = []
        for layer in doc.layers:
            r = rng.random()
            if r < 0.55:
                continue
            ov = layer.get_vp_overrides()
            h = vp.dxf.handle if r < 0.9 else other.dxf.handle  # overrides of ANOTHER viewport must not leak
            if rng.random() < 0.7:
                ov.set_color(h, rng.choice([1, 2, 7, 7, 30, 254, 255]))
            if rng.random() < 0.4:
                ov.set_rgb(h, rng.choice([(1, 2, 3), (255, 255, 255), (0, 128, 255)]))
            if rng.random() < 0.4:
                ov.set_transparency(h, rng.choice([0.0, 0.5, 0.2, 1.0]))
            if rng.random() < 0.4:
                ov.set_linetype(h, rng.choice(["Continuous", "DASHED", "CENTER"]))
            if rng.random() < 0.4:
                ov.set_lineweight(h, rng.choice([-3, 0, 13, 50, 211]))
            ov.commit()
            # what the DOCUMENT now stores (one raw colour per viewport: an RGB override replaces the ACI override)
            ov = layer.get_vp_overrides()
            if h == vp.dxf.handle and ov.has_overrides(h):
                rgb = ov.get_rgb(h)
                ovs.append(":".join([layer.dxf.name, str(ov.get_color(h)), "-" if rgb is None else str((rgb[0] << 16) | (rgb[1] << 8) | rgb[2]),
                                     str(colors.float2transparency(ov.get_transparency(h))), ov.get_linetype(h), str(ov.get_lineweight(h))]))
        for export in (False, True):
            rctx = RenderContext(doc, export_mode=export)
            rctx.set_current_layout(psp)
            vctx = rctx.from_viewport(vp)
            got = ";".join(
                ",".join([k, lp.layer, lp.color, str(lp.pen), lp.linetype_name, _rat(Fr(lp.lineweight).limit_denominator(1000)),
                          "1" if lp.is_visible else "0", "1" if lp.has_aci_color_7 else "0"])
                for k, lp in vctx.layers.items())
            ctx.hist("X5 layer table (viewport frozen layers, property overrides)", "with property overrides" if ovs else "without")
            cases.append((f"layers|psp|{int(export)}|{layers_before}|{';'.join(frozen)}|{';'.join(ovs)}", got, bool(frozen) or bool(ovs)))
    ctx.correspond("X5 layer table (viewport frozen layers, property overrides)", "C18", cases)


def correspond_viewport_content(ctx):
    """X8: a paperspace layout with 1-3 top-view VIEWPORT entities (status values incl. 'active' and off, frozen layers,
    per-viewport layer property overrides, dyadic scale and offset, showing the whole modelspace so that nothing is clipped):
    Frontend.draw_layout(psp) vs. the model's drawLayoutVp (own entities, then for every selected viewport the modelspace
    entities drawn with from_viewport's layer table and mapped by the viewport matrix)"""
    import random
    from ezdxf import colors

    cases = []
    for i in range(ctx.n(70, 800)):
        key = f"{ctx.seed}/{ctx.pid}/vpc/{i}"
        rng = random.Random(key)
        desc = gen_doc(rng, "quarter", depth=rng.choice([1, 2, 2, 3]))
        for b in desc["blocks"]:
            b["ents"] = [e for e in b["ents"] if e["t"] not in ("CIRCLE", "ARC", "ELLIPSE")]
        for lay in ("msp", "psp"):
            desc["layouts"][lay] = [e for e in desc["layouts"][lay] if e["t"] not in ("CIRCLE", "ARC", "ELLIPSE")]
        doc = build(desc)
        psp = doc.layout("Layout1")
        names = [l.dxf.name for l in doc.layers]
        layers_before = ";".join(",".join(str(x) for x in l) for l in read_layers(doc))
        vps = []
        for k in range(rng.randint(1, 3)):
            scale = rng.choice([Fr(1), Fr(1, 2), Fr(1, 4), Fr(2)])
            vh = 8192
            size = float(vh * scale)
            center = (Q * rng.randint(-40, 40), Q * rng.randint(-40, 40))
            vc = (Q * rng.randint(-8, 8), Q * rng.randint(-8, 8))
            vp = psp.add_viewport(center=_f(center), size=(size, size), view_center_point=_f(vc), view_height=vh,
                                  status=rng.choice([2, 2, 3, 1, 0, -1, 5]))
            frozen = [_case_variant(rng, n) for n in rng.sample(names, rng.randint(0, min(2, len(names))))]
            vp.frozen_layers = list(frozen)
            ovs = []
            for layer in doc.layers:
                if rng.random() < 0.75:
                    continue
                ov = layer.get_vp_overrides()
                h = vp.dxf.handle
                if rng.random() < 0.7:
                    ov.set_color(h, rng.choice([1, 2, 7, 30, 254]))
                if rng.random() < 0.3:
                    ov.set_rgb(h, rng.choice([(1, 2, 3), (0, 128, 255)]))
                if rng.random() < 0.4:
                    ov.set_lineweight(h, rng.choice([-3, 13, 50]))
                if rng.random() < 0.3:
                    ov.set_transparency(h, rng.choice([0.0, 0.5]))
                ov.commit()
            for layer in doc.layers:
                ov = layer.get_vp_overrides()
                h = vp.dxf.handle
                if ov.has_overrides(h):
                    rgb = ov.get_rgb(h)
                    ovs.append(":".join([layer.dxf.name, str(ov.get_color(h)), "-" if rgb is None else str((rgb[0] << 16) | (rgb[1] << 8) | rgb[2]),
                                         str(colors.float2transparency(ov.get_transparency(h))), ov.get_linetype(h), str(ov.get_lineweight(h))]))
            off = (center[0] - vc[0] * scale, center[1] - vc[1] * scale)
            vps.append((vp, ",".join([str(vp.dxf.status), _rat(scale), _rat(off[0]), _rat(off[1]), "&".join(frozen), "&".join(ovs)])))
        # overrides are written per viewport: re-read the raw layer table (unchanged by overrides) once more for safety
        for export in (False, True):
            obs = observe(doc, "psp", export)
            body = encode(desc, doc, "psp", export)
            mspents = ";".join(_enc_ent(e) for e in desc["layouts"]["msp"])
            req = "drawvp|" + body + "|" + ";".join(v[1] for v in vps) + "|" + mspents
            ctx.hist("X8 paperspace with viewports", f"{len(vps)} viewport(s)")
            cases.append((req, canon(obs), True))
    ctx.correspond("X8 paperspace with viewports", "C18", cases)


def correspond_redraw_order(ctx):
    """X9: layouts with a redraw order table (ACAD_SORTENTS, layout.set_redraw_order): sort handles that collide, are 0, are
    handles of other entities; with and without filter_func. Frontend.draw_layout vs. the model's drawLayoutOrdered"""
    import random

    cases = []
    for i in range(ctx.n(60, 700)):
        key = f"{ctx.seed}/{ctx.pid}/order/{i}"
        rng = random.Random(key)
        desc = gen_doc(rng, "quarter", depth=rng.choice([1, 2]))
        for _ in range(rng.randint(1, 3)):
            desc["layouts"]["msp"].append(gen_leaf(rng, [s[0] for s in desc["layers"]], False, False))
        doc = build(desc)
        msp = doc.modelspace()
        top = desc["layouts"]["msp"]
        hs = [e["_h"] for e in top]
        mapping = {}
        for e in top:
            if rng.random() < 0.6:
                mapping[e["_h"]] = rng.choice([0, 1, 5, rng.choice(hs), rng.choice(hs) + 1, 0xFFFF, e["_h"]])
        if not mapping and top:
            mapping[top[0]["_h"]] = 0
        msp.set_redraw_order({"%X" % a: "%X" % b for a, b in mapping.items()})
        keep = None
        if rng.random() < 0.3:
            keep = sorted(h for h in hs if rng.random() < 0.7)
        kset = set(keep) if keep is not None else None
        ff = (lambda ent: int(ent.dxf.handle, 16) in kset) if kset is not None else None
        obs = observe(doc, "msp", False, filter_func=ff)
        body = encode(desc, doc, "msp", False)
        req = "draw|" + body + "||" + ("*" if keep is None else ";".join(str(h) for h in keep)) + "|order|" + \
              ";".join(f"{a}:{b}" for a, b in mapping.items())
        cases.append((req, canon(obs), len(top) > 1))
    ctx.correspond("X9 redraw order table", "C18", cases)


def correspond_policies(ctx):
    """X10: the stage between front end and backend: Configuration(color_policy, custom_fg_color, background_policy,
    custom_bg_color) for every colour policy x background policy; documents with many primitives of the SAME RGB colour and
    DIFFERENT alpha in one rendering (explicit transparency, BYLAYER from transparent layers, BYBLOCK through references), so that
    the colour cache of the pipeline is hit with every combination. Frontend.draw_layout vs. the model's drawLayout + backendStage
    with the foreground colour of layoutFg"""
    import random
    from ezdxf.addons.drawing.config import ColorPolicy, BackgroundPolicy
    from ezdxf.addons.drawing import pipeline as PL
    from ezdxf.addons.drawing.properties import is_dark_color

    pols = [p.name for p in ColorPolicy]
    bgs = [b.name for b in BackgroundPolicy]
    mono = {"MONOCHROME": (1.0, 0.0), "MONOCHROME_DARK_BG": (0.7, 0.3), "MONOCHROME_LIGHT_BG": (0.7, 0.0)}
    cases = []
    for i in range(ctx.n(45, 600)):
        key = f"{ctx.seed}/{ctx.pid}/policy/{i}"
        rng = random.Random(key)
        desc = gen_doc(rng, "quarter", depth=rng.choice([1, 2, 3]))
        # more entities of few colours with all kinds of transparency
        names = [s[0] for s in desc["layers"]]
        for lay in ("msp", "psp"):
            for _ in range(rng.randint(2, 5)):
                e = gen_leaf(rng, names, False, False)
                e["color"] = rng.choice([1, 1, 7, 256, 0, 30])
                e["true_color"] = None
                e["transparency"] = rng.choice(TRANSP)
                desc["layouts"][lay].insert(rng.randrange(len(desc["layouts"][lay]) + 1), e)
        doc = build(desc)
        for lay in ("msp", "psp"):
            pol = pols[(i + (lay == "psp")) % len(pols)] if rng.random() < 0.8 else rng.choice(pols)
            bg = rng.choice(bgs)
            cfg = rng.choice(["#ff0000", "#00ff0080", "#123456fe", "#ffffff"])
            cbg = rng.choice(["#000000", "#ffffff", "#202020", "#808080", "#0000ff"])
            changes = {"color_policy": getattr(ColorPolicy, pol), "custom_fg_color": cfg,
                       "background_policy": getattr(BackgroundPolicy, bg), "custom_bg_color": cbg}
            export = rng.random() < 0.3
            obs = observe(doc, lay, export, config_changes=changes)
            grays = ""
            if pol in mono:
                # the monochrome policies go through a floating point luminance: gray values of the live function for the
                # colours the front end resolves (same background policy, colour policy COLOR)
                plain = observe(doc, lay, export, config_changes=dict(changes, color_policy=ColorPolicy.COLOR))
                rgbs = sorted({p["color"][:7] for p in plain[1]}) if plain[0] == "ok" else []
                sc, of = mono[pol]
                grays = ";".join(f"{int(c[1:], 16)}:{int(PL.color_to_monochrome(c, scale=sc, offset=of)[1:7], 16)}" for c in rgbs)
            body = encode(desc, doc, lay, export)
            cu = f"{int(cfg[1:7], 16)}:{int(cfg[7:9], 16) if len(cfg) == 9 else '-'}"
            req = "|".join(["drawp", body, pol, cu, bg, "1" if is_dark_color(cbg[:7]) else "0", grays])
            ctx.hist("X10 colour and background policy", pol + " / " + bg)
            same_rgb = len({p["color"][:7] for p in obs[1]}) < len({p["color"] for p in obs[1]}) if obs[0] == "ok" else False
            if same_rgb:
                ctx.hist("X10 colour and background policy", "same RGB with different alpha in one rendering")
            cases.append((req, canon(obs), same_rgb))
    ctx.correspond("X10 colour and background policy", "C18", cases)


def correspond_final_round(ctx):
    """X11: the references at which Insert.transform raises (model: Forest.failing of the block tree; theorem
    draw_differs_only_with_raising_reference) vs. an independent floating point walk: on every INSERT path the FIRST reference whose
    axes are not orthogonal under the product of the matrices above it. X12: stroke-width of the JSON backend under
    Configuration(min_lineweight, lineweight_scaling) vs. backendStrokeWidth (before the rounding to 2 decimals: |d| <= 0.005)"""
    import random
    cases = []
    for mode, n in (("rational-any", ctx.n(120, 1500)), ("rational", ctx.n(30, 300)), ("quarter", ctx.n(30, 300))):
        for i in range(n):
            key = f"{ctx.seed}/{ctx.pid}/failing/{mode}/{i}"
            desc = gen_doc(random.Random(key), mode)
            doc = build(desc)
            for lay in ("msp", "psp"):
                try:
                    paths = walk_paths(desc, lay)
                except (RecursionError, KeyError):
                    continue
                first = set()
                for p in paths:
                    # the reference itself is the first sheared one of its path: no proper prefix is sheared
                    if shear_fallback(p) and not any(shear_fallback(p[:k]) for k in range(2, len(p))):
                        first.add(p[-1]["name"].lower() + ":fallback")
                ctx.hist("X11 raising references", "some" if first else "none")
                cases.append(("failing|" + encode(desc, doc, lay, False), ";".join(sorted(first)), bool(first)))
    ctx.correspond("X11 raising references", "C18", cases)
    # X12
    import ezdxf
    from ezdxf.addons.drawing import Frontend, RenderContext
    from ezdxf.addons.drawing.config import Configuration
    from ezdxf.addons.drawing.json import CustomJSONBackend
    rng = ctx.rng("stroke")
    reqs, reals = [], []
    for i in range(ctx.n(40, 300)):
        lw = rng.choice([0, 5, 13, 25, 50, 100, 211])
        cmin = rng.choice([None, 0, 1, 2, 3, 6, 12, 0.5])
        sc = rng.choice([0.0, 0.5, 1.0, 2.0, 3.0])
        doc = ezdxf.new("R2010")
        doc.modelspace().add_line((0, 0), (1, 0), dxfattribs={"lineweight": lw})
        be = CustomJSONBackend()
        Frontend(RenderContext(doc), be, config=Configuration(min_lineweight=cmin, lineweight_scaling=sc)).draw_layout(doc.modelspace())
        real = be.get_json_data()[0]["properties"]["stroke-width"]
        resolved = max(Fr(1, 100), Fr(lw, 100))  # resolve_lineweight: never below 0.01 mm
        reqs.append(f"stroke|{'-' if cmin is None else _rat(Fr(cmin).limit_denominator(1000))}|{_rat(Fr(sc).limit_denominator(1000))}|{_rat(resolved)}")
        reals.append(real)
    outs = ctx.driver("C18", reqs)
    for req, real, model in zip(reqs, reals, outs):
        ctx.count("X12 JSON stroke width", req, True, sample={"request": req, "impl": str(real), "model": model})
        ctx.cov["disagreements_checked"] += 1
        if abs(float(Fr(model)) - real) > 0.005 + 1e-9:
            ctx.disagree("X12 JSON stroke width", req, str(real), model)


def correspond_hatch(ctx):
    """X13: HATCH (solid / pattern / too dense pattern / gradient, 0-3 boundary loops, nested in a block reference or not) x every
    HatchPolicy: what Frontend.draw_layout records (nothing / SolidLinesRecord / one PathRecord per loop / one FilledPathsRecord with
    all loops) vs. hatchDecision"""
    import ezdxf
    from ezdxf.addons.drawing import Frontend, RenderContext
    from ezdxf.addons.drawing.config import Configuration, HatchPolicy
    from ezdxf.addons.drawing.recorder import Recorder, SolidLinesRecord, PathRecord, FilledPathsRecord
    from ezdxf.render import hatching

    rng = ctx.rng("hatch")
    cases = []
    for i in range(ctx.n(60, 400)):
        kind = rng.choice(["solid", "pattern", "dense", "gradient"])
        loops = rng.choice([0, 1, 1, 2, 3])
        nested = rng.random() < 0.4
        doc = ezdxf.new("R2010", setup=True)
        lay = doc.blocks.new("H") if nested else doc.modelspace()
        h = lay.add_hatch(color=rng.choice([1, 2, 256]))
        for k in range(loops):
            h.paths.add_polyline_path([(k * 10, 0), (k * 10 + 4, 0), (k * 10 + 4, 4), (k * 10, 4)], is_closed=True)
        if kind == "pattern":
            h.set_pattern_fill("ANSI31", scale=rng.choice([0.5, 1.0]))
        elif kind == "dense":
            h.set_pattern_fill("ANSI31", scale=0.00001)
        elif kind == "gradient":
            h.set_gradient((10, 10, 10), (200, 200, 200))
        if nested:
            doc.modelspace().add_blockref("H", (1, 1), dxfattribs={"xscale": 2, "yscale": 2, "rotation": 90})
        pol = rng.choice(list(HatchPolicy))
        rec = Recorder()
        rctx = RenderContext(doc)
        Frontend(rctx, rec, config=Configuration(hatch_policy=pol)).draw_layout(doc.modelspace())
        recs = [r for r, _ in rec.player().recordings()]
        if not recs:
            got = "nothing"
        elif all(isinstance(r, SolidLinesRecord) for r in recs):
            got = "lines"
        elif all(isinstance(r, PathRecord) for r in recs):
            got = f"outline {len(recs)}"
        elif len(recs) == 1 and isinstance(recs[0], FilledPathsRecord):
            got = f"filled {len(recs[0].paths)}"
        else:
            got = "other " + ",".join(type(r).__name__ for r in recs)
        filling = rctx.resolve_all(h).filling
        dense = False
        if filling is not None and filling.type == 1:
            # is the pattern too dense for this boundary? (the exception the front end catches)
            try:
                baseline = hatching.pattern_baselines(h)
                for _ in hatching.hatch_entity(h):
                    pass
            except hatching.DenseHatchingLinesError:
                dense = True
            except Exception:  # noqa
                dense = kind == "dense"
        req = f"hatch|{int(filling is not None)}|{pol.name}|{filling.type if filling is not None else 0}|{int(dense)}|{loops}"
        ctx.hist("X13 hatch policy", f"{kind} / {pol.name}")
        cases.append((req, got, True))
    ctx.correspond("X13 hatch policy", "C18", cases)


def correspond_viewports(ctx):
    """X6: which VIEWPORT entities _draw_viewports draws (by status) vs. the model's viewportsDrawn"""
    from ezdxf.addons.drawing import frontend as F
    from ezdxf.entities import Viewport

    class Fake:
        def __init__(self):
            self.drawn = []

        def draw_viewport(self, vp):
            self.drawn.append(vp.dxf.status)

    rng = ctx.rng("vports")
    cases = []
    for i in range(ctx.n(150, 1500)):
        st = [rng.choice([-1, 0, 1, 1, 2, 3, 4, 7]) for _ in range(rng.randint(0, 6))]
        fake = Fake()
        F._draw_viewports(fake, [Viewport.new(dxfattribs={"status": s}) for s in st])
        cases.append(("vports|" + " ".join(str(x) for x in st), " ".join(str(x) for x in fake.drawn), len(st) > 1))
    ctx.correspond("X6 viewports drawn", "C18", cases)


def _close(a, b, tol=1e-9):
    return abs(a - b) <= tol * (1 + abs(b))


def check_doc(ctx, docid, key, desc, lay, export, exact, stream="O1 spec", opt=None):
    """the property's observable predicate on the real code for one document/layout/configuration;
    opt = {"ctb": rng key of a generated plot style table | None, "keep": indices of the layout entities that pass filter_func | None}"""
    import random

    opt = opt or {}
    rep = {"docid": docid, "rngkey": key, "layout": lay, "export": export, "opt": opt}
    doc = build(desc)
    ctb = gen_ctb(random.Random(opt["ctb"])) if opt.get("ctb") else None
    keep_idx = opt.get("keep")
    kset = None if keep_idx is None else {desc["layouts"][lay][i]["_h"] for i in keep_idx}
    ff = (lambda ent: int(ent.dxf.handle, 16) in kset) if kset is not None else None
    auditor = doc.audit()
    audited = not auditor.has_errors and not auditor.has_fixes
    ctx.hist(stream, "audited" if audited else "not audit-clean: skipped")
    if not audited:
        return None  # the property quantifies over documents that pass audit (audit() also repairs the document)
    changes = None
    if opt.get("policy"):
        from ezdxf.addons.drawing.config import ColorPolicy
        changes = {"color_policy": getattr(ColorPolicy, opt["policy"]), "custom_fg_color": "#10203040"}
        ctx.hist(stream, "colour policy " + opt["policy"])
    obs = observe(doc, lay, export, ctb=ctb, filter_func=ff, config_changes=changes)
    ctx.count(stream, (docid, lay, export, repr(opt)), any(e["t"] == "INSERT" for e in desc["layouts"][lay]))
    if ctb is not None:
        ctx.hist(stream, "with plot style table overrides")
    if kset is not None:
        ctx.hist(stream, "with filter_func")
    if obs[0] == "err":
        ctx.fail(f"raise/{obs[1]}/{docid}/{lay}", f"front end raised {obs[1]} for an audited document ({docid}, {lay})", rep)
        return None
    got, rctx = obs[1], obs[2]
    if rctx._saved_states or rctx.current_block_reference_properties is not None:
        ctx.fail(f"stack/{docid}/{lay}", f"block reference state stack not restored after draw_layout ({docid}, {lay})", rep)
    ctb_lw, aci_rgb = None, aci_table()
    if ctb is not None:
        # the independent reading of the CTB: entries with an explicit lineweight index / colour
        from ezdxf.addons import acadctb
        ctb_lw, aci_rgb = {}, list(aci_rgb)
        for aci in range(1, 256):
            st = ctb[aci]
            if st.lineweight != acadctb.OBJECT_LINEWEIGHT:
                ctb_lw[aci] = Fr(float(ctb.lineweights[st.lineweight])).limit_denominator(10000)
            if not st.has_object_color():
                aci_rgb[aci] = (st.color[0] << 16) | (st.color[1] << 8) | st.color[2]
    spec = spec_flatten(desc, lay, read_layers(doc), FG[lay], export, aci_rgb, exact, ctb_lw,
                        (lambda e: e["_h"] in kset) if kset is not None else None)
    if opt.get("policy"):
        # the documented meaning of the colour policies, applied to what the document defines, primitive by primitive
        def pol(c, name=opt["policy"]):
            rgb, alpha = c[:7], c[7:]
            if name == "COLOR_SWAP_BW":
                rgb = {"#000000": "#ffffff", "#ffffff": "#000000"}.get(rgb, rgb)
            elif name == "COLOR_NEGATIVE":
                rgb = "#%06x" % (0xFFFFFF ^ int(rgb[1:], 16))
            elif name == "BLACK":
                rgb = "#000000"
            elif name == "WHITE":
                rgb = "#ffffff"
            elif name == "CUSTOM":
                rgb, alpha = "#102030", "40"
            return rgb + alpha
        for sp in spec:
            sp["color"] = pol(sp["color"])
    fb = "" if exact else ("explode-fallback/" if layout_fallback(desc, lay) else "")
    if fb:
        ctx.hist(stream, "layout with a sheared nested INSERT (F20)")
    if len(got) != len(spec) or [g["kind"] for g in got] != [s["kind"] for s in spec]:
        ctx.fail(f"{fb}count/{docid}/{lay}/{int(export)}",
                 f"{docid} {lay} export={export}: drawn primitives {[g['kind'] for g in got]} expected {[s['kind'] for s in spec]}", rep)
        return None
    seq_changed = (not exact) and fallback_changes_sequence(desc, lay)
    for i, (g, s) in enumerate(zip(got, spec)):
        fb = "" if exact else ("explode-fallback/" if (shear_fallback(s["path"]) or seq_changed) else "")
        for k in ("color", "pen", "layer", "ltype"):
            if g[k] != s[k]:
                ctx.fail(f"{fb}props/{k}/{docid}/{lay}/{int(export)}/{i}",
                         f"{docid} {lay} export={export} primitive {i} ({g['dxftype']}): {k} = {g[k]!r}, the document defines {s[k]!r}", rep)
        if abs(g["lw"] - float(s["lw"])) > (1e-12 if ctb is None else 1e-6):  # CTB lineweights are stored as float32
            ctx.fail(f"{fb}props/lineweight/{docid}/{lay}/{int(export)}/{i}",
                     f"{docid} {lay} primitive {i}: lineweight {g['lw']} expected {float(s['lw'])}", rep)
        bad = len(g["pts"]) != len(s["pts"]) or any(
            not (_close(a[0], float(b[0])) and _close(a[1], float(b[1]))) for a, b in zip(g["pts"], s["pts"]))
        if not bad and g["kind"] == "curve" and s.get("shape", True):
            bad = not circle_ok(g["path"], s)
        if bad:
            # finding F20 replaces a sheared nested INSERT by its content: when such a reference is invisible or carries ATTRIBs the
            # SEQUENCE of primitives changes (its content appears / its ATTRIBs vanish), so that equal kind lists can hide a
            # misalignment and primitive i of the drawing is not primitive i of the document; only then the geometry comparison
            # belongs to the known finding - in every other layout (also other fall-back layouts) it stays strict
            seq = "explode-fallback/" if seq_changed else ""
            ctx.fail(f"{seq}geom/{docid}/{lay}/{int(export)}/{i}",
                     f"{docid} {lay} primitive {i} ({g['dxftype']} on layer {g['layer']}, nesting depth {len(s['path'])}): drawn at "
                     f"{[(round(x, 6), round(y, 6)) for x, y in g['pts'][:4]]}, world geometry is "
                     f"{[(round(float(x), 6), round(float(y), 6)) for x, y in s['pts'][:4]]}", rep)
    return doc, got, spec


def circle_ok(path, s):
    m, c, r = s["m"], (float(s["c"][0]), float(s["c"][1])), float(s["r"])
    mf = M2(*[float(v) for v in m.v])
    angles = []
    for q in path.flattening(0.01):
        p = mf.inverse_apply((q.x, q.y))
        dx, dy = p[0] - c[0], p[1] - c[1]
        if abs(math.hypot(dx, dy) - r) > 2e-3 * r:
            return False
        angles.append(math.atan2(dy, dx))
    angles.sort()
    gaps = [b - a for a, b in zip(angles, angles[1:])] + [angles[0] + math.tau - angles[-1]]
    return max(gaps) < 0.6


def oracle(ctx):
    n = ctx.n(190, 3400)
    plan = [("quarter", n), ("safe", n), ("angle", n), ("angle-any", n // 2), ("rational", n // 2), ("rational-any", n // 4)]
    json_every, dash_every = 3, 4
    k = 0
    for docid, key, desc in doc_stream(ctx, plan):
        exact = desc["mode"] in ("quarter", "safe")
        r = ctx.rng("ocombo/" + docid)
        combos = [("msp", False), ("psp", True)] if key is None else [("msp", r.random() < 0.3), ("psp", r.random() < 0.5)]
        for lay, export in combos:
            opt = {}
            if key is not None and r.random() < 0.25:
                opt["ctb"] = f"{key}/ctb/{lay}"
            if key is not None and r.random() < 0.2 and desc["layouts"][lay]:
                opt["keep"] = [i for i in range(len(desc["layouts"][lay])) if r.random() < 0.6]
            if key is not None and r.random() < 0.2:
                opt["policy"] = r.choice(["COLOR_SWAP_BW", "COLOR_NEGATIVE", "BLACK", "WHITE", "CUSTOM"])
            res = check_doc(ctx, docid, key, desc, lay, export, exact, opt=opt)
            if res is None:
                continue
            if opt:
                continue  # JSON / dash / handle comparisons use the plain configuration
            doc, got, spec = res
            k += 1
            handle_check(ctx, docid, key, desc, doc, lay, export, got, spec)
            if k % json_every == 0:
                json_check(ctx, docid, key, doc, lay, export, got)
            if k % dash_every == 0:
                dash_check(ctx, docid, key, desc, doc, lay, export, spec)
    viewport_oracle(ctx)
    matrix_oracle(ctx)


def viewport_oracle(ctx):
    """O5: a paperspace layout with one top-view VIEWPORT that shows the whole modelspace: what arrives at the backend must be the
    paperspace entities followed by the modelspace content as the document defines it for that viewport - layers frozen in the
    viewport hide their entities at EVERY nesting depth, per-viewport layer property overrides apply at every depth, coordinates
    mapped by scale and offset of the viewport"""
    import random
    from ezdxf import colors

    for i in range(ctx.n(60, 900)):
        key = f"{ctx.seed}/{ctx.pid}/O5/{i}"
        rep = {"docid": f"vp/{i}", "rngkey": key, "layout": "psp", "export": False, "op": "viewport"}
        viewport_case(ctx, key, rep)


def viewport_case(ctx, key, rep):
    import random
    from ezdxf import colors

    rng = random.Random(key)
    desc = gen_doc(rng, rng.choice(["quarter", "safe"]), depth=rng.choice([1, 2, 2, 3]))
    for b in desc["blocks"]:
        b["ents"] = [e for e in b["ents"] if e["t"] not in ("CIRCLE", "ARC", "ELLIPSE")]
    for lay in ("msp", "psp"):
        desc["layouts"][lay] = [e for e in desc["layouts"][lay] if e["t"] not in ("CIRCLE", "ARC", "ELLIPSE")]
    doc = build(desc)
    if doc.audit().has_errors:
        return
    psp = doc.layout("Layout1")
    names = [l.dxf.name for l in doc.layers]
    vh = 8192
    base0 = {l[0]: list(l) for l in read_layers(doc)}
    views = []  # (status, scale, offset, layer table of the viewport, frozen names)
    for k in range(rng.choice([1, 1, 2, 3])):
        scale = rng.choice([Fr(1), Fr(1, 2), Fr(1, 4), Fr(2)])
        center = (Q * rng.randint(-40, 40), Q * rng.randint(-40, 40))
        vc = (Q * rng.randint(-8, 8), Q * rng.randint(-8, 8))
        status = 2 if k == 0 and rng.random() < 0.5 else rng.choice([1, 2, 3, 0, -1])
        vp = psp.add_viewport(center=_f(center), size=(float(vh * scale), float(vh * scale)), view_center_point=_f(vc), view_height=vh,
                              status=status)
        frozen = [_case_variant(rng, n) for n in rng.sample(names, rng.randint(1, min(3, len(names))))]
        vp.frozen_layers = list(frozen)
        base = {n: list(r) for n, r in base0.items()}
        for layer in doc.layers:
            if rng.random() < 0.7:
                continue
            ov = layer.get_vp_overrides()
            h = vp.dxf.handle
            row = base[layer.dxf.name]
            # the document stores ONE raw colour per viewport: an ACI override is only expressible for a layer without true colour
            if rng.random() < 0.6 and row[2] < 0:
                aci = rng.choice([1, 2, 30, 254])
                ov.set_color(h, aci)
                row[1] = aci if row[1] >= 0 else -aci
            elif rng.random() < 0.5:
                rgb = rng.choice([(1, 2, 3), (0, 128, 255)])
                ov.set_rgb(h, rgb)
                row[2] = (rgb[0] << 16) | (rgb[1] << 8) | rgb[2]
            if rng.random() < 0.5:
                lw = rng.choice([13, 50, 100])
                ov.set_lineweight(h, lw)
                row[5] = lw
            ov.commit()
        fk = {n.lower() for n in frozen}
        layers = []
        for name, row in base.items():
            row = list(row)
            if name.lower() in fk:
                row[6] |= 1  # frozen in this viewport
            layers.append(tuple(row))
        views.append((status, scale, (center[0] - vc[0] * scale, center[1] - vc[1] * scale), layers, frozen))
    # which viewports are drawn, in which order (DXF reference / documented rule of _draw_viewports): by ascending status, off
    # (status <= 0) not at all, the first one not if it is the "active" viewport (status 1)
    order = sorted(range(len(views)), key=lambda j: views[j][0])
    order = [j for j in order if views[j][0] > 0]
    if order and views[order[0]][0] == 1:
        order = order[1:]
    ctx.count("O5 viewport", key, True)
    obs = observe(doc, "psp", False)
    if obs[0] == "err":
        ctx.fail(f"raise/{obs[1]}/vp/{rep['docid']}", f"front end raised {obs[1]} for a paperspace layout with a viewport", rep)
        return
    own = spec_flatten(desc, "psp", read_layers(doc), FG["psp"], False, aci_table(), True)
    spec = list(own)
    fk, frozen = set(), []
    for j in order:
        status, scale, off, layers, fr = views[j]
        inside = spec_flatten(desc, "msp", layers, FG["psp"], False, aci_table(), True)
        for s in inside:
            s["pts"] = [(x * scale + off[0], y * scale + off[1]) for x, y in s["pts"]]
        spec += inside
        if len(order) == 1:
            fk, frozen = {n.lower() for n in fr}, fr
    got = obs[1]
    if [g["kind"] for g in got] != [s["kind"] for s in spec]:
        on_frozen = [g["layer"] for g in got if g["layer"].lower() in fk]
        ctx.fail(f"viewport/count/{rep['docid']}",
                 f"{rep['docid']}: paperspace with a viewport (frozen layers {frozen}): drawn {[g['kind'] for g in got]} expected "
                 f"{[s['kind'] for s in spec]}" + (f"; primitives on layers frozen in the viewport: {on_frozen}" if on_frozen else ""), rep)
        return
    for i, (g, s) in enumerate(zip(got, spec)):
        for k in ("color", "pen", "layer", "ltype"):
            if g[k] != s[k]:
                ctx.fail(f"viewport/props/{k}/{rep['docid']}/{i}",
                         f"{rep['docid']} primitive {i} ({g['dxftype']}, depth {len(s['path'])}): {k} = {g[k]!r}, the document defines {s[k]!r} for this viewport", rep)
        if abs(g["lw"] - float(s["lw"])) > 1e-12:
            ctx.fail(f"viewport/props/lineweight/{rep['docid']}/{i}", f"{rep['docid']} primitive {i}: lineweight {g['lw']} expected {float(s['lw'])}", rep)
        if len(g["pts"]) != len(s["pts"]) or any(not (_close(a[0], float(b[0])) and _close(a[1], float(b[1]))) for a, b in zip(g["pts"], s["pts"])):
            ctx.fail(f"viewport/geom/{rep['docid']}/{i}", f"{rep['docid']} primitive {i}: drawn at {g['pts'][:3]}, expected {[(float(x), float(y)) for x, y in s['pts'][:3]]}", rep)


# ====================================================================== O6: hidden x entity type x route
def _matrix_catalogue():
    """non-text graphical entity types: name -> function(layout, dxfattribs) adding one entity"""
    def hatch(l, a):
        h = l.add_hatch(color=a.get("color", 256), dxfattribs=a)
        h.paths.add_polyline_path([(0, 0), (2, 0), (2, 1), (0, 1)], is_closed=True)

    def mesh(l, a):
        m = l.add_mesh(dxfattribs=a)
        with m.edit_data() as d:
            d.vertices = [(0, 0, 0), (1, 0, 0), (1, 1, 0), (0, 1, 0)]
            d.faces = [(0, 1, 2, 3)]

    def polyface(l, a):
        pf = l.add_polyface(dxfattribs=a)
        pf.append_face([(0, 0, 0), (1, 0, 0), (1, 1, 0)])

    return {
        "LINE": lambda l, a: l.add_line((0, 0), (2, 1), dxfattribs=a),
        "POINT": lambda l, a: l.add_point((1, 1), dxfattribs=a),
        "CIRCLE": lambda l, a: l.add_circle((1, 0), 1, dxfattribs=a),
        "ARC": lambda l, a: l.add_arc((1, 0), 1, 10, 200, dxfattribs=a),
        "ELLIPSE": lambda l, a: l.add_ellipse((0, 0), (2, 0), 0.5, dxfattribs=a),
        "SPLINE": lambda l, a: l.add_spline([(0, 0), (1, 1), (2, 0), (3, 1)], dxfattribs=a),
        "LWPOLYLINE": lambda l, a: l.add_lwpolyline([(0, 0), (2, 0), (2, 1)], dxfattribs=a),
        "LWPOLYLINE-bulge": lambda l, a: l.add_lwpolyline([(0, 0, 0, 0, 1), (2, 0, 0, 0, -0.5), (2, 1)], dxfattribs=a),
        "LWPOLYLINE-width": lambda l, a: l.add_lwpolyline([(0, 0, 0.2, 0.2, 0), (2, 0, 0.2, 0.2, 0), (2, 1)], dxfattribs=a),
        "POLYLINE2D-bulge": lambda l, a: l.add_polyline2d([(0, 0, 0, 0, 1), (2, 0, 0, 0, 0), (2, 1)], format="xyseb", dxfattribs=a),
        "POLYLINE3D": lambda l, a: l.add_polyline3d([(0, 0, 0), (2, 0, 0), (2, 1, 0)], dxfattribs=a),
        "POLYFACE": polyface,
        "MESH": mesh,
        "SOLID": lambda l, a: l.add_solid([(0, 0), (2, 0), (0, 1), (2, 1)], dxfattribs=a),
        "TRACE": lambda l, a: l.add_trace([(0, 0), (2, 0), (0, 1), (2, 1)], dxfattribs=a),
        "3DFACE": lambda l, a: l.add_3dface([(0, 0), (2, 0), (2, 1), (0, 1)], dxfattribs=a),
        "3DFACE-edges": lambda l, a: l.add_3dface([(0, 0), (2, 0), (2, 1), (0, 1)], dxfattribs=dict(a, invisible_edges=5)),
        "HATCH": hatch,
        "XLINE": lambda l, a: l.add_xline((0, 0), (1, 1), dxfattribs=a),
        "RAY": lambda l, a: l.add_ray((0, 0), (1, 0), dxfattribs=a),
    }


MATRIX_ROUTES = {
    # name -> (chain of INSERT attribute dicts from the layout inwards); [] = the entity itself in the layout
    "layout": [],
    "insert": [{}],
    "uniform": [{"xscale": 2, "yscale": 2, "rotation": 30}],
    "non-uniform": [{"xscale": 2, "yscale": 0.5}],
    "mirror": [{"xscale": -1}],
    "mirror-non-uniform": [{"xscale": 1, "yscale": -3, "rotation": 90}],
    "extrusion-z": [{"extrusion": (0, 0, -1), "xscale": 2, "yscale": 1}],
    "nested": [{"xscale": 2, "yscale": 2}, {"rotation": 45, "xscale": 0.5, "yscale": 0.5}],
    "nested-non-uniform": [{"xscale": 1, "yscale": 2}, {"rotation": 90}],
    "nested-sheared": [{"xscale": 2, "yscale": 1}, {"rotation": 30}],          # explode fall-back of the nested reference
    "nested-sheared-3": [{"xscale": 2, "yscale": 1}, {"rotation": 30}, {"xscale": -1}],
    "minsert": [{"row_count": 2, "column_count": 2, "row_spacing": 5, "column_spacing": 5, "xscale": 1, "yscale": 2}],
    "minsert-nested-mirror": [{"yscale": -1}, {"row_count": 2, "column_count": 1, "row_spacing": 5, "column_spacing": 5}],
}
MATRIX_HIDE = ("visible", "invisible", "layer-off", "layer-frozen", "no-plot", "layer0-of-hidden-insert", "vp-frozen")


def matrix_case(ctx, tname, hide, only_route=None):
    """one entity type x one reason to be hidden, all routes: returns list of (route, number of primitives)"""
    import ezdxf
    from ezdxf.addons.drawing import Frontend, RenderContext
    from ezdxf.addons.drawing.recorder import Recorder

    add = _matrix_catalogue()[tname]
    doc = ezdxf.new("R2010", setup=True)
    doc.layers.add("OFF").off()
    doc.layers.add("FROZEN").freeze()
    doc.layers.add("NOPLOT", plot=False)
    doc.layers.add("VPF")
    attribs = {"layer": "ENT", "color": 3}
    ins_layer = "INS"
    if hide == "invisible":
        attribs["invisible"] = 1
    elif hide == "layer-off":
        attribs["layer"] = "OFF"
    elif hide == "layer-frozen":
        attribs["layer"] = "FROZEN"
    elif hide == "no-plot":
        attribs["layer"] = "NOPLOT"
    elif hide == "layer0-of-hidden-insert":
        attribs["layer"] = "0"
        ins_layer = "FROZEN"
    elif hide == "vp-frozen":
        attribs["layer"] = "VPF"
    export = hide == "no-plot"
    msp = doc.modelspace()
    tops = {}
    for rname, chain in MATRIX_ROUTES.items():
        if only_route is not None and rname != only_route:
            continue
        if hide == "layer0-of-hidden-insert" and not chain:
            continue
        if not chain:
            before = len(msp)
            add(msp, attribs)
            tops[rname] = list(msp)[before:]
            continue
        inner = doc.blocks.new(f"B_{rname}_0")
        add(inner, attribs)
        name = inner.name
        for k, a in enumerate(reversed(chain[1:]), start=1):
            blk = doc.blocks.new(f"B_{rname}_{k}")
            # nested references are on layer 0 / BYBLOCK: the state comes from the top level reference
            blk.add_blockref(name, (1, 2), dxfattribs=dict(a, layer="0"))
            name = blk.name
        tops[rname] = [msp.add_blockref(name, (3, -1), dxfattribs=dict(chain[0], layer=ins_layer))]
    out = []
    if hide == "vp-frozen":
        psp = doc.layout("Layout1")
        vp = psp.add_viewport(center=(0, 0), size=(4096, 4096), view_center_point=(0, 0), view_height=4096, status=2)
        vp.frozen_layers = ["vpf"]
        rec = Recorder()
        Frontend(RenderContext(doc), rec).draw_layout(psp)
        return [("viewport:all-routes", len(list(rec.player().recordings())))]
    for rname, ents in tops.items():
        rec = Recorder()
        fe = Frontend(RenderContext(doc, export_mode=export), rec)
        fe.draw_entities(ents)
        out.append((rname, len(list(rec.player().recordings()))))
    return out


def matrix_oracle(ctx):
    """O6: every non-text entity type x every route to the backend (layout, block references: uniform, non-uniform, mirrored,
    extrusion -Z, nested, nested and sheared = explode fall-back, MINSERT, VIEWPORT) x every reason to be hidden (invisible flag,
    layer off, layer frozen, not plotted in export mode, layer-0 content of a reference on a frozen layer, frozen in the viewport):
    nothing may reach the backend; the same entity without a reason to be hidden must reach it (non-vacuity)"""
    for tname in _matrix_catalogue():
        drawn = dict(matrix_case(ctx, tname, "visible"))
        for rname, n in drawn.items():
            ctx.count("O6 hidden x type x route", (tname, rname, "visible"), True)
            if n == 0:
                ctx.hist("O6 hidden x type x route", f"not rendered at all: {tname} via {rname}")
        for hide in MATRIX_HIDE[1:]:
            for rname, n in matrix_case(ctx, tname, hide):
                ctx.count("O6 hidden x type x route", (tname, rname, hide), True)
                ctx.hist("O6 hidden x type x route", hide)
                if n:
                    ctx.fail(f"hidden/{hide}/{tname}/{rname}",
                             f"{tname} that is hidden ({hide}) reached the backend via route '{rname}' ({n} primitive(s))",
                             {"op": "matrix", "type": tname, "hide": hide, "route": rname, "docid": "matrix", "rngkey": None,
                              "layout": "msp", "export": hide == "no-plot"})


def handle_check(ctx, docid, key, desc, doc, lay, export, got, spec):
    """BackendProperties.handle is documented as the handle of the top level entity: an entity of the layout is reported
    under its own handle; everything a block reference draws (block content at any depth, grid elements of a MINSERT, nested
    ATTRIBs) under the handle of the top level reference; the ATTRIB entities attached directly to a top level INSERT are
    database entities of their own and are reported under their own handle"""
    ctx.count("O4 handle", (docid, lay, export), True)
    for i, (g, s) in enumerate(zip(got, spec)):
        if s["path"]:
            top = s["path"][0]
            own = s.get("own")
            want = own["_h"] if own is not None else top["_h"]
            what = "ATTRIB of the top level INSERT" if own is not None else "content of INSERT"
        else:
            top = s["src"]
            want = top["_h"]
            what = "layout entity"
        have = _hnum(g["handle"])
        ctx.hist("O4 handle", what)
        if have != want:
            att = [a.get("_h") for a in top.get("attribs", [])] if isinstance(top, dict) else []
            cls = "attrib-shadows-insert" if (have in att and s.get("own") is None) else "other"
            # misaligned primitive lists in a fall-back layout whose sheared reference is invisible / has ATTRIBs: finding F20
            seq = "explode-fallback/" if (desc.get("mode") not in ("quarter", "safe") and fallback_changes_sequence(desc, lay)) else ""
            ctx.fail(f"{seq}handle/{cls}/{docid}/{lay}",
                     f"{docid} {lay}: primitive {i} ({g['kind']}, {what} #{top['_h']:X}) is sent with handle #{have:X}, expected #{want:X}"
                     + (" (its last ATTRIB)" if cls != "other" else ""),
                     {"docid": docid, "rngkey": key, "layout": lay, "export": export, "op": "handle"})
            return


def json_check(ctx, docid, key, doc, lay, export, got):
    from ezdxf.addons.drawing import Frontend, RenderContext
    from ezdxf.addons.drawing.config import Configuration, LinePolicy, TextPolicy
    from ezdxf.addons.drawing.json import CustomJSONBackend
    from ezdxf.addons.drawing.recorder import Recorder

    layout = doc.modelspace() if lay == "msp" else doc.layout("Layout1")
    cfg = Configuration(line_policy=LinePolicy.SOLID, text_policy=TextPolicy.IGNORE)
    rep = {"docid": docid, "rngkey": key, "layout": lay, "export": export, "op": "json"}
    ctx.count("O2 json", (docid, lay, export), True)
    try:
        direct = CustomJSONBackend()
        Frontend(RenderContext(doc, export_mode=export), direct, config=cfg).draw_layout(layout)
        rec = Recorder()
        Frontend(RenderContext(doc, export_mode=export), rec, config=cfg).draw_layout(layout)
        replayed = CustomJSONBackend()
        rec.player().replay(replayed)
    except Exception as e:  # noqa
        ctx.fail(f"raise-json/{type(e).__name__}/{docid}/{lay}", f"JSON backend raised {type(e).__name__}: {e}", rep)
        return
    a, b = direct.get_json_data(), replayed.get_json_data()
    geo = [g for g in got if g["kind"] not in ("attrib", "attdef")]
    if not (len(a) == len(b) == len(geo)):
        ctx.fail(f"json/count/{docid}/{lay}", f"JSON entities direct={len(a)} replayed={len(b)} recorder={len(geo)}", rep)
        return
    kind = {"point": "point", "line": "lines", "path": "path", "curve": "path", "fill": "filled-polygon"}
    for i, (x, y, g) in enumerate(zip(a, b, geo)):
        if x["type"] != y["type"] or x["properties"] != y["properties"] or _flat(x["geometry"]) != _flat(y["geometry"]):
            ctx.fail(f"json/replay/{docid}/{lay}/{i}", f"direct JSON {str(x)[:120]} != replayed {str(y)[:120]}", rep)
            continue
        want = {"color": g["color"], "stroke-width": round(max(0.05, g["lw"]), 2), "layer": g["layer"]}
        if x["type"] != kind[g["kind"]] or x["properties"] != want:
            ctx.fail(f"json/props/{docid}/{lay}/{i}", f"JSON entity {x['type']} {x['properties']} vs recorder {g['kind']} {want}", rep)
            continue
        if g["kind"] in ("point", "line", "path", "fill"):
            flat = [v for p in g["pts"] for v in p]
            mine = [v for v in _flat(x["geometry"]) if not isinstance(v, str)]
            if g["kind"] == "fill" and len(mine) == len(flat) + 2:
                mine = mine[:-2]  # explicit closing vertex
            if mine != flat:
                ctx.fail(f"json/geom/{docid}/{lay}/{i}", f"JSON geometry {mine[:8]} vs recorder {flat[:8]}", rep)


def _flat(x):
    if isinstance(x, (list, tuple)):
        out = []
        for v in x:
            out.extend(_flat(v))
        return out
    return [x]


def _on_segment(p, a, b, tol):
    dx, dy = b[0] - a[0], b[1] - a[1]
    l2 = dx * dx + dy * dy
    if l2 == 0:
        return math.hypot(p[0] - a[0], p[1] - a[1]) <= tol
    t = ((p[0] - a[0]) * dx + (p[1] - a[1]) * dy) / l2
    if t < -1e-9 or t > 1 + 1e-9:
        return False
    return math.hypot(p[0] - (a[0] + t * dx), p[1] - (a[1] + t * dy)) <= tol


def dash_check(ctx, docid, key, desc, doc, lay, export, spec):
    """with linetype rendering switched on, every dash lies on the expected geometry and carries the same properties"""
    obs = observe(doc, lay, export, line_policy="ACCURATE")
    rep = {"docid": docid, "rngkey": key, "layout": lay, "export": export, "op": "dash"}
    ctx.count("O3 dashed", (docid, lay, export), True)
    if obs[0] == "err":
        ctx.fail(f"raise-dash/{obs[1]}/{docid}/{lay}", f"front end (LinePolicy.ACCURATE) raised {obs[1]}", rep)
        return
    got = obs[1]
    if len(got) != len(spec):
        ctx.fail(f"dash/count/{docid}/{lay}", f"LinePolicy.ACCURATE: {len(got)} records, expected {len(spec)}", rep)
        return
    for i, (g, s) in enumerate(zip(got, spec)):
        if shear_fallback(s["path"]):
            continue  # F20: properties below an exploded (sheared) nested INSERT are reported by O1
        if (g["color"], g["layer"], g["ltype"]) != (s["color"], s["layer"], s["ltype"]):
            ctx.fail(f"dash/props/{docid}/{lay}/{i}", f"LinePolicy.ACCURATE primitive {i}: properties differ", rep)
        if g["kind"] != "lines" or s["kind"] not in ("line", "path"):
            continue
        ctx.hist("O3 dashed", "dashed-" + s["kind"])
        exp = [(float(x), float(y)) for x, y in s["pts"]]
        scale = 1 + max(abs(v) for p in exp for v in p)
        edges = list(zip(exp, exp[1:]))
        for p in g["pts"]:
            if not any(_on_segment(p, a, b, 1e-9 * scale) for a, b in edges):
                ctx.fail(f"dash/geom/{docid}/{lay}/{i}", f"dash end point {p} is not on the expected geometry {exp[:4]}", rep)
                break


def replay(ctx, rep):
    bad = []
    for f in rep.get("failing_inputs", []):
        r = f["replay"]
        sub = type(ctx)(ctx.pid, ctx.tier, ctx.seed)
        if r.get("op") == "matrix":
            res = matrix_case(sub, r["type"], r["hide"], None if r["hide"] == "vp-frozen" else r["route"])
            import shutil
            shutil.rmtree(sub.scratch, ignore_errors=True)
            if any(n for _, n in res):
                bad.append(f["key"])
            continue
        if r.get("op") == "viewport":
            try:
                viewport_case(sub, r["rngkey"], r)
            finally:
                import shutil
                shutil.rmtree(sub.scratch, ignore_errors=True)
            if any(x.key == f["key"] for x in sub.failures):
                bad.append(f["key"])
            continue
        try:
            desc = desc_by_id(r["docid"], r["rngkey"])
            exact = desc["mode"] in ("quarter", "safe")
            res = check_doc(sub, r["docid"], r["rngkey"], desc, r["layout"], r["export"], exact, opt=r.get("opt"))
            if res is not None:
                doc, got, spec = res
                if r.get("op") == "handle":
                    handle_check(sub, r["docid"], r["rngkey"], desc, doc, r["layout"], r["export"], got, spec)
                if r.get("op") == "json":
                    json_check(sub, r["docid"], r["rngkey"], doc, r["layout"], r["export"], got)
                if r.get("op") == "dash":
                    dash_check(sub, r["docid"], r["rngkey"], desc, doc, r["layout"], r["export"], spec)
        finally:
            import shutil

            shutil.rmtree(sub.scratch, ignore_errors=True)
        if any(x.key == f["key"] for x in sub.failures):
            bad.append(f["key"])
    return (not bad, "still failing: " + "; ".join(bad) if bad else "all recorded failing inputs pass now")

"""C18  The drawing front end renders what the document defines (DESIGN.md section 7, C18)."""
from __future__ import annotations

import math
import zlib
from fractions import Fraction as Fr

from leanfmt import lean_list

ID = "C18"
LEAN_MODULES = ["EzdxfVerif.Props.C18"]
DRIVER_DEPS = ["EzdxfVerif.Model.Render", "EzdxfVerif.Gen.RenderTables", "Drivers.Proto"]
RULE = (
    "correspondence: seeded generator documents built through the public ezdxf API (LINE, POINT, LWPOLYLINE, SOLID, CIRCLE, "
    "ATTDEF in blocks, INSERT with ATTRIBs, EMPTY block definitions referenced before other entities; random layer tables with off/frozen/locked/no-plot/true-color/transparent layers and "
    "boundary ACI values, mixed-case and undefined layer references; BYLAYER/BYBLOCK/BYOBJECT/explicit ACI, true color, "
    "transparency, linetype, lineweight, invisible flag on every nesting level; nesting depth <= 4; INSERT translations, "
    "positive/negative/non-uniform scales, rotations by multiples of 90 degrees, extrusion (0,0,-1), block base points; "
    "modelspace and paperspace, export_mode on/off; plus cyclic and dangling block references as error classes). "
    "X1 draw: Frontend(RenderContext(doc), Recorder-probe, line_policy=SOLID, text_policy=IGNORE).draw_layout(layout) -> "
    "Player.recordings() canonicalised (kind, #rrggbb[aa], pen, layer, linetype name, lineweight as fraction, coordinates rounded "
    "to the 2^-12 grid and required to be within 1e-6 of it; exception class for errors) vs. the Lean model's drawLayout on the "
    "same document, which must also end with the initial state stack. X2 spec: the same observation vs. Spec.flatten of the Lean "
    "block tree (unfold) for every document ('no-tree' when a bad reference hides below an invisible INSERT). X3 reach: the model's validity "
    "predicate (hypothesis of draw_total) vs. a graph walk of the harness (acyclic and closed). "
    "non-trivial = the layout has a visible INSERT; distinct by hash of the request line. "
    "oracle O1: the real front end vs. an independent pure-Python transliteration of the specification (matrix product along the "
    "path, DXF inheritance rules): exact for quarter-turn documents, |d| <= 1e-9(1+|x|) for general rotation angles; "
    "circles by center and by the radius of every flattened vertex under the inverse composed map; never raises for audited "
    "documents; state stack empty afterwards. O2: CustomJSONBackend output (direct and via Player.replay) vs. the recorder "
    "primitives. O3: LinePolicy.ACCURATE: every dash lies on the expected transformed geometry, same properties. "
    "O4: BackendProperties.handle is the handle of the top level entity."
)
TRUSTED_BASE = [
    "entity.transform(m) of LINE/POINT/LWPOLYLINE/SOLID/ATTRIB maps the defining points by m (C12's subject; tied here by the correspondence stream)",
    "CIRCLE/ELLIPSE path construction is not modelled: the model emits the transformed center only, the oracle checks the curve under tolerance",
    "default plot style table (acadctb.new_ctb: every entry OBJECT_LINEWEIGHT/OBJECT_LINETYPE, AutoCAD default palette) - tabulated into Gen/RenderTables on every run",
    "the model's vector norm is |x|+|y| and equals the Euclidean norm only for axis-aligned vectors: the Lean model covers rotations by multiples of 90 degrees (explicit predicates AxisUnit / Monomial / InsUniform in the theorems); general angles are covered by the oracle only",
    "ASCII layer / linetype / block names (str.lower/upper modelled for ASCII)",
]
ASSUMPTIONS = [
    "documents of the generator: non-text geometry, nesting depth <= 4, extrusion (0,0,+-1), z = 0, zscale = 1, no MINSERT, no XCLIP, no redraw order table, $PDMODE = 0",
    "Configuration(line_policy=SOLID, text_policy=IGNORE) for the correspondence stream (linetype pattern rendering and text pipelines are outside the model)",
]
OPEN = [
    "draw_eq_spec is proved at full strength for the modelled class: acyclic closed documents whose references are rotated by multiples of 90 degrees with non-zero scale factors (no uniformity hypothesis since fix 603b8b3fe); general rotation angles are oracle-only, and for them finding F20 (explode fall-back for sheared nested INSERTs drops the nested reference's state) remains",
    "linetype pattern rendering, text/hatch/viewport pipelines, clipping (XCLIP), CTB overrides, MINSERT: not modelled",
    "BackendProperties.handle is not modelled (oracle O4 only)",
]

GRID = 4096
BYBLOCK_T = 0x01000000


# ====================================================================== regenerate
def regenerate(ctx):
    srcs = [
        "src/ezdxf/addons/drawing/properties.py",
        "src/ezdxf/addons/drawing/frontend.py",
        "src/ezdxf/lldxf/const.py",
        "src/ezdxf/colors.py",
        "src/ezdxf/addons/acadctb.py",
        "src/ezdxf/entities/layer.py",
    ]
    for s in srcs:
        ctx.src(s)
    for s in ("src/ezdxf/entities/insert.py", "src/ezdxf/explode.py", "src/ezdxf/math/transformtools.py",
              "src/ezdxf/addons/drawing/pipeline.py", "src/ezdxf/addons/drawing/recorder.py", "src/ezdxf/entities/solid.py",
              "src/ezdxf/path/tools.py"):
        ctx.src(s)
    from ezdxf.lldxf import const
    from ezdxf import colors
    from ezdxf.addons import acadctb
    from ezdxf.addons.drawing import properties as P
    from ezdxf.entities import Layer

    rc = P.RenderContext()
    fg = rc.current_layout_properties.default_color
    aci = []
    for i in range(256):
        if i == 0:
            aci.append(0)
            continue
        c = rc.plot_styles[i].color
        aci.append((c[0] << 16) | (c[1] << 8) | c[2])
    ctb_object = all(
        rc.plot_styles[i].lineweight == acadctb.OBJECT_LINEWEIGHT and rc.plot_styles[i].linetype == acadctb.OBJECT_LINETYPE
        for i in range(1, 256)
    )
    alpha = [P.transparency_to_alpha(colors.transparency2float(0x02000000 | a)) for a in range(256)]
    d = P.DEFAULT_LAYER_PROPERTIES
    dflt_rgb = int(d.color[1:7], 16)
    psp_fg = P.LayoutProperties("Layout1", P.PAPER_SPACE_BG_COLOR).default_color

    def b(x):
        return "true" if x else "false"

    text = f"""
namespace EzdxfVerif.Gen.RenderTables

/-- const.BYLAYER / BYBLOCK / BYOBJECT -/
def BYLAYER : Int := {const.BYLAYER}
def BYBLOCK : Int := {const.BYBLOCK}
def BYOBJECT : Int := {const.BYOBJECT}
/-- const.LINEWEIGHT_BYLAYER / _BYBLOCK / _DEFAULT -/
def LINEWEIGHT_BYLAYER : Int := ({const.LINEWEIGHT_BYLAYER})
def LINEWEIGHT_BYBLOCK : Int := ({const.LINEWEIGHT_BYBLOCK})
def LINEWEIGHT_DEFAULT : Int := ({const.LINEWEIGHT_DEFAULT})
def TRANSPARENCY_BYBLOCK : Nat := {const.TRANSPARENCY_BYBLOCK}
/-- RenderContext.default_lineweight() * 100 and the minimum returned by resolve_lineweight * 100 -/
def defaultLineweight100 : Nat := {round(rc.default_lineweight() * 100)}
def defaultLineweightExact : Bool := {b(rc.default_lineweight() * 100 == round(rc.default_lineweight() * 100))}
/-- Layer.FROZEN, Layer.LOCK bit masks -/
def layerFrozenMask : Nat := {Layer.FROZEN}
def layerLockMask : Nat := {Layer.LOCK}
/-- `RenderContext().plot_styles[aci].color` as 0xRRGGBB for aci 1..255 (entry 0 unused) -/
def aciRgb : List Nat := {lean_list(str(x) for x in aci)}
/-- every entry of the default plot style table has OBJECT_LINEWEIGHT and OBJECT_LINETYPE -/
def ctbAllObject : Bool := {b(ctb_object)}
/-- transparency_to_alpha(transparency2float(0x02000000 | a)) for a in 0..255 -/
def layerAlpha : List Nat := {lean_list(str(x) for x in alpha)}
/-- default foreground colors of the modelspace and of a paperspace layout -/
def mspFg : Nat := {int(fg[1:7], 16)}
def pspFg : Nat := {int(psp_fg[1:7], 16)}
/-- DEFAULT_LAYER_PROPERTIES: color, pen, linetype name, lineweight*100, has_aci_color_7, is_visible -/
def dfltLayerRgb : Nat := {dflt_rgb}
def dfltLayerAlphaLen : Nat := {len(d.color) - 7}
def dfltLayerPen : Int := {d.pen}
def dfltLayerLinetype : String := "{d.linetype_name}"
def dfltLayerLineweight100 : Nat := {round(d.lineweight * 100)}
def dfltLayerAci7 : Bool := {b(d.has_aci_color_7)}
def dfltLayerVisible : Bool := {b(d.is_visible)}
def dfltLayerName : String := "{d.layer}"

end EzdxfVerif.Gen.RenderTables
"""
    ctx.write_gen("RenderTables", text, srcs)


# ====================================================================== abstract documents
Q = Fr(1, 4)
LAYER_SPECS = [
    # name, color, true_color, transparency(float|None), linetype, lineweight, off, frozen, locked, plot
    ("Walls", 1, None, None, "DASHED", 50, False, False, False, 1),
    ("DOORS", 7, None, None, "Continuous", -3, False, False, True, 1),
    ("hidden_off", 3, None, None, "CENTER", 13, True, False, False, 1),
    ("Frozen", 4, None, None, "Continuous", 25, False, True, False, 1),
    ("NoPlot", 5, None, None, "DOT", 0, False, False, False, 0),
    ("TC", 6, 0x1A2B3C, None, "DASHDOT", 211, False, False, False, 1),
    ("Alpha", 30, None, 0.5, "Continuous", 5, False, False, False, 1),
    ("OffTC", 7, 0x00FF10, 0.2, "DASHED", 100, True, False, True, 1),
]
LINETYPES = ["BYLAYER", "BYBLOCK", "Continuous", "DASHED", "center", "ByLayer", "byblock", "DOT"]
LINEWEIGHTS = [-1, -2, -3, 0, 5, 13, 25, 50, 100, 211]
TRANSP = [None, None, None, BYBLOCK_T, 0x02000000, 0x0200007F, 0x020000FE, 0x020000FF]
SCALES = [Fr(1), Fr(1), Fr(-1), Fr(2), Fr(-2), Fr(1, 2), Fr(-1, 2), Fr(3)]


def _case_variant(rng, name):
    r = rng.random()
    if name == "0" or r < 0.6:
        return name
    if r < 0.8:
        return name.upper()
    return name.lower()


def gen_props(rng, layers, inside):
    """entity properties; `inside` biases towards layer 0 / BYBLOCK"""
    r = rng.random()
    if r < (0.35 if inside else 0.15):
        layer = "0"
    elif r < 0.93:
        layer = _case_variant(rng, rng.choice(layers))
    else:
        layer = "Undefined"
    r = rng.random()
    if r < 0.3:
        color = 256
    elif r < (0.55 if inside else 0.4):
        color = 0
    elif r < 0.6:
        color = 257
    elif r < 0.7:
        color = 7
    else:
        color = rng.choice([1, 2, 3, 5, 6, 8, 9, 30, 141, 250, 254, 255])
    return {
        "layer": layer,
        "color": color,
        "true_color": rng.choice([0x102030, 0xFF00FF, 0x000000, 0xFFFFFF]) if rng.random() < 0.15 else None,
        "linetype": rng.choice(LINETYPES) if rng.random() < 0.6 else "BYLAYER",
        "lineweight": rng.choice(LINEWEIGHTS) if rng.random() < 0.6 else -1,
        "invisible": 1 if rng.random() < 0.1 else 0,
        "transparency": rng.choice(TRANSP),
    }


def _pt(rng, span=6):
    return (Q * rng.randint(-4 * span, 4 * span), Q * rng.randint(-4 * span, 4 * span))


def gen_leaf(rng, layers, inside, allow_attdef):
    kinds = ["LINE", "LINE", "POINT", "LWPOLYLINE", "SOLID", "CIRCLE"] + (["ATTDEF"] if allow_attdef else [])
    t = rng.choice(kinds)
    e = {"t": t, **gen_props(rng, layers, inside)}
    if t == "LINE":
        e["pts"] = [_pt(rng), _pt(rng)]
    elif t in ("POINT", "ATTDEF"):
        e["pts"] = [_pt(rng)]
        if t == "POINT" and rng.random() < 0.08:
            e["layer"] = rng.choice(["Defpoints", "DEFPOINTS"])
    elif t == "LWPOLYLINE":
        n = rng.choice([1, 2, 2, 3, 4, 5])
        pts = [_pt(rng) for _ in range(n)]
        if n > 1 and rng.random() < 0.15:
            pts[-1] = pts[0]
        if n > 2 and rng.random() < 0.1:
            pts[1] = pts[0]
        e["pts"] = pts
        e["closed"] = rng.random() < 0.5
    elif t == "SOLID":
        pts = [_pt(rng) for _ in range(4)]
        if rng.random() < 0.3:
            pts[3] = pts[2]
        e["pts"] = pts
    elif t == "CIRCLE":
        e["pts"] = [_pt(rng)]
        e["r"] = Q * rng.randint(1, 12)
    return e


def gen_insert(rng, layers, inside, target, mode):
    """mode: 'quarter' | 'safe' (lawful nesting) | 'angle' (general angles, uniform scales) | 'angle-any'"""
    e = {"t": "INSERT", **gen_props(rng, layers, inside), "name": target}
    e["pos"] = _pt(rng, 8)
    sx = rng.choice(SCALES)
    sy = rng.choice(SCALES)
    if mode in ("safe", "angle") or rng.random() < 0.5:
        sy = sx if rng.random() < 0.5 else -sx
    e["sx"], e["sy"] = sx, sy
    if mode in ("angle", "angle-any"):
        e["rot"] = rng.choice([0.0, 30.0, 45.0, 90.0, 123.456, -77.25, 200.5, 359.0, 180.0])
    else:
        e["rot"] = 90.0 * rng.choice([0, 0, 1, 2, 3])
    e["flip"] = rng.random() < 0.15
    e["attribs"] = []
    for _ in range(rng.choice([0, 0, 0, 1, 2])):
        a = gen_props(rng, layers, True)
        a["pos"] = _pt(rng, 8)
        a["flag"] = 1 if rng.random() < 0.15 else 0
        e["attribs"].append(a)
    return e


def gen_doc(rng, mode="quarter", depth=None):
    """abstract document: layers, blocks in levels (level k inserts only lower levels -> acyclic), two layouts"""
    nl = rng.randint(2, len(LAYER_SPECS))
    specs = rng.sample(LAYER_SPECS, nl)
    # half of the layers keep the hand-written profile, the others get random properties (boundary ACI values,
    # true colour with ACI 7, transparency 0 / 1, every flag combination)
    for k in range(nl):
        if rng.random() < 0.5:
            specs[k] = (
                specs[k][0],
                rng.choice([1, 7, 7, 255, 254, 8, 9, 250, 30, 2]),
                rng.choice([0x1A2B3C, 0xFFFFFF, 0x000001]) if rng.random() < 0.25 else None,
                rng.choice([None, None, 0.0, 0.5, 0.2, 1.0, 0.996]),
                rng.choice(["Continuous", "DASHED", "CENTER", "DOT", "DASHDOT"]),
                rng.choice([-3, 0, 5, 13, 25, 50, 100, 211]),
                rng.random() < 0.15, rng.random() < 0.15, rng.random() < 0.2, 0 if rng.random() < 0.15 else 1,
            )
    layer_names = [s[0] for s in specs] + ["Defpoints"]
    depth = depth if depth is not None else rng.choice([1, 2, 2, 3, 3, 4])
    blocks, by_level = [], {}
    for lvl in range(depth):
        for k in range(rng.choice([1, 1, 2])):
            name = f"{rng.choice(['Blk', 'PART', 'sym'])}_{lvl}_{k}"
            ents = []
            for _ in range(rng.randint(1, 3)):
                ents.append(gen_leaf(rng, layer_names, True, True))
            if lvl > 0:
                for _ in range(rng.choice([1, 1, 2])):
                    tl = lvl - 1 if rng.random() < 0.75 else rng.randrange(lvl)
                    tgt = rng.choice(by_level[tl])
                    ents.append(gen_insert(rng, layer_names, True, _case_variant(rng, tgt), mode))
            rng.shuffle(ents)
            base = _pt(rng, 2) if rng.random() < 0.3 else (Fr(0), Fr(0))
            blocks.append({"name": name, "base": base, "ents": ents})
            by_level.setdefault(lvl, []).append(name)
    # EMPTY block definitions and references to them (no attribs), placed anywhere - also first - in blocks and layouts:
    # a reference that draws nothing must still leave the block-reference state as it found it
    empties = []
    if rng.random() < 0.45:
        for k in range(rng.choice([1, 1, 2])):
            name = f"Empty_{k}"
            blocks.insert(rng.randrange(len(blocks) + 1), {"name": name, "base": (Fr(0), Fr(0)), "ents": []})
            empties.append(name)
        for b in blocks:
            if b["name"] not in empties and rng.random() < 0.5:
                e = gen_insert(rng, layer_names, True, _case_variant(rng, rng.choice(empties)), mode)
                e["attribs"] = []
                b["ents"].insert(rng.choice([0, 0, rng.randrange(len(b["ents"]) + 1)]), e)
    layouts = {}
    for lay in ("msp", "psp"):
        ents = []
        for _ in range(rng.randint(0, 2)):
            ents.append(gen_leaf(rng, layer_names, False, False))
        for _ in range(rng.randint(1, 2) if lay == "msp" else rng.randint(0, 1)):
            lvl = depth - 1 if rng.random() < 0.7 else rng.randrange(depth)
            ents.append(gen_insert(rng, layer_names, False, rng.choice(by_level[lvl]), mode))
        rng.shuffle(ents)
        if empties and rng.random() < 0.7:
            e = gen_insert(rng, layer_names, False, rng.choice(empties), mode)
            e["attribs"] = []
            if rng.random() < 0.5:
                e["layer"] = rng.choice(layer_names)  # often a hidden layer: later layer-0 content must not vanish
            ents.insert(rng.choice([0, 0, rng.randrange(len(ents) + 1)]), e)
        layouts[lay] = ents
    zero = {"color": rng.choice([7, 7, 2, -7, 251, 255, 1]), "linetype": rng.choice(["Continuous", "DASHED"]),
            "lineweight": rng.choice([-3, 25, 35]), "true_color": 0x334455 if rng.random() < 0.1 else None}
    return {"mode": mode, "layers": specs, "zero": zero, "blocks": blocks, "layouts": layouts}


def special_docs():
    """hand-written documents: the defect witness, cycles, dangling references, deep BYBLOCK chains"""
    P0 = {"layer": "0", "color": 256, "true_color": None, "linetype": "BYLAYER", "lineweight": -1, "invisible": 0, "transparency": None}
    Z = (Fr(0), Fr(0))

    def line(a, b, **kw):
        return {"t": "LINE", **P0, **kw, "pts": [a, b]}

    def ins(name, pos=Z, sx=1, sy=1, rot=0.0, flip=False, **kw):
        return {"t": "INSERT", **P0, **kw, "name": name, "pos": pos, "sx": Fr(sx), "sy": Fr(sy), "rot": rot, "flip": flip, "attribs": []}

    zero = {"color": 7, "linetype": "Continuous", "lineweight": -3, "true_color": None}
    docs = []
    # F18 witness: INNER rotated by 90 degrees inside OUTER scaled (2, 1)
    docs.append(("witness", {"mode": "quarter", "layers": [], "zero": zero, "blocks": [
        {"name": "INNER", "base": Z, "ents": [line(Z, (Fr(1), Fr(0))), line(Z, (Fr(0), Fr(1)))]},
        {"name": "OUTER", "base": Z, "ents": [ins("INNER", rot=90.0)]}],
        "layouts": {"msp": [ins("OUTER", sx=2, sy=1)], "psp": []}}))
    # BYBLOCK chain of depth 4 with explicit color only at the top
    chain = [{"name": "C0", "base": Z, "ents": [line(Z, (Fr(1), Fr(1)), color=0, linetype="BYBLOCK", lineweight=-2)]}]
    for i in range(1, 4):
        chain.append({"name": f"C{i}", "base": Z, "ents": [ins(f"C{i-1}", pos=(Fr(1), Fr(0)), color=0, linetype="BYBLOCK", lineweight=-2)]})
    docs.append(("byblock-chain", {"mode": "quarter", "layers": [LAYER_SPECS[0]], "zero": zero, "blocks": chain,
                                   "layouts": {"msp": [ins("C3", color=3, linetype="DASHED", lineweight=50, layer="Walls")],
                                               "psp": [ins("C3", color=0, linetype="BYBLOCK", lineweight=-2)]}}))
    # reference to an EMPTY block before layer-0 / BYBLOCK content, at top level and as a sibling inside a block
    docs.append(("empty-block", {"mode": "quarter", "layers": [LAYER_SPECS[0], LAYER_SPECS[2]], "zero": zero, "blocks": [
        {"name": "EMPTY", "base": Z, "ents": []},
        {"name": "PART", "base": Z, "ents": [ins("EMPTY", layer="Walls", color=3, lineweight=70),
                                             line(Z, (Fr(1), Fr(1)), color=0, lineweight=-2)]}],
        "layouts": {"msp": [line(Z, (Fr(5), Fr(0))), ins("EMPTY", layer="hidden_off"), line((Fr(0), Fr(1)), (Fr(5), Fr(1))),
                            ins("PART", pos=(Fr(0), Fr(3)), layer="DOORS", color=4, lineweight=30),
                            line((Fr(0), Fr(2)), (Fr(5), Fr(2)), color=0, linetype="BYBLOCK", lineweight=-2)],
                    "psp": [ins("EMPTY", color=1), ins("PART", color=0), line(Z, (Fr(1), Fr(0)), color=0)]}}))
    # cycle and dangling reference
    docs.append(("cycle", {"mode": "quarter", "layers": [], "zero": zero, "blocks": [
        {"name": "A", "base": Z, "ents": [line(Z, (Fr(1), Fr(0))), ins("B")]},
        {"name": "B", "base": Z, "ents": [ins("A", pos=(Fr(1), Fr(1)))]}],
        "layouts": {"msp": [ins("A")], "psp": [line(Z, (Fr(1), Fr(0)))]}}))
    docs.append(("self-cycle", {"mode": "quarter", "layers": [], "zero": zero, "blocks": [
        {"name": "A", "base": Z, "ents": [ins("a", pos=(Fr(1), Fr(1)))]}],
        "layouts": {"msp": [ins("A", invisible=1), line(Z, (Fr(2), Fr(0)))], "psp": [ins("A")]}}))
    docs.append(("dangling", {"mode": "quarter", "layers": [], "zero": zero, "blocks": [
        {"name": "A", "base": Z, "ents": [line(Z, (Fr(1), Fr(0))), ins("NOPE")]}],
        "layouts": {"msp": [ins("A")], "psp": [ins("NOPE", invisible=1), line(Z, (Fr(1), Fr(0)))]}}))
    return docs


# ====================================================================== build through the public API
def _attribs(p, extra=None):
    d = {"layer": p["layer"], "color": p["color"], "linetype": p["linetype"], "lineweight": p["lineweight"]}
    if p["invisible"]:
        d["invisible"] = 1
    if p["true_color"] is not None:
        d["true_color"] = p["true_color"]
    if p["transparency"] is not None:
        d["transparency"] = p["transparency"]
    # leave defaults unset half of the time so that the hasattr()/default paths are exercised
    for k, dv in (("color", 256), ("linetype", "BYLAYER"), ("lineweight", -1)):
        if d[k] == dv and (zlib.crc32((p["layer"] + k).encode()) & 1):
            del d[k]
    if extra:
        d.update(extra)
    return d


def _f(p):
    return (float(p[0]), float(p[1]))


def _add_entity(layout, e):
    t = e["t"]
    if t == "LINE":
        layout.add_line(_f(e["pts"][0]), _f(e["pts"][1]), dxfattribs=_attribs(e))
    elif t == "POINT":
        layout.add_point(_f(e["pts"][0]), dxfattribs=_attribs(e))
    elif t == "LWPOLYLINE":
        layout.add_lwpolyline([_f(p) for p in e["pts"]], close=e["closed"], dxfattribs=_attribs(e))
    elif t == "SOLID":
        layout.add_solid([_f(p) for p in e["pts"]], dxfattribs=_attribs(e))
    elif t == "CIRCLE":
        layout.add_circle(_f(e["pts"][0]), float(e["r"]), dxfattribs=_attribs(e))
    elif t == "ATTDEF":
        layout.add_attdef("TAG", _f(e["pts"][0]), "dflt", dxfattribs=_attribs(e))
    elif t == "INSERT":
        extra = {"xscale": float(e["sx"]), "yscale": float(e["sy"]), "rotation": e["rot"]}
        if e["flip"]:
            extra["extrusion"] = (0, 0, -1)
        ins = layout.add_blockref(e["name"], _f(e["pos"]), dxfattribs=_attribs(e, extra))
        for a in e["attribs"]:
            at = ins.add_attrib("TAG", "txt", _f(a["pos"]), dxfattribs=_attribs(a))
            if a["flag"]:
                at.is_invisible = True
    else:
        raise ValueError(t)


def build(desc):
    import ezdxf

    doc = ezdxf.new("R2010", setup=True)
    for name, color, tc, transp, lt, lw, off, frozen, locked, plot in desc["layers"]:
        kw = {"color": color, "linetype": lt, "lineweight": lw, "plot": bool(plot)}
        if tc is not None:
            kw["true_color"] = tc
        if transp is not None:
            kw["transparency"] = transp
        layer = doc.layers.add(name, **kw)
        if off:
            layer.off()
        if frozen:
            layer.freeze()
        if locked:
            layer.lock()
    z = doc.layers.get("0")
    z.dxf.color = desc["zero"]["color"]
    z.dxf.linetype = desc["zero"]["linetype"]
    z.dxf.lineweight = desc["zero"]["lineweight"]
    if desc["zero"]["true_color"] is not None:
        z.dxf.true_color = desc["zero"]["true_color"]
    for b in desc["blocks"]:
        doc.blocks.new(b["name"], base_point=_f(b["base"]))
    for b in desc["blocks"]:
        blk = doc.blocks.get(b["name"])
        for e in b["ents"]:
            _add_entity(blk, e)
    msp = doc.modelspace()
    for e in desc["layouts"]["msp"]:
        _add_entity(msp, e)
    psp = doc.layout("Layout1")
    for e in desc["layouts"]["psp"]:
        _add_entity(psp, e)
    return doc


# ====================================================================== observation of the real front end
def _probe_class():
    from ezdxf.addons.drawing.recorder import Recorder

    class Probe(Recorder):
        """Recorder + the resolved Properties handed to enter_entity (linetype name is not part of BackendProperties)"""

        def __init__(self):
            super().__init__()
            self.cur = None
            self.tags = []  # parallel to self.records: (dxftype, linetype_name)

        def enter_entity(self, entity, properties):
            from ezdxf.addons.drawing.recorder import PointsRecord
            from ezdxf.npshapes import NumpyPoints2d
            from ezdxf.addons.drawing.properties import BackendProperties

            t = entity.dxftype()
            self.cur = (t, properties.linetype_name)
            if t in ("ATTRIB", "ATTDEF"):
                # text pipeline is switched off: record the entity as a pseudo primitive at its WCS insert point
                p = entity.ocs().to_wcs(entity.dxf.insert)
                rec = PointsRecord(NumpyPoints2d((p.vec2,)))
                self.store(rec, BackendProperties(properties.color, properties.lineweight, properties.layer, properties.pen, ""))
                self.tags[-1] = (t, properties.linetype_name, "text")

        def store(self, record, properties):
            super().store(record, properties)
            self.tags.append(self.cur + ("geom",))

    return Probe


def observe(doc, layout_name="msp", export=False, line_policy="SOLID"):
    """run the real front end; returns ('ok', [prim...], ctx) or ('err', ExceptionName).
    prim = dict(kind, color, pen, layer, ltype, lw, pts(float pairs), handle, dxftype, path)"""
    from ezdxf.addons.drawing import Frontend, RenderContext
    from ezdxf.addons.drawing.config import Configuration, LinePolicy, TextPolicy
    from ezdxf.addons.drawing.recorder import PointsRecord, PathRecord, SolidLinesRecord

    layout = doc.modelspace() if layout_name == "msp" else doc.layout("Layout1")
    rec = _probe_class()()
    cfg = Configuration(line_policy=getattr(LinePolicy, line_policy), text_policy=TextPolicy.IGNORE)
    rctx = RenderContext(doc, export_mode=export)
    try:
        Frontend(rctx, rec, config=cfg).draw_layout(layout)
    except RecursionError:
        return ("err", "RecursionError")
    except Exception as e:  # noqa
        return ("err", type(e).__name__)
    prims = []
    for (record, bp), tag in zip(rec.player().recordings(), rec.tags):
        d = {"color": bp.color, "pen": bp.pen, "layer": bp.layer, "lw": bp.lineweight, "handle": bp.handle,
             "dxftype": tag[0], "ltype": tag[1], "path": None}
        if isinstance(record, PointsRecord):
            v = record.points.vertices()
            d["pts"] = [(p.x, p.y) for p in v]
            if tag[2] == "text":
                d["kind"] = "attrib" if tag[0] == "ATTRIB" else "attdef"
            else:
                d["kind"] = "point" if len(v) == 1 else "line" if len(v) == 2 else "fill"
        elif isinstance(record, PathRecord):
            if record.path.has_curves:
                d["kind"] = "curve"
                bb = record.path.bbox()
                c = bb.center
                d["pts"] = [(c.x, c.y)]
                d["path"] = record.path
            else:
                d["kind"] = "path"
                d["pts"] = [(p.x, p.y) for p in record.path.control_vertices()]
        elif isinstance(record, SolidLinesRecord):
            d["kind"] = "lines"
            d["pts"] = [(p.x, p.y) for p in record.lines.vertices()]
        else:
            d["kind"] = type(record).__name__
            d["pts"] = []
        prims.append(d)
    return ("ok", prims, rctx)


def _grid(x):
    n = round(x * GRID)
    if abs(x * GRID - n) > 1e-6:
        return "offgrid:%r" % x
    return _rat(Fr(n, GRID))


def _rat(fr):
    fr = Fr(fr)
    return str(fr.numerator) if fr.denominator == 1 else f"{fr.numerator}/{fr.denominator}"


def canon(obs):
    """one response line of the line protocol"""
    if obs[0] == "err":
        return "err " + obs[1]
    out = []
    for p in obs[1]:
        lw = Fr(p["lw"]).limit_denominator(1000)
        pts = " ".join(_grid(x) + " " + _grid(y) for x, y in p["pts"])
        out.append(",".join([p["kind"], p["color"], str(p["pen"]), p["layer"], p["ltype"], _rat(lw), pts]))
    return "ok " + ";".join(out)


# ====================================================================== request encoding (document as the code sees it)
def _enc_props(p, sep):
    tc = -1 if p["true_color"] is None else p["true_color"]
    tr = -1 if p["transparency"] is None else p["transparency"]
    return sep.join([p["layer"], str(p["color"]), str(tc), p["linetype"], str(p["lineweight"]), str(p["invisible"]), str(tr)])


def _enc_ent(e):
    t = e["t"]
    if t == "INSERT":
        q = int(round(e["rot"] / 90.0)) % 4
        assert abs(e["rot"] - 90.0 * round(e["rot"] / 90.0)) < 1e-12, "quarter-turn documents only"
        att = "&".join(_enc_props(a, "~") + f"~{a['flag']}~{_rat(a['pos'][0])}~{_rat(a['pos'][1])}" for a in e["attribs"])
        return ",".join(["i", _enc_props(e, ","), e["name"], _rat(e["pos"][0]), _rat(e["pos"][1]), _rat(e["sx"]), _rat(e["sy"]),
                         str(q), "1" if e["flip"] else "0", att])
    kind = {"LINE": "line", "POINT": "point", "LWPOLYLINE": "pclosed" if e.get("closed") else "popen", "SOLID": "solid",
            "CIRCLE": "circle", "ATTDEF": "attdef"}[t]
    pts = " ".join(_rat(x) + " " + _rat(y) for x, y in e["pts"])
    return ",".join(["k", kind, _enc_props(e, ","), pts])


def read_layers(doc):
    """raw layer table as the document defines it (name, color, true_color, raw transparency, linetype, lineweight, flags, plot)"""
    out = []
    for layer in doc.layers:
        tc = layer.dxf.get("true_color")
        try:
            tr = layer.get_xdata("AcCmTransparency")[0].value
        except Exception:  # noqa
            tr = None
        out.append((layer.dxf.name, layer.dxf.color, -1 if tc is None else tc, -1 if tr is None else tr,
                    str(layer.dxf.linetype), layer.dxf.lineweight, layer.dxf.flags, int(layer.dxf.plot)))
    return out


def encode(desc, doc, layout_name, export):
    layers = ";".join(",".join(str(x) for x in l) for l in read_layers(doc))
    blocks = "!".join(
        f"{b['name']},{_rat(b['base'][0])},{_rat(b['base'][1])}:" + ";".join(_enc_ent(e) for e in b["ents"]) for b in desc["blocks"]
    )
    ents = ";".join(_enc_ent(e) for e in desc["layouts"][layout_name])
    return "|".join([layout_name, "1" if export else "0", layers, blocks, ents])


# ====================================================================== independent specification (oracle)
class M2:
    """2D affine map, row vector convention p' = p*L + t; numbers are Fractions or floats"""

    def __init__(self, a, b, c, d, tx, ty):
        self.v = (a, b, c, d, tx, ty)

    def apply(self, p):
        a, b, c, d, tx, ty = self.v
        return (p[0] * a + p[1] * c + tx, p[0] * b + p[1] * d + ty)

    def lin(self, p):
        a, b, c, d, _, _ = self.v
        return (p[0] * a + p[1] * c, p[0] * b + p[1] * d)

    def then(self, o):
        """first self, then o"""
        a, b, c, d, tx, ty = self.v
        r0 = o.lin((a, b))
        r1 = o.lin((c, d))
        t = o.apply((tx, ty))
        return M2(r0[0], r0[1], r1[0], r1[1], t[0], t[1])

    def inverse_apply(self, p):
        a, b, c, d, tx, ty = self.v
        det = a * d - b * c
        x, y = p[0] - tx, p[1] - ty
        return ((x * d - y * c) / det, (-x * b + y * a) / det)


IDENT = M2(1, 0, 0, 1, 0, 0)


def insert_matrix(e, base, exact):
    """what the DXF reference says an INSERT does: scale, rotate about the extrusion axis, OCS, translate, base point"""
    sx, sy = e["sx"], e["sy"]
    if exact:
        q = int(round(e["rot"] / 90.0)) % 4
        c, s = [(1, 0), (0, 1), (-1, 0), (0, -1)][q]
    else:
        sx, sy = float(sx), float(sy)
        c, s = math.cos(math.radians(e["rot"])), math.sin(math.radians(e["rot"]))
    # block coordinates -> scaled -> rotated in the OCS -> OCS to WCS (x mirrored for extrusion -Z)
    ex = -1 if e["flip"] else 1
    a, b = sx * c * ex, sx * s
    cc, d = -sy * s * ex, sy * c
    px, py = e["pos"]
    if not exact:
        px, py = float(px), float(py)
    m = M2(a, b, cc, d, 0, 0)
    bx, by = m.lin(base if exact else (float(base[0]), float(base[1])))
    return M2(a, b, cc, d, ex * px - bx, py - by)


def _hex(rgb):
    return "#%06x" % rgb


class SpecCtx:
    def __init__(self, layers, fg, export, aci_rgb):
        self.fg = fg
        self.aci = aci_rgb
        self.layers = {}
        for name, color, tc, tr, lt, lw, flags, plot in layers:
            if tc >= 0:
                col = _hex(tc & 0xFFFFFF)
            else:
                a = abs(color)
                col = fg if (a == 7 or a < 1 or a > 255) else _hex(aci_rgb[a])
            alpha = ""
            if tr >= 0 and (tr & 0x02000000) and (tr & 0xFF) < 255:
                alpha = "%02x" % (tr & 0xFF)
            vis = color >= 0 and not (flags & 1) and (bool(plot) or not export)
            self.layers[name.lower()] = {
                "color": col + alpha, "aci7": tc < 0 and color == 7, "pen": color, "ltype": lt.upper(),
                "lw": Fr(25, 100) if lw < 0 else Fr(lw, 100), "visible": vis,
            }

    DEFAULT = {"color": "#ffffff", "aci7": False, "pen": 7, "ltype": "CONTINUOUS", "lw": Fr(1, 4), "visible": True}

    def resolve(self, p, env, is_insert, attrib_flag=0):
        layer = p["layer"]
        if layer == "0" and env is not None:
            layer = env["layer"]
        known = self.layers.get(layer.lower())
        lp = known or self.DEFAULT
        # color
        if p["true_color"] is not None:
            col = _hex(p["true_color"] & 0xFFFFFF)
        elif p["color"] == 256:
            col = self.fg if lp["aci7"] else lp["color"][:7]
        elif p["color"] == 0:
            col = self.fg if env is None else env["color"][:7]
        elif p["color"] == 7 or not (0 < p["color"] < 256):
            col = self.fg
        else:
            col = _hex(self.aci[p["color"]])
        tr = p["transparency"]
        if tr == BYBLOCK_T:
            alpha = "" if env is None else env["color"][7:]
        elif tr is None:
            alpha = lp["color"][7:]
        else:
            alpha = "%02x" % (tr & 0xFF) if (tr & 0xFF) < 255 else ""
        # pen
        pen = p["color"]
        if pen == 256:
            pen = lp["pen"]
        elif pen == 0:
            pen = 7 if env is None else env["pen"]
        elif pen == 257:
            pen = 7
        # linetype
        lt = p["linetype"].upper()
        if lt == "BYLAYER":
            lt = lp["ltype"]
        elif lt == "BYBLOCK":
            lt = "STANDARD" if env is None else env["ltype"]
        # lineweight
        lw = p["lineweight"]
        if lw == -1:
            w = lp["lw"]
        elif lw == -2:
            w = Fr(1, 4) if env is None else env["lw"]
        elif lw == -3:
            w = Fr(1, 4)
        else:
            w = Fr(lw, 100)
        w = max(Fr(1, 100), w)
        if is_insert:
            vis = not p["invisible"]
        else:
            vis = not (known and not known["visible"]) and not p["invisible"] and not attrib_flag
        return {"layer": layer, "color": col + alpha, "pen": pen, "ltype": lt, "lw": w, "visible": vis}


def spec_flatten(desc, layout_name, layers, fg, export, aci_rgb, exact):
    """list of expected primitives; each carries the path of INSERTs that leads to it"""
    sc = SpecCtx(layers, fg, export, aci_rgb)
    blocks = {b["name"].lower(): b for b in desc["blocks"]}
    out = []

    def emit(kind, rp, pts, path, extra=None):
        out.append({"kind": kind, **rp, "pts": pts, "path": path, **(extra or {})})

    def walk(ents, env, acc, path, top):
        for e in ents:
            t = e["t"]
            if t == "INSERT":
                rp = sc.resolve(e, env, True)
                if not rp["visible"]:
                    continue
                blk = blocks[e["name"].lower()]
                for a in e["attribs"]:
                    ra = sc.resolve(a, rp, False, a["flag"])
                    if ra["visible"]:
                        emit("attrib", ra, [acc.apply(a["pos"])], path + [e])
                m = insert_matrix(e, blk["base"], exact).then(acc)
                walk(blk["ents"], rp, m, path + [e], False)
                continue
            if t == "ATTDEF" and not top:
                continue
            rp = sc.resolve(e, env, False)
            if not rp["visible"]:
                continue
            pts = [acc.apply(p) for p in e["pts"]]
            if t == "LINE":
                emit("line", rp, pts, path)
            elif t == "POINT":
                if rp["layer"].lower() != "defpoints":
                    emit("point", rp, pts, path)
            elif t == "ATTDEF":
                emit("attdef", rp, pts, path)
            elif t == "LWPOLYLINE":
                if len(pts) >= 2:
                    if e["closed"] and pts[-1] != pts[0]:
                        pts = pts + [pts[0]]
                    emit("path", rp, pts, path)
            elif t == "SOLID":
                if pts[3] != pts[2]:
                    pts = [pts[0], pts[1], pts[3], pts[2]]
                else:
                    pts = pts[:3]
                emit("fill", rp, pts, path)
            elif t == "CIRCLE":
                emit("curve", rp, pts, path, {"m": acc, "c": e["pts"][0], "r": e["r"]})

    walk(desc["layouts"][layout_name], None, IDENT, [], True)
    return out


def shear_fallback(path):
    """remaining finding F20: the composed matrix of an INSERT below its ancestors is a shear (rotation that is not a multiple
    of 90 degrees below a non-uniform scale): Insert.transform raises InsertTransformationError and
    virtual_block_reference_entities falls back to exploding the nested INSERT, which drops its block-reference state"""
    acc = IDENT
    zero = (0.0, 0.0)
    for j, e in enumerate(path):
        m = insert_matrix(e, zero, False)
        if j > 0:
            a, b, c, d, _, _ = m.v
            n0, n1 = math.hypot(a, b), math.hypot(c, d)
            ux = acc.lin((a / n0, b / n0))
            uy = acc.lin((c / n1, d / n1))
            dot = (ux[0] * uy[0] + ux[1] * uy[1]) / (math.hypot(*ux) * math.hypot(*uy))
            if abs(dot) > 1e-9:
                return True
        acc = m.then(acc)
    return False


def walk_paths(desc, layout_name):
    """all INSERT paths of a layout (lists of insert dicts), for acyclic closed documents"""
    blocks = {b["name"].lower(): b for b in desc["blocks"]}
    out = []

    def go(ents, path):
        for e in ents:
            if e["t"] == "INSERT":
                p = path + [e]
                out.append(p)
                if len(p) > len(blocks) + 1:
                    raise RecursionError
                go(blocks[e["name"].lower()]["ents"], p)

    go(desc["layouts"][layout_name], [])
    return out


def layout_fallback(desc, layout_name):
    try:
        return any(shear_fallback(p) for p in walk_paths(desc, layout_name))
    except (RecursionError, KeyError):
        return False


# ====================================================================== streams
_ACI = None


def aci_table():
    global _ACI
    if _ACI is None:
        from ezdxf.colors import DXF_DEFAULT_COLORS

        # the AutoCAD default palette straight from ezdxf.colors (independent of RenderContext / acadctb)
        _ACI = [c & 0xFFFFFF for c in DXF_DEFAULT_COLORS]
    return _ACI


FG = {"msp": "#ffffff", "psp": "#000000"}


def doc_stream(ctx, modes_counts):
    """yield (docid, rngkey, desc)"""
    import random

    for name, desc in special_docs():
        yield f"special/{name}", None, desc
    for mode, n in modes_counts:
        for i in range(n):
            key = f"{ctx.seed}/{ctx.pid}/doc/{mode}/{i}"
            yield f"{mode}/{i}", key, gen_doc(random.Random(key), mode)


def desc_by_id(docid, rngkey):
    import random

    if rngkey is None:
        return dict(special_docs())[docid.split("/", 1)[1]]
    return gen_doc(random.Random(rngkey), docid.split("/")[0])


def correspond(ctx):
    cases_draw, cases_spec, cases_reach = [], [], []
    nq = ctx.n(400, 6000)
    for docid, key, desc in doc_stream(ctx, [("quarter", nq), ("safe", nq // 2)]):
        doc = build(desc)
        combos = [("msp", False), ("msp", True), ("psp", False), ("psp", True)]
        if key is not None:
            r = ctx.rng("combo/" + docid)
            combos = [("msp", r.random() < 0.3), ("psp", r.random() < 0.5)]
        for lay, export in combos:
            obs = observe(doc, lay, export)
            body = encode(desc, doc, lay, export)
            resp = canon(obs)
            has_ins = any(e["t"] == "INSERT" and not e["invisible"] for e in desc["layouts"][lay])
            ctx.hist("X1 draw", "error-class" if obs[0] == "err" else ("with-insert" if has_ins else "leaf-only"))
            cases_draw.append(("draw|" + body, resp, has_ins))
            if obs[0] == "ok":
                try:
                    walk_paths(desc, lay)
                    tree = True
                except (RecursionError, KeyError):
                    tree = False  # cyclic / dangling reference below an invisible INSERT: no block tree
                ctx.hist("X2 spec", "block tree" if tree else "no block tree (draw ok: bad reference is invisible)")
                cases_spec.append(("spec|" + body, resp if tree else "no-tree", has_ins))
        # validity predicate of draw_total vs. the audit verdict
        for lay in ("msp", "psp"):
            body = encode(desc, doc, lay, False)
            try:
                paths = walk_paths(desc, lay)
                ok = True
            except (RecursionError, KeyError):
                ok = False
            cases_reach.append(("reach|" + body, "1" if ok else "0", any(e["t"] == "INSERT" for e in desc["layouts"][lay])))
    deps = ["EzdxfVerif.Model.Render", "EzdxfVerif.Gen.RenderTables", "Drivers.Proto"]
    ctx.correspond("X1 draw", "C18", cases_draw, build=deps)
    ctx.correspond("X2 spec", "C18", cases_spec)
    ctx.correspond("X3 reach", "C18", cases_reach)


def _close(a, b, tol=1e-9):
    return abs(a - b) <= tol * (1 + abs(b))


def check_doc(ctx, docid, key, desc, lay, export, exact, stream="O1 spec"):
    """the property's observable predicate on the real code for one document/layout/configuration"""
    rep = {"docid": docid, "rngkey": key, "layout": lay, "export": export}
    doc = build(desc)
    auditor = doc.audit()
    audited = not auditor.has_errors and not auditor.has_fixes
    ctx.hist(stream, "audited" if audited else "not audit-clean: skipped")
    if not audited:
        return None  # the property quantifies over documents that pass audit (audit() also repairs the document)
    obs = observe(doc, lay, export)
    ctx.count(stream, (docid, lay, export), any(e["t"] == "INSERT" for e in desc["layouts"][lay]))
    if obs[0] == "err":
        ctx.fail(f"raise/{obs[1]}/{docid}/{lay}", f"front end raised {obs[1]} for an audited document ({docid}, {lay})", rep)
        return None
    got, rctx = obs[1], obs[2]
    if rctx._saved_states or rctx.current_block_reference_properties is not None:
        ctx.fail(f"stack/{docid}/{lay}", f"block reference state stack not restored after draw_layout ({docid}, {lay})", rep)
    spec = spec_flatten(desc, lay, read_layers(doc), FG[lay], export, aci_table(), exact)
    fb = "" if exact else ("explode-fallback/" if layout_fallback(desc, lay) else "")
    if fb:
        ctx.hist(stream, "layout with a sheared nested INSERT (F20)")
    if len(got) != len(spec) or [g["kind"] for g in got] != [s["kind"] for s in spec]:
        ctx.fail(f"{fb}count/{docid}/{lay}/{int(export)}",
                 f"{docid} {lay} export={export}: drawn primitives {[g['kind'] for g in got]} expected {[s['kind'] for s in spec]}", rep)
        return None
    for i, (g, s) in enumerate(zip(got, spec)):
        fb = "" if exact else ("explode-fallback/" if shear_fallback(s["path"]) else "")
        for k in ("color", "pen", "layer", "ltype"):
            if g[k] != s[k]:
                ctx.fail(f"{fb}props/{k}/{docid}/{lay}/{int(export)}/{i}",
                         f"{docid} {lay} export={export} primitive {i} ({g['dxftype']}): {k} = {g[k]!r}, the document defines {s[k]!r}", rep)
        if abs(g["lw"] - float(s["lw"])) > 1e-12:
            ctx.fail(f"{fb}props/lineweight/{docid}/{lay}/{int(export)}/{i}",
                     f"{docid} {lay} primitive {i}: lineweight {g['lw']} expected {float(s['lw'])}", rep)
        bad = len(g["pts"]) != len(s["pts"]) or any(
            not (_close(a[0], float(b[0])) and _close(a[1], float(b[1]))) for a, b in zip(g["pts"], s["pts"]))
        if not bad and g["kind"] == "curve":
            bad = not circle_ok(g["path"], s)
        if bad:
            ctx.fail(f"geom/{docid}/{lay}/{int(export)}/{i}",
                     f"{docid} {lay} primitive {i} ({g['dxftype']} on layer {g['layer']}, nesting depth {len(s['path'])}): drawn at "
                     f"{[(round(x, 6), round(y, 6)) for x, y in g['pts'][:4]]}, world geometry is "
                     f"{[(round(float(x), 6), round(float(y), 6)) for x, y in s['pts'][:4]]}", rep)
    return doc, got, spec


def circle_ok(path, s):
    m, c, r = s["m"], (float(s["c"][0]), float(s["c"][1])), float(s["r"])
    mf = M2(*[float(v) for v in m.v])
    angles = []
    for q in path.flattening(0.01):
        p = mf.inverse_apply((q.x, q.y))
        dx, dy = p[0] - c[0], p[1] - c[1]
        if abs(math.hypot(dx, dy) - r) > 2e-3 * r:
            return False
        angles.append(math.atan2(dy, dx))
    angles.sort()
    gaps = [b - a for a, b in zip(angles, angles[1:])] + [angles[0] + math.tau - angles[-1]]
    return max(gaps) < 0.6


def oracle(ctx):
    n = ctx.n(190, 4000)
    plan = [("quarter", n), ("safe", n), ("angle", n), ("angle-any", n // 2)]
    json_every, dash_every = 3, 4
    k = 0
    for docid, key, desc in doc_stream(ctx, plan):
        exact = desc["mode"] in ("quarter", "safe")
        r = ctx.rng("ocombo/" + docid)
        combos = [("msp", False), ("psp", True)] if key is None else [("msp", r.random() < 0.3), ("psp", r.random() < 0.5)]
        for lay, export in combos:
            res = check_doc(ctx, docid, key, desc, lay, export, exact)
            if res is None:
                continue
            doc, got, spec = res
            k += 1
            handle_check(ctx, docid, key, desc, doc, lay, export, got, spec)
            if k % json_every == 0:
                json_check(ctx, docid, key, doc, lay, export, got)
            if k % dash_every == 0:
                dash_check(ctx, docid, key, desc, doc, lay, export, spec)


def handle_check(ctx, docid, key, desc, doc, lay, export, got, spec):
    """BackendProperties.handle is documented as the handle of the top level entity"""
    layout = doc.modelspace() if lay == "msp" else doc.layout("Layout1")
    tops = list(layout)
    index = {id(e): i for i, e in enumerate(desc["layouts"][lay])}
    ctx.count("O4 handle", (docid, lay, export), True)
    for i, (g, s) in enumerate(zip(got, spec)):
        if g["kind"] in ("attrib", "attdef"):
            continue
        top = index[id(s["path"][0])] if s["path"] else None
        if top is None:
            continue  # leaf entities of the layout: checked below by order
        want = tops[top].dxf.handle
        if g["handle"] != want:
            att = [a.dxf.handle for a in tops[top].attribs]
            cls = "attrib-shadows-insert" if g["handle"] in att else "other"
            ctx.fail(f"handle/{cls}/{docid}/{lay}",
                     f"{docid} {lay}: primitive {i} of INSERT #{want} is sent with handle #{g['handle']}"
                     + (" (its last ATTRIB)" if cls != "other" else ""),
                     {"docid": docid, "rngkey": key, "layout": lay, "export": export, "op": "handle"})
            return


def json_check(ctx, docid, key, doc, lay, export, got):
    from ezdxf.addons.drawing import Frontend, RenderContext
    from ezdxf.addons.drawing.config import Configuration, LinePolicy, TextPolicy
    from ezdxf.addons.drawing.json import CustomJSONBackend
    from ezdxf.addons.drawing.recorder import Recorder

    layout = doc.modelspace() if lay == "msp" else doc.layout("Layout1")
    cfg = Configuration(line_policy=LinePolicy.SOLID, text_policy=TextPolicy.IGNORE)
    rep = {"docid": docid, "rngkey": key, "layout": lay, "export": export, "op": "json"}
    ctx.count("O2 json", (docid, lay, export), True)
    try:
        direct = CustomJSONBackend()
        Frontend(RenderContext(doc, export_mode=export), direct, config=cfg).draw_layout(layout)
        rec = Recorder()
        Frontend(RenderContext(doc, export_mode=export), rec, config=cfg).draw_layout(layout)
        replayed = CustomJSONBackend()
        rec.player().replay(replayed)
    except Exception as e:  # noqa
        ctx.fail(f"raise-json/{type(e).__name__}/{docid}/{lay}", f"JSON backend raised {type(e).__name__}: {e}", rep)
        return
    a, b = direct.get_json_data(), replayed.get_json_data()
    geo = [g for g in got if g["kind"] not in ("attrib", "attdef")]
    if not (len(a) == len(b) == len(geo)):
        ctx.fail(f"json/count/{docid}/{lay}", f"JSON entities direct={len(a)} replayed={len(b)} recorder={len(geo)}", rep)
        return
    kind = {"point": "point", "line": "lines", "path": "path", "curve": "path", "fill": "filled-polygon"}
    for i, (x, y, g) in enumerate(zip(a, b, geo)):
        if x["type"] != y["type"] or x["properties"] != y["properties"] or _flat(x["geometry"]) != _flat(y["geometry"]):
            ctx.fail(f"json/replay/{docid}/{lay}/{i}", f"direct JSON {str(x)[:120]} != replayed {str(y)[:120]}", rep)
            continue
        want = {"color": g["color"], "stroke-width": round(max(0.05, g["lw"]), 2), "layer": g["layer"]}
        if x["type"] != kind[g["kind"]] or x["properties"] != want:
            ctx.fail(f"json/props/{docid}/{lay}/{i}", f"JSON entity {x['type']} {x['properties']} vs recorder {g['kind']} {want}", rep)
            continue
        if g["kind"] in ("point", "line", "path", "fill"):
            flat = [v for p in g["pts"] for v in p]
            mine = [v for v in _flat(x["geometry"]) if not isinstance(v, str)]
            if g["kind"] == "fill" and len(mine) == len(flat) + 2:
                mine = mine[:-2]  # explicit closing vertex
            if mine != flat:
                ctx.fail(f"json/geom/{docid}/{lay}/{i}", f"JSON geometry {mine[:8]} vs recorder {flat[:8]}", rep)


def _flat(x):
    if isinstance(x, (list, tuple)):
        out = []
        for v in x:
            out.extend(_flat(v))
        return out
    return [x]


def _on_segment(p, a, b, tol):
    dx, dy = b[0] - a[0], b[1] - a[1]
    l2 = dx * dx + dy * dy
    if l2 == 0:
        return math.hypot(p[0] - a[0], p[1] - a[1]) <= tol
    t = ((p[0] - a[0]) * dx + (p[1] - a[1]) * dy) / l2
    if t < -1e-9 or t > 1 + 1e-9:
        return False
    return math.hypot(p[0] - (a[0] + t * dx), p[1] - (a[1] + t * dy)) <= tol


def dash_check(ctx, docid, key, desc, doc, lay, export, spec):
    """with linetype rendering switched on, every dash lies on the expected geometry and carries the same properties"""
    obs = observe(doc, lay, export, line_policy="ACCURATE")
    rep = {"docid": docid, "rngkey": key, "layout": lay, "export": export, "op": "dash"}
    ctx.count("O3 dashed", (docid, lay, export), True)
    if obs[0] == "err":
        ctx.fail(f"raise-dash/{obs[1]}/{docid}/{lay}", f"front end (LinePolicy.ACCURATE) raised {obs[1]}", rep)
        return
    got = obs[1]
    if len(got) != len(spec):
        ctx.fail(f"dash/count/{docid}/{lay}", f"LinePolicy.ACCURATE: {len(got)} records, expected {len(spec)}", rep)
        return
    for i, (g, s) in enumerate(zip(got, spec)):
        if shear_fallback(s["path"]):
            continue  # F20: properties below an exploded (sheared) nested INSERT are reported by O1
        if (g["color"], g["layer"], g["ltype"]) != (s["color"], s["layer"], s["ltype"]):
            ctx.fail(f"dash/props/{docid}/{lay}/{i}", f"LinePolicy.ACCURATE primitive {i}: properties differ", rep)
        if g["kind"] != "lines" or s["kind"] not in ("line", "path"):
            continue
        ctx.hist("O3 dashed", "dashed-" + s["kind"])
        exp = [(float(x), float(y)) for x, y in s["pts"]]
        scale = 1 + max(abs(v) for p in exp for v in p)
        edges = list(zip(exp, exp[1:]))
        for p in g["pts"]:
            if not any(_on_segment(p, a, b, 1e-9 * scale) for a, b in edges):
                ctx.fail(f"dash/geom/{docid}/{lay}/{i}", f"dash end point {p} is not on the expected geometry {exp[:4]}", rep)
                break


def replay(ctx, rep):
    bad = []
    for f in rep.get("failing_inputs", []):
        r = f["replay"]
        sub = type(ctx)(ctx.pid, ctx.tier, ctx.seed)
        try:
            desc = desc_by_id(r["docid"], r["rngkey"])
            exact = desc["mode"] in ("quarter", "safe")
            res = check_doc(sub, r["docid"], r["rngkey"], desc, r["layout"], r["export"], exact)
            if res is not None:
                doc, got, spec = res
                if r.get("op") == "handle":
                    handle_check(sub, r["docid"], r["rngkey"], desc, doc, r["layout"], r["export"], got, spec)
                if r.get("op") == "json":
                    json_check(sub, r["docid"], r["rngkey"], doc, r["layout"], r["export"], got)
                if r.get("op") == "dash":
                    dash_check(sub, r["docid"], r["rngkey"], desc, doc, r["layout"], r["export"], spec)
        finally:
            import shutil

            shutil.rmtree(sub.scratch, ignore_errors=True)
        if any(x.key == f["key"] for x in sub.failures):
            bad.append(f["key"])
    return (not bad, "still failing: " + "; ".join(bad) if bad else "all recorded failing inputs pass now")

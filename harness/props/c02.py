"""C02  Foreign and unknown content survives load -> save unchanged (DESIGN.md section 7, C02)."""
from __future__ import annotations

import ast
import io
import os
import textwrap

from leanfmt import cps, lean_list

ID = "C02"
LEAN_MODULES = ["EzdxfVerif.Props.C02"]
DRIVER_DEPS = ["EzdxfVerif.Model.Storage", "EzdxfVerif.Gen.StorageTables", "Drivers.Proto"]
RULE = (
    "correspondence X1: generated entity tag lists (well-formed in ezdxf's order, well-formed in shuffled base-class order, "
    "malformed: foreign base-class tags, duplicate XDATA appids / app-data keys, alternative closing tags, unresolved or "
    "malformed extension dictionary groups, non-hex reactors, invalid XDATA codes, missing handle/owner, embedded objects) "
    "are loaded by the real factory.load(ExtendedTags) + post_load_hook and exported by export_dxf into a TagCollector; the "
    "Lean model answers export(load t), export(load(export(load t))), EntityWF t, BaseOrdered t and canon t for the same line; "
    "non-trivial = at least one app-data group, XDATA group or second subclass. X2: record lists through the real "
    "load_dxf_structure + the stored-section filter of Drawing._load/_load_section_dict vs the model. X3: header custom "
    "property stacks and CLASS key lists vs the real HeaderSection / ClassesSection. distinct by hash of the request line. "
    "oracle: whole files R2000..R2018 (ASCII and binary in, ASCII and binary out) = ezdxf.new() output with foreign content "
    "spliced in at tag level, through ezdxf.readfile/read -> saveas/write, both files parsed by harness/dxfparse.py and compared "
    "tag for tag; every retained pointer must resolve to the same record type; second cycle must be a fixed point."
)
TRUSTED_BASE = [
    "hand translation of DXFTagStorage.load/export_dxf, DXFEntity.export_base_class/setup_app_data, DXFNamespace handle scan, AppData/"
    "Reactors/ExtensionDict/XData containers, load_dxf_structure and the stored-section path into Model/Storage.lean (validated by the "
    "correspondence streams, not proved); the order of the export steps is regenerated from the AST of the current source",
    "tag values are opaque strings in the model: typing of values by group code (tag_compiler/dxftag) and their text/binary encoding is C03",
    "Python dict keeps the position of the first insertion on overwrite; set() + sorted(key=int(x,16)) of reactor handles (ties between "
    "different spellings of one number are resolved in hash order by CPython and are excluded from the model)",
    "harness-owned DXF parser harness/dxfparse.py (shares no code with ezdxf)",
]
ASSUMPTIONS = [
    "int(x, 16) is modelled for [0-9A-Fa-f]+ only (no sign, whitespace, underscore, 0x prefix)",
    "options.filter_invalid_xdata_group_codes and options.load_proxy_graphics have their default value True",
    "the managed sections (HEADER..OBJECTS, ACDSDATA) are an opaque parameter of the document-level model; their content is the "
    "subject of C01/C04, the oracle here checks the foreign content inside them on the real code only",
]
OPEN = [
    "TableHead and XRecord are tied by the AST-extracted statement order and a payload mini model (stream X4) only; the rest of "
    "their attribute handling is oracle-only",
    "storage_idempotent is proved for EntityWF inputs in any base-class order; for malformed inputs the fixed point property is "
    "checked by the correspondence stream (model and code) only",
    "proxy graphic decoding, ACDSDATA record internals, CLASS attribute loading and header variable values are oracle-only",
]

SRC_ENTITY = "src/ezdxf/entities/dxfentity.py"
SRC_DOC = "src/ezdxf/document.py"
SRC_CONST = "src/ezdxf/lldxf/const.py"
SRC_TYPES = "src/ezdxf/lldxf/types.py"
SRC_SECT = "src/ezdxf/sections/entities.py"
SRC_HEADER = "src/ezdxf/sections/header.py"
SRCS = [SRC_ENTITY, SRC_DOC, SRC_CONST, SRC_TYPES, SRC_SECT, SRC_HEADER,
        "src/ezdxf/entities/appdata.py", "src/ezdxf/entities/xdata.py", "src/ezdxf/entities/xdict.py",
        "src/ezdxf/entities/dxfns.py", "src/ezdxf/lldxf/extendedtags.py", "src/ezdxf/lldxf/loader.py",
        "src/ezdxf/sections/classes.py", "src/ezdxf/lldxf/repair.py", "src/ezdxf/entities/table.py", "src/ezdxf/entities/dxfobj.py"]


# ------------------------------------------------------------------ regenerate: tables and export-order kernels from the source
def _func(tree: ast.AST, cls: str | None, name: str) -> ast.FunctionDef:
    for node in ast.walk(tree):
        if cls is None and isinstance(node, ast.FunctionDef) and node.name == name:
            return node
        if isinstance(node, ast.ClassDef) and node.name == cls:
            for sub in node.body:
                if isinstance(sub, ast.FunctionDef) and sub.name == name:
                    return sub
    raise ValueError(f"function {cls}.{name} not found")


def _body(fn: ast.FunctionDef) -> list[ast.stmt]:
    body = list(fn.body)
    if body and isinstance(body[0], ast.Expr) and isinstance(body[0].value, ast.Constant) and isinstance(body[0].value.value, str):
        body = body[1:]
    return body


def _tokens(stmts, table: dict[str, str], where: str) -> list[str]:
    """map every statement (normalised by ast.unparse) to a token of the model; anything unknown aborts the translation"""
    out = []
    for st in stmts:
        txt = ast.unparse(st)
        if txt not in table:
            raise ValueError(f"{where}: statement outside the translated subset: {txt!r}")
        tok = table[txt]
        if tok:
            out.append(tok)
    return out


BASE_STMTS = {
    "tagwriter.write_tag2(_handle_code, self.dxf.handle)": "handle",
    "if self.appdata:\n    self.appdata.export_dxf(tagwriter)": "appdata",
    "if self.has_extension_dict:\n    self.extension_dict.export_dxf(tagwriter)": "xdict",
    "if self.reactors:\n    self.reactors.export_dxf(tagwriter)": "reactors",
    "tagwriter.write_tag2(const.OWNER_CODE, self.dxf.get('owner', '0'))": "owner",
}
ENTITY_STMTS = {
    "if tagwriter.dxfversion < self.MIN_DXF_VERSION_FOR_EXPORT:\n    return": "",
    "if not self.preprocess_export(tagwriter):\n    return": "",
    "self.export_base_class(tagwriter)": "base",
    "self.export_entity(tagwriter)": "entity",
    "self.export_xdata(tagwriter)": "xdata",
}
STORAGE_STMTS = {
    "for subclass in self.xtags.subclasses[1:]:\n    tagwriter.write_tags(subclass)": "subclasses",
    "if self.embedded_objects:\n    for tags in self.embedded_objects:\n        tagwriter.write_tags(tags)": "embedded",
}
TABLEHEAD_STMTS = {
    "tagwriter.write_tag2(5, self.dxf.handle)": "handle",
    "if self.appdata:\n    self.appdata.export_dxf(tagwriter)": "appdata",
    "if self.has_extension_dict:\n    self.extension_dict.export_dxf(tagwriter)": "xdict",
    "if self.reactors:\n    self.reactors.export_dxf(tagwriter)": "reactors",
    "tagwriter.write_tag2(const.OWNER_CODE, self.dxf.owner)": "owner",
    "tagwriter.write_tag2(const.SUBCLASS_MARKER, acdb_symbol_table.name)": "subclass",
    "tagwriter.write_tag2(70, self.dxf.count)": "count",
    "if self.dxf.name == 'DIMSTYLE':\n    tagwriter.write_tag2(const.SUBCLASS_MARKER, 'AcDbDimStyleTable')": "dimstyle",
    "self.export_xdata(tagwriter)": "xdata",
}
SECTION_STMTS = {
    "dxfversion = tagwriter.dxfversion": "",
    "self.header.export_dxf(tagwriter)": "header",
    "if dxfversion > DXF12:\n    self.classes.export_dxf(tagwriter)": "classes",
    "self.tables.export_dxf(tagwriter)": "tables",
    "self.blocks.export_dxf(tagwriter)": "blocks",
    "self.entities.export_dxf(tagwriter)": "entities",
    "if dxfversion > DXF12:\n    self.objects.export_dxf(tagwriter)": "objects",
    "if self.acdsdata.is_valid:\n    self.acdsdata.export_dxf(tagwriter)": "acdsdata",
    "for section in self.stored_sections:\n    section.export_dxf(tagwriter)": "stored",
    "tagwriter.write_tag2(0, 'EOF')": "eof",
}


def _nats(s: str) -> str:
    return lean_list(str(ord(c)) for c in s)


def regenerate(ctx):
    for s in SRCS:
        ctx.src(s)
    ent = ast.parse(ctx.src(SRC_ENTITY))
    doc = ast.parse(ctx.src(SRC_DOC))
    from ezdxf.lldxf import const, types

    # --- DXFEntity.export_base_class: first statement writes (0, DXFTYPE); the R2000+ branch lists the base-class parts in order
    fn = _body(_func(ent, "DXFEntity", "export_base_class"))
    txt = [ast.unparse(s) for s in fn]
    if txt[:3] != ["dxftype = self.DXFTYPE", "_handle_code = 105 if dxftype == 'DIMSTYLE' else 5",
                   "tagwriter.write_tag2(const.STRUCTURE_MARKER, dxftype)"] or len(fn) != 4 or not isinstance(fn[3], ast.If):
        raise ValueError("export_base_class: prologue outside the translated subset: " + repr(txt[:4]))
    if ast.unparse(fn[3].test) != "tagwriter.dxfversion >= const.DXF2000":
        raise ValueError("export_base_class: version test changed: " + ast.unparse(fn[3].test))
    base_order = _tokens(fn[3].body, BASE_STMTS, "export_base_class")
    entity_order = _tokens(_body(_func(ent, "DXFEntity", "export_dxf")), ENTITY_STMTS, "DXFEntity.export_dxf")
    storage_order = _tokens(_body(_func(ent, "DXFTagStorage", "export_entity")), STORAGE_STMTS, "DXFTagStorage.export_entity")
    xd = [ast.unparse(s) for s in _body(_func(ent, "DXFEntity", "export_xdata"))]
    if xd != ["if self.xdata:\n    self.xdata.export_dxf(tagwriter)"]:
        raise ValueError("export_xdata outside the translated subset: " + repr(xd))
    section_order = _tokens(_body(_func(doc, "Drawing", "export_sections")), SECTION_STMTS, "Drawing.export_sections")
    # --- Drawing._load: sections deleted before loading
    deleted = []
    for st in _body(_func(doc, "Drawing", "_load")):
        for node in ast.walk(st):
            if isinstance(node, ast.Delete):
                for tgt in node.targets:
                    if (isinstance(tgt, ast.Subscript) and ast.unparse(tgt.value) == "sections"
                            and isinstance(tgt.slice, ast.Constant) and isinstance(tgt.slice.value, str)):
                        deleted.append(tgt.slice.value)
                    else:
                        raise ValueError("Drawing._load: del statement outside the translated subset: " + ast.unparse(node))
    # --- StoredSection.export_dxf
    sect = ast.parse(ctx.src(SRC_SECT))
    st = [ast.unparse(s) for s in _body(_func(sect, "StoredSection", "export_dxf"))]
    if st != ["for entity in self.entities:\n    tagwriter.write_tags(entity)", "tagwriter.write_str('  0\\nENDSEC\\n')"]:
        raise ValueError("StoredSection.export_dxf outside the translated subset: " + repr(st))
    # --- HeaderSection.export_dxf: where the custom properties are written (inside the loop behind $LASTSAVEDBY; after the loop)
    hdr = ast.parse(ctx.src(SRC_HEADER))
    hfn = _func(hdr, "HeaderSection", "export_dxf")
    loops = [n for n in hfn.body if isinstance(n, ast.For)]
    if len(loops) != 1:
        raise ValueError("HeaderSection.export_dxf: expected exactly one loop over the header variables")
    anchor = [ast.unparse(n.test) for n in ast.walk(loops[0]) if isinstance(n, ast.If) and "self.custom_vars.write(tagwriter)" in ast.unparse(n)]
    if anchor != ["name == '$LASTSAVEDBY'"]:
        raise ValueError("HeaderSection.export_dxf: custom property anchor changed: " + repr(anchor))
    after = [n for n in hfn.body[hfn.body.index(loops[0]) + 1:] if "self.custom_vars.write(tagwriter)" in ast.unparse(n)]
    if not after:
        fallback = "never"
    elif len(after) == 1 and isinstance(after[0], ast.If) and ast.unparse(after[0].body[0]) == "self.custom_vars.write(tagwriter)" and len(after[0].body) == 1:
        test = ast.unparse(after[0].test)
        fallback = {"not custom_vars_written": "always", "not custom_vars_written and dxfversion >= const.DXF2004": "fromR2004"}.get(test)
        if fallback is None:
            raise ValueError("HeaderSection.export_dxf: fall-back condition outside the translated subset: " + test)
    else:
        raise ValueError("HeaderSection.export_dxf: custom property fall-back outside the translated subset")
    # --- TableHead.export_dxf (R2000+ branch) and XRecord.load_dxf_attribs
    tab = ast.parse(ctx.src("src/ezdxf/entities/table.py"))
    tfn = _body(_func(tab, "TableHead", "export_dxf"))
    tif = [n for n in tfn if isinstance(n, ast.If) and ast.unparse(n.test) == "tagwriter.dxfversion >= const.DXF2000"]
    pre = [ast.unparse(n) for n in tfn if not isinstance(n, (ast.If, ast.Assert))]
    if len(tif) != 1 or pre != ["tagwriter.write_tag2(const.STRUCTURE_MARKER, self.DXFTYPE)", "tagwriter.write_tag2(2, self.dxf.name)"]:
        raise ValueError("TableHead.export_dxf outside the translated subset: " + repr(pre))
    tablehead_order = _tokens(tif[0].body, TABLEHEAD_STMTS, "TableHead.export_dxf")
    obj = ast.parse(ctx.src("src/ezdxf/entities/dxfobj.py"))
    xsrc = ast.unparse(_func(obj, "XRecord", "load_dxf_attribs"))
    if "self.tags = Tags(tags[start_index:])" not in xsrc or "tags = processor.subclasses[1]" not in xsrc:
        raise ValueError("XRecord.load_dxf_attribs outside the translated subset")
    keep_later = "for subclass in processor.subclasses[2:]:\n            self.tags.extend(subclass)" in xsrc
    if not keep_later and "subclasses[2" in xsrc:
        raise ValueError("XRecord.load_dxf_attribs: handling of later subclasses outside the translated subset")

    def enum(name, ctors):
        return f"inductive {name} where\n" + "".join(f"  | {c}\n" for c in ctors) + "  deriving Repr, DecidableEq\n"

    ptr = sorted(c for c in range(0, 1100) if types.is_pointer_code(c))
    hnd = sorted(types.HANDLE_CODES)
    text = f"""
namespace EzdxfVerif.Gen.StorageTables

/-- parts written by `DXFEntity.export_base_class` after the (0, DXFTYPE) tag (DXF R2000+ branch) -/
{enum("BasePart", ["handle", "appdata", "xdict", "reactors", "owner"])}
/-- steps of `DXFEntity.export_dxf` -/
{enum("EntityPart", ["base", "entity", "xdata"])}
/-- steps of `DXFTagStorage.export_entity` -/
{enum("StoragePart", ["subclasses", "embedded"])}
/-- steps of `Drawing.export_sections` -/
{enum("SectionPart", ["header", "classes", "tables", "blocks", "entities", "objects", "acdsdata", "stored", "eof"])}
/-- where `HeaderSection.export_dxf` writes the custom properties when the loop did not (no $LASTSAVEDBY exported) -/
{enum("CustomFallback", ["never", "always", "fromR2004"])}
def customFallback : CustomFallback := .{fallback}
/-- parts written by `TableHead.export_dxf` behind (0, TABLE), (2, name) in the R2000+ branch -/
{enum("TableHeadPart", ["handle", "appdata", "xdict", "reactors", "owner", "subclass", "count", "dimstyle", "xdata"])}
def tableHeadOrder : List TableHeadPart := {lean_list("." + t for t in tablehead_order)}
/-- `XRecord.load_dxf_attribs` appends the tags of `processor.subclasses[2:]` to the payload -/
def xrecordKeepsLaterSubclasses : Bool := {"true" if keep_later else "false"}

/-- statement order of the current source (AST of entities/dxfentity.py, document.py) -/
def baseOrder : List BasePart := {lean_list("." + t for t in base_order)}
def entityOrder : List EntityPart := {lean_list("." + t for t in entity_order)}
def storageOrder : List StoragePart := {lean_list("." + t for t in storage_order)}
def sectionOrder : List SectionPart := {lean_list("." + t for t in section_order)}

/-- `types.VALID_XDATA_GROUP_CODES` -/
def validXdataCodes : List Nat := {lean_list(str(c) for c in sorted(types.VALID_XDATA_GROUP_CODES))}
/-- every code 0..1099 with `types.is_pointer_code`, and `types.HANDLE_CODES` -/
def pointerCodes : List Nat := {lean_list(str(c) for c in ptr)}
def handleCodes : List Nat := {lean_list(str(c) for c in hnd)}
/-- `const.MANAGED_SECTIONS` (sorted) and the sections `Drawing._load` deletes -/
def managedSections : List (List Nat) := {lean_list((_nats(s) for s in sorted(const.MANAGED_SECTIONS)), per_line=1)}
def deletedSections : List (List Nat) := {lean_list((_nats(s) for s in deleted), per_line=1)}

def acadReactors : List Nat := {_nats(const.ACAD_REACTORS)}
def acadXDictionary : List Nat := {_nats(const.ACAD_XDICTIONARY)}
def appDataMarker : Nat := {const.APP_DATA_MARKER}
def ownerCode : Nat := {const.OWNER_CODE}
def reactorHandleCode : Nat := {const.REACTOR_HANDLE_CODE}
def xdictHandleCode : Nat := {const.XDICT_HANDLE_CODE}
def xdataMarker : Nat := {const.XDATA_MARKER}
def subclassMarker : Nat := {const.SUBCLASS_MARKER}
def structureMarker : Nat := {const.STRUCTURE_MARKER}

end EzdxfVerif.Gen.StorageTables
"""
    ctx.write_gen("StorageTables", text, SRCS)


# ------------------------------------------------------------------ compiled-tag level (one entity): generators
# A compiled tag is (code, text): text of a point = "x,y[,z]" (repr of the floats), of a binary chunk = upper-case hex,
# everything else the canonical text of the typed value.  This is the granularity of ExtendedTags and of the Lean model.
STR_CODES = [1, 2, 3, 4, 6, 7, 8, 9, 300, 301, 302, 305, 309, 410, 411, 430, 431, 470, 471, 1000, 1003]
HANDLE_PTR = [320, 321, 330, 331, 335, 340, 341, 345, 350, 355, 360, 365, 369, 390, 395, 399, 480, 481]
INT16 = [60, 62, 66, 70, 71, 79, 170, 175, 270, 280, 289, 370, 380, 400, 409]
INT32 = [90, 91, 95, 99, 420, 429, 440, 450, 459]
INT64 = [160, 165, 169]
BOOL = [290, 291, 299]
FLOATS = [39, 40, 41, 48, 50, 59, 140, 145, 149, 460, 469]
POINTS = [10, 11, 12, 13, 14, 15, 16, 17, 18, 110, 111, 112, 210, 211, 212, 213]
BINARY = [310, 311, 315, 319]
XD_STR, XD_HANDLE, XD_BIN, XD_POINT, XD_FLOAT, XD_I16, XD_I32 = [1000, 1003], [1005], [1004], [1010, 1011, 1012, 1013], [1040, 1041, 1042], [1070], [1071]
FOREIGN_TYPES = ["FOO", "ACME_WIDGET", "XYZOBJ", "AECC_THING", "ACAD_PROXY_OBJECT", "MYOBJ", "DIMSTYLE_X"]
WORDS = ["", "a", "AcDbFoo", "x y", "{", "}", "{A", "A}", "Embedded Object", "100", "ä€", "\\U+20AC", "^J", "%%c", "0", "None", " lead", "trail ", ";:|,/"]
SUBCLASS_NAMES = ["AcDbEntity", "AcDbFoo", "AcDbProxyEntity", "AcDbProxyObject", "AcmeWidget", "AcDbBar", "X"]
APPIDS = ["ACAD", "APPA", "APPB", "APPC", "EZDXF", "ACME", "A"]
GROUP_NAMES = ["{APPA", "{ACME", "{A", "{", "{ACAD_FOO", "{APPB"]


def fl(rng) -> str:
    k = rng.randrange(8)
    if k == 0:
        return repr(float(rng.randint(-5, 5)))
    if k == 1:
        return repr(rng.choice([1e-300, 1e300, -0.0, 1 / 3, 2.5e-5, 1e16, 123456789.125, 5e-324]))
    return repr(round(rng.uniform(-1000, 1000), rng.randint(0, 12)))


def hexh(rng, lo=1, hi=0xFFFFF) -> str:
    return "%X" % rng.randint(lo, hi)


def value_for(rng, code: int) -> str:
    if code in POINTS or code in XD_POINT:
        return ",".join(fl(rng) for _ in range(rng.choice([2, 3, 3])))
    if code in BINARY or code in XD_BIN:
        n = rng.choice([0, 1, 2, 5, 127]) if rng.random() < 0.3 else rng.randint(1, 20)
        return "".join("%02X" % rng.randrange(256) for _ in range(n)) if n else "00"
    if code in HANDLE_PTR or code in XD_HANDLE or code in (5, 105):
        return hexh(rng)
    if code in INT16 or code in XD_I16:
        return str(rng.choice([0, 1, -1, 7, 32767, -32768, rng.randint(-999, 999)]))
    if code in INT32 or code in XD_I32:
        return str(rng.choice([0, 1, -1, 2 ** 31 - 1, -2 ** 31, rng.randint(-10 ** 6, 10 ** 6)]))
    if code in INT64:
        return str(rng.choice([0, -1, 2 ** 63 - 1, -2 ** 63, 2 ** 40 + 3, rng.randint(-10 ** 12, 10 ** 12)]))
    if code in BOOL:
        return str(rng.randint(0, 1))
    if code in FLOATS or code in XD_FLOAT:
        return fl(rng)
    w = rng.choice(WORDS) if rng.random() < 0.5 else "".join(rng.choice("abcXYZ019 _-.{}") for _ in range(rng.randint(1, 12))).strip() or "w"
    return w


BODY_CODES = STR_CODES[:-2] + HANDLE_PTR + INT16 + INT32 + INT64 + BOOL + FLOATS + POINTS + BINARY + [5, 102, 101, 105]


def body_tags(rng, n, codes=BODY_CODES):
    out = []
    for _ in range(n):
        c = rng.choice(codes)
        v = value_for(rng, c)
        if c == 101 and v == "Embedded Object":
            v = "Embedded"
        if c == 102:
            v = rng.choice(["{X", "}", "X}", "plain"])
        out.append((c, v))
    return out


def xdata_group(rng, appid, depth=2, invalid=False):
    out = [(1001, appid)]
    for _ in range(rng.randint(0, 6)):
        k = rng.randrange(9)
        if k == 0 and depth:
            out.append((1002, "{"))
            out += xdata_group(rng, "", depth - 1)[1:]
            out.append((1002, "}"))
        else:
            c = rng.choice(XD_STR + XD_HANDLE + XD_BIN + XD_POINT + XD_FLOAT + XD_I16 + XD_I32)
            out.append((c, value_for(rng, c)))
    if invalid:
        for _ in range(rng.randint(1, 3)):
            c = rng.choice([1, 40, 70, 330, 1072, 1006, 1020, 1050, 999 + 1])
            out.insert(rng.randint(1, len(out)), (c, "7" if c != 1 else "bad"))
    return out


def app_group(rng, name, close="}"):
    inner = [t for t in body_tags(rng, rng.randint(0, 4)) if t[0] not in (102, 101)]
    return [(102, name)] + inner + [(102, close)]


def reactors_group(rng, n=None, sort=True, handles=None):
    hs = handles if handles is not None else sorted({hexh(rng) for _ in range(n if n is not None else rng.randint(1, 4))}, key=lambda x: int(x, 16))
    if not sort:
        rng.shuffle(hs)
    return [(102, "{ACAD_REACTORS")] + [(330, h) for h in hs] + [(102, "}")]


def gen_entity(rng, kind: str):
    """-> (compiled tags, alive handles, expected class 'wf-ordered' | 'wf' | 'malformed')"""
    typ = rng.choice(FOREIGN_TYPES)
    handle, owner = hexh(rng), hexh(rng)
    alive = []
    items = []  # list of (stage, tags)
    names = rng.sample(GROUP_NAMES, rng.choice([0, 0, 1, 1, 2, 3]))
    for n in names:
        items.append((1, app_group(rng, n)))
    if rng.random() < 0.5:
        xh = hexh(rng)
        alive.append(xh)
        items.append((2, [(102, "{ACAD_XDICTIONARY"), (360, xh), (102, "}")]))
    if rng.random() < 0.5:
        items.append((3, reactors_group(rng)))
    items = [(0, [(5, handle)])] + items + [(4, [(330, owner)])]
    subs = []
    for i in range(rng.choice([0, 1, 1, 2, 2, 3])):
        subs.append([(100, rng.choice(SUBCLASS_NAMES))] + body_tags(rng, rng.randint(0, 7)))
    emb = []
    if rng.random() < 0.25:
        emb = [(101, "Embedded Object")] + [t for t in body_tags(rng, rng.randint(0, 5)) if t[0] != 101]
    xd = []
    for a in rng.sample(APPIDS, rng.choice([0, 0, 1, 1, 2, 3])):
        xd += xdata_group(rng, a)
    cls = "wf-ordered"
    if kind == "shuffled":
        rng.shuffle(items)
        for i, (st, g) in enumerate(items):
            if st == 3:
                g2 = reactors_group(rng, sort=False, handles=[v for c, v in g[1:-1]])
                items[i] = (3, g2)
        cls = "wf"
    if kind == "malformed":
        cls = "malformed"
        k = rng.randrange(16)
        if k == 0:  # foreign base-class tags
            for _ in range(rng.randint(1, 3)):
                items.insert(rng.randint(1, len(items)), (9, body_tags(rng, 1, [1, 2, 40, 70, 90, 10, 310, 340, 105, 101])))
        elif k == 1:  # duplicate XDATA appid
            a = rng.choice(APPIDS)
            xd = xdata_group(rng, a) + xdata_group(rng, rng.choice(APPIDS)) + xdata_group(rng, a) + xd
        elif k == 2:  # duplicate application data key
            n = rng.choice(GROUP_NAMES)
            items.insert(1, (1, app_group(rng, n)))
            items.insert(rng.randint(1, len(items) - 1), (1, app_group(rng, n)))
        elif k == 3:  # alternative closing tag
            n = rng.choice(GROUP_NAMES + ["{ACAD_XDICTIONARY", "{ACAD_REACTORS"])
            if n == "{ACAD_XDICTIONARY":
                items.insert(1, (2, [(102, n), (360, alive[0] if alive else hexh(rng)), (102, n[1:] + "}")]))
            elif n == "{ACAD_REACTORS":
                items.insert(1, (3, [(102, n), (330, hexh(rng)), (102, n[1:] + "}")]))
            else:
                items.insert(1, (1, app_group(rng, n, close=n[1:] + "}")))
        elif k == 4:  # extension dictionary that does not resolve
            items.insert(1, (2, [(102, "{ACAD_XDICTIONARY"), (360, "DEAD"), (102, "}")]))
        elif k == 5:  # malformed extension dictionary group
            g = rng.choice([[(102, "{ACAD_XDICTIONARY"), (102, "}")],
                            [(102, "{ACAD_XDICTIONARY"), (360, "1"), (360, "2"), (102, "}")],
                            [(102, "{ACAD_XDICTIONARY"), (330, "1"), (102, "}")]])
            items.insert(1, (2, g))
        elif k == 6:  # reactors: not hex / empty / duplicates / other codes
            g = rng.choice([[(102, "{ACAD_REACTORS"), (330, "XYZ"), (102, "}")],
                            [(102, "{ACAD_REACTORS"), (102, "}")],
                            [(102, "{ACAD_REACTORS"), (330, "1F"), (330, "A"), (330, "1F"), (102, "}")],
                            [(102, "{ACAD_REACTORS"), (331, "2B"), (330, "2A"), (102, "}")],
                            [(102, "{ACAD_REACTORS"), (330, ""), (102, "}")]])
            items = [it for it in items if it[0] != 3]
            items.insert(1, (3, g))
        elif k == 7:  # two reactors groups / two xdict groups
            items.insert(1, (3, reactors_group(rng)))
            items.insert(1, (3, reactors_group(rng)))
        elif k == 8:  # invalid XDATA group codes
            xd = xdata_group(rng, "BADX", invalid=True) + xd
        elif k == 9:  # missing handle / owner, doubled handle / owner
            m = rng.randrange(5)
            if m == 0:
                items = [it for it in items if it[0] != 0]
            elif m == 1:
                items = [it for it in items if it[0] != 4]
            elif m == 2:
                items.insert(rng.randint(0, len(items)), (0, [(5, hexh(rng))]))
            elif m == 3:
                items.insert(rng.randint(0, len(items)), (4, [(330, hexh(rng))]))
            else:
                items = [(0, [(5, "")])] + [it for it in items if it[0] != 0]
                rng.shuffle(items)
        elif k == 10:  # unclosed group
            items.insert(rng.randint(0, len(items)), (1, [(102, "{OPEN"), (1, "x")]))
        elif k == 11:  # tags after the XDATA / between embedded object and XDATA
            xd = xd + [(1, "late"), (100, "Late")]
        elif k == 12:  # group marker that is no group
            items.insert(rng.randint(1, len(items)), (9, [(102, rng.choice(["}", "X}", "plain"]))]))
        elif k == 13:  # everything shuffled, several exclusions at once
            items.insert(1, (1, app_group(rng, "{A", close="A}")))
            items.insert(1, (9, [(1, "foreign")]))
            rng.shuffle(items)
        elif k == 14:  # no base class at all / subclass first
            items = []
        else:  # DIMSTYLE-like handle code in a foreign type
            items.insert(1, (9, [(105, hexh(rng))]))
    tags = [(0, typ)]
    for _, g in items:
        tags += g
    for s in subs:
        tags += s
    tags += emb + xd
    return tags, alive, cls


def to_text(ctags) -> str:
    out = []
    for c, v in ctags:
        if c in POINTS or c in XD_POINT:
            for i, x in enumerate(v.split(",")):
                out.append(f"{c + 10 * i}\n{x}\n")
        else:
            out.append(f"{c}\n{v}\n")
    return "".join(out)


def enc_tags(ctags) -> str:
    return ";".join(f"{c}:{cps(v)}" for c, v in ctags)


class CompiledCollector:
    """harness-owned tag writer: records what DXFEntity.export_dxf writes, at compiled-tag granularity"""

    write_handles = True
    force_optional = False

    def __init__(self, dxfversion="AC1027"):
        self.dxfversion = dxfversion
        self.tags = []

    @staticmethod
    def conv(code, value):
        if isinstance(value, bytes):
            return code, value.hex().upper()
        if isinstance(value, tuple):
            return code, ",".join(repr(float(x)) for x in value)
        return code, str(value)

    def write_tag(self, tag):
        self.tags.append(self.conv(tag.code, tag.value))

    def write_tag2(self, code, value):
        self.tags.append(self.conv(int(code), value))

    def write_tags(self, tags):
        for t in tags:
            self.write_tag(t)

    def write_str(self, s):
        lines = s.split("\n")
        for i in range(0, len(lines) - 1, 2):
            self.tags.append((int(lines[i]), lines[i + 1]))

    def write_vertex(self, code, vertex):
        self.tags.append(self.conv(code, tuple(vertex)))


class _StubEntity:
    is_alive = True

    def __init__(self, h):
        self.dxf = type("D", (), {"handle": h})()


class _StubDoc:
    def __init__(self, alive):
        self.entitydb = {h: _StubEntity(h) for h in alive}


def impl_roundtrip(ctags, alive):
    """the real code: ExtendedTags -> factory.load (DXFTagStorage) -> post_load_hook -> export_dxf"""
    from ezdxf.entities import factory
    from ezdxf.lldxf.const import DXFStructureError
    from ezdxf.lldxf.extendedtags import ExtendedTags

    try:
        xt = ExtendedTags.from_text(to_text(ctags))
        e = factory.load(xt, None)
        if type(e).__name__ != "DXFTagStorage":
            return None, "err other:known-type"
        e.post_load_hook(_StubDoc(alive))
        col = CompiledCollector()
        e.export_dxf(col)
        return col.tags, "ok " + enc_tags(col.tags)
    except DXFStructureError as ex:
        m = str(ex)
        k = "missingAppClose" if "closing" in m else "xdictError" if "XDICTIONARY" in m else "unexpectedTag"
        return None, "err " + k
    except IndexError:
        return None, "err noType"
    except ValueError as ex:
        return None, "err " + ("badReactor" if "base 16" in str(ex) else "other:ValueError")
    except Exception as ex:  # noqa
        return None, f"err other:{type(ex).__name__}"


def entity_cases(ctx):
    rng = ctx.rng("entities")
    n = ctx.n(1500, 15000)
    for kind, count in (("ordered", n), ("shuffled", n), ("malformed", 2 * n)):
        for _ in range(count):
            tags, alive, cls = gen_entity(rng, kind)
            yield kind, tags, alive, cls
    # fixed corner cases
    for tags, alive in FIXED_ENTITIES:
        yield "fixed", tags, alive, "fixed"


FIXED_ENTITIES = [
    ([(0, "FOO")], []),
    ([(0, "FOO"), (5, "A"), (330, "B")], []),
    ([(0, "FOO"), (5, "A"), (5, "B"), (330, "C"), (330, "D"), (100, "X")], []),
    ([(0, "FOO"), (330, "C"), (5, "A"), (330, "D"), (5, "B"), (100, "X")], []),
    ([(0, "FOO"), (5, ""), (330, "C"), (5, "B")], []),
    ([(0, "FOO"), (330, ""), (5, "B"), (330, "C")], []),
    ([(0, "FOO"), (5, "A"), (330, "B"), (1001, "A"), (1000, "x"), (1001, "B"), (1000, "y"), (1001, "A"), (1000, "z")], []),
    ([(0, "FOO"), (5, "A"), (102, "{A"), (1, "x"), (102, "A}"), (330, "B"), (100, "X")], []),
    ([(0, "FOO"), (5, "A"), (102, "{ACAD_XDICTIONARY"), (360, "CC"), (102, "}"), (330, "B")], ["CC"]),
    ([(0, "FOO"), (5, "A"), (102, "{ACAD_XDICTIONARY"), (360, "CC"), (102, "}"), (330, "B")], []),
    ([(0, "FOO"), (5, "A"), (330, "B"), (1, "foreign"), (100, "X")], []),
    ([(0, "FOO"), (5, "A"), (330, "B"), (100, "X"), (1, "x"), (101, "Embedded Object"), (1, "y"), (1001, "A"), (1000, "x")], []),
    ([(0, "FOO"), (5, "A"), (102, "{ACAD_REACTORS"), (330, "1F"), (330, "A"), (330, "10"), (102, "}"), (330, "B")], []),
    ([(0, "DIMSTYLE_X"), (105, "A"), (330, "B")], []),
    ([(100, "X"), (1, "y")], []),
    ([(0, "FOO"), (5, "A"), (330, "B"), (102, "{OPEN")], []),
]


# the inputs of the counterexample theorems of Props/C02.lean (Model/Storage.lean namespace Ex) with the proved outputs and the
# classification of the exclusion; replayed on the real code on every run
def _T(*pairs):
    return [(pairs[i], pairs[i + 1]) for i in range(0, len(pairs), 2)]


LEAN_EXAMPLES = [
    ("dup_xdata_appid", _T(0, "FOO", 5, "A", 330, "B", 100, "AcDbFoo", 1001, "APP", 1000, "first", 1001, "OTHER", 1000, "o", 1001, "APP", 1000, "second"), [],
     _T(0, "FOO", 5, "A", 330, "B", 100, "AcDbFoo", 1001, "APP", 1000, "second", 1001, "OTHER", 1000, "o"),
     "outside the quantifier: one XDATA set per appid and entity"),
    ("foreign_base_tag", _T(0, "FOO", 5, "A", 1, "foreign", 330, "B", 100, "AcDbFoo"), [], _T(0, "FOO", 5, "A", 330, "B", 100, "AcDbFoo"),
     "outside the quantifier: DXF defines no other tags in front of the first subclass marker of an R2000+ object"),
    ("alt_close", _T(0, "FOO", 5, "A", 102, "{APP", 1, "x", 102, "APP}", 330, "B"), [], _T(0, "FOO", 5, "A", 102, "{APP", 1, "x", 102, "APP}", 102, "}", 330, "B"),
     "outside the quantifier (non-standard closing tag accepted by the loader); nothing lost, one tag added, fixed point"),
    ("xdict_unresolved", _T(0, "FOO", 5, "A", 102, "{ACAD_XDICTIONARY", 360, "30", 102, "}", 330, "B"), [], _T(0, "FOO", 5, "A", 330, "B"),
     "outside the quantifier: dangling pointer in the input"),
    ("xdict_resolved", _T(0, "FOO", 5, "A", 102, "{ACAD_XDICTIONARY", 360, "30", 102, "}", 330, "B"), ["30"],
     _T(0, "FOO", 5, "A", 102, "{ACAD_XDICTIONARY", 360, "30", 102, "}", 330, "B"), "inside: kept"),
    ("empty_reactors", _T(0, "FOO", 5, "A", 102, "{ACAD_REACTORS", 102, "}", 330, "B"), [], _T(0, "FOO", 5, "A", 330, "B"),
     "outside the quantifier: an empty reactors group carries no data"),
    ("dup_appdata_key", _T(0, "FOO", 5, "A", 102, "{APP", 1, "first", 102, "}", 102, "{APP", 1, "second", 102, "}", 330, "B"), [],
     _T(0, "FOO", 5, "A", 102, "{APP", 1, "second", 102, "}", 330, "B"), "outside the quantifier: one group per application name"),
    ("two_handles", _T(0, "FOO", 5, "A", 5, "B", 330, "C", 330, "D"), [], _T(0, "FOO", 5, "B", 330, "C"), "outside the quantifier: malformed"),
    ("no_handle", _T(0, "FOO", 100, "AcDbFoo"), [], _T(0, "FOO", 5, "None", 330, "0", 100, "AcDbFoo"),
     "outside the quantifier (R2000+ objects have a handle); inside a document the entity database assigns a handle"),
]


def replay_lean_examples(ctx):
    for name, tags, alive, want, cls in LEAN_EXAMPLES:
        out, r = impl_roundtrip(tags, alive)
        ctx.count("E1 counterexample theorems on real code", name, True, sample={"theorem": name + "_counterexample", "input": str(tags)[:200],
                                                                                 "impl": str(out)[:200], "classified": cls})
        if out != want:
            ctx.disagree("E1 counterexample theorems on real code", f"{name}: {tags}", str(out), str(want))
    ctx.cov["disagreements_checked"] += len(LEAN_EXAMPLES)


def correspond_entities(ctx):
    replay_lean_examples(ctx)
    cases, spec_lines, spec_meta = [], [], []
    for kind, tags, alive, cls in entity_cases(ctx):
        ctx.hist("X1 tag storage", kind)
        req = f"rt|{','.join(cps(h) for h in alive)}|{enc_tags(tags)}"
        out1, r1 = impl_roundtrip(tags, alive)
        r2 = impl_roundtrip(out1, alive)[1] if out1 is not None else "-"
        ctx.hist("X1 tag storage", "result:" + r1.split(" ")[0] + ("" if r1.startswith("ok") else ":" + r1[4:]))
        nontriv = any(c in (102, 1001) for c, _ in tags) or sum(1 for c, _ in tags if c == 100) > 1
        cases.append((req, r1 + "|" + r2, nontriv))
        spec_lines.append("spec" + req[2:])
        spec_meta.append((kind, cls, tags, alive, out1, r1, r2))
    ctx.correspond("X1 tag storage", "C02", cases, build=DRIVER_DEPS)
    # the specification (EntityWF / canon / ordered) evaluated by the Lean driver, checked against the REAL output
    outs = ctx.driver("C02", spec_lines)
    nwf = nord = 0
    for line, (kind, cls, tags, alive, out1, r1, r2) in zip(outs, spec_meta):
        flags, canon = line.split("|", 1)
        wf, ordered = flags.split(" ")
        ctx.count("S1 spec on real code", line, wf == "1")
        ctx.hist("S1 spec on real code", f"{kind}:wf={wf},ordered={ordered}")
        rep = {"op": "entity", "tags": tags, "alive": alive}
        if (kind in ("ordered", "shuffled") and wf != "1") or (kind == "ordered" and ordered != "1"):
            # the generator builds these classes by construction: the specification (tables regenerated from the source) rejects them
            ctx.disagree("S1 spec on real code", "spec" + enc_tags(tags)[:1500], f"generated as {kind}", f"EntityWF={wf} BaseOrdered={ordered}")
        if kind == "ordered" and r1 != "ok " + enc_tags(tags):
            ctx.fail(f"storage/identity/{tags[:5]}", f"well-formed entity in ezdxf's order changed by load->save: {tags} -> {r1[:300]}", rep)
        if wf == "1":
            nwf += 1
            if r1 != "ok " + canon:
                ctx.fail(f"storage/canon/{tags[:5]}", f"EntityWF input, but export(load t) != canon t: {tags} -> {r1[:300]}", rep)
            if ordered == "1":
                nord += 1
                if r1 != "ok " + enc_tags(tags):
                    ctx.fail(f"storage/identity/{tags[:5]}", f"well-formed ordered entity changed by load->save: {tags} -> {r1[:300]}", rep)
            # pointers kept
            ptr = lambda ts: sorted((c, v) for c, v in ts if is_pointer(c))
            if out1 is not None and ptr(out1) != ptr(tags):
                ctx.fail(f"storage/pointers/{tags[:5]}", f"pointer tags changed: {ptr(tags)} -> {ptr(out1)}", rep)
        # second cycle is a fixed point for every input the code accepts
        if out1 is not None and r2 != r1:
            ctx.fail(f"storage/second-cycle/{tags[:5]}", f"second load->save differs: {r1[:200]} vs {r2[:200]}", rep)
    ctx.note(f"S1: {nwf} EntityWF inputs ({nord} in ezdxf's order) checked against canon on the real code")


def is_pointer(code: int) -> bool:
    from ezdxf.lldxf import types

    return types.is_pointer_code(code) or code in types.HANDLE_CODES


# ------------------------------------------------------------------ whole files: base documents, tag-level splicing, comparison
VERSIONS = ["AC1015", "AC1018", "AC1021", "AC1024", "AC1027", "AC1032"]  # R2000 .. R2018
_BASE_CACHE: dict = {}


def _import_dxfparse():
    import dxfparse

    return dxfparse


def base_doc(ver: str):
    """a valid minimal document made by ezdxf.new() + write(), parsed by the harness-owned parser into sections/records.
    Hosts for foreign data: LINE/MTEXT/INSERT+ATTRIB in the modelspace, a LINE in block FB, layer L1, DICTIONARY FOREIGN_DICT,
    a second (non active) paperspace layout."""
    if ver in _BASE_CACHE:
        return _BASE_CACHE[ver]
    import ezdxf

    dxfparse = _import_dxfparse()
    ezdxf.options.write_fixed_meta_data_for_testing = True
    doc = ezdxf.new(ver)
    for a in APPIDS:
        if a not in doc.appids:
            doc.appids.add(a)
    doc.layers.add("L1")
    blk = doc.blocks.new("FB")
    blk.add_line((0, 0), (1, 1))
    msp = doc.modelspace()
    line = msp.add_line((0, 0), (2, 3))
    mtext = msp.add_mtext("hello")
    try:
        msp.add_mtext_static_columns(["column one", "column two"], width=20, gutter_width=2, height=30)
    except Exception:  # noqa  (API not available)
        pass
    ins = msp.add_blockref("FB", (1, 1))
    ins.add_attrib("TAG1", "text", (0, 0))
    fd = doc.rootdict.add_new_dict("FOREIGN_DICT")
    second = doc.layouts.new("Second")
    second.add_line((0, 0), (1, 0))
    s = io.StringIO()
    doc.write(s)
    tags = dxfparse.parse_ascii(s.getvalue())
    secs, problems = dxfparse.split_file(tags)
    assert not problems, problems
    info = {
        "ver": ver,
        "sections": secs,  # [(name, [records])]; HEADER: one pseudo record (0, <SECTION-TAGS>) + tags
        "msp": doc.block_records.get("*Model_Space").dxf.handle,
        "psp": doc.block_records.get("*Paper_Space").dxf.handle,
        "psp2": second.block_record_handle,
        "fb": blk.block_record_handle,
        "line": line.dxf.handle,
        "mtext": mtext.dxf.handle,
        "insert": ins.dxf.handle,
        "layer": doc.layers.get("L1").dxf.handle,
        "fd": fd.dxf.handle,
        "root": doc.rootdict.dxf.handle,
        "seed": int(str(doc.entitydb.handles), 16) + 16,
    }
    _BASE_CACHE[ver] = info
    return info


def cval(code: int, v):
    """canonical comparable value of a tag (float text through float(), integers through int(), binary as upper hex)"""
    dxfparse = _import_dxfparse()
    c = dxfparse._cls(code)
    try:
        if c == "d":
            return float(v)
        if c in ("h", "i", "q", "b"):
            return int(float(v)) if ("." in str(v) or "e" in str(v).lower()) else int(v)
        if c == "bin":
            return str(v).upper()
    except ValueError:
        return ("?", v)
    return v


def ctags(rec):
    return [(c, cval(c, v)) for c, v in rec]


def flat(ctags_compiled):
    """compiled tags -> file level tags (points expanded)"""
    out = []
    for c, v in ctags_compiled:
        if c in POINTS or c in XD_POINT:
            for i, x in enumerate(v.split(",")):
                out.append((c + 10 * i, x))
        else:
            out.append((c, v))
    return out


class Splice:
    """builds one input file from a base document and generated foreign content; remembers what must survive"""

    def __init__(self, rng, ver, **knobs):
        self.rng = rng
        self.base = base_doc(ver)
        self.ver = ver
        self.next = self.base["seed"]
        self.knobs = knobs
        # working copy: section name -> list of records (lists of (code, str))
        self.secs = [(n, [list(r) for r in recs]) for n, recs in self.base["sections"]]
        self.new_objects = []      # records appended to OBJECTS
        self.expect = []           # (kind, key, data)
        self.pool = [self.base[k] for k in ("line", "mtext", "fd", "root", "layer")]   # handles that exist
        self.notes = []

    def H(self) -> str:
        self.next += self.rng.randint(1, 3)
        return "%X" % self.next

    def sec(self, name):
        for n, recs in self.secs:
            if n == name:
                return recs
        raise KeyError(name)

    def find(self, handle):
        dxfparse = _import_dxfparse()
        for n, recs in self.secs:
            for r in recs:
                if dxfparse.rec_handle(r) == handle:
                    return n, r
        raise KeyError(handle)

    # ---------------------------------------------------------------- foreign structures
    def base_structures(self, owner_of_xdict: str, allow_xdict=True):
        """application groups, extension dictionary (+ DICTIONARY and XRECORD objects), reactors: in ezdxf's order"""
        rng = self.rng
        out = []
        for n in rng.sample(GROUP_NAMES, rng.choice([0, 0, 1, 1, 2, 3])):
            out += flat([t for t in app_group(rng, n) if t[0] not in (5, 105)])
        if allow_xdict and rng.random() < 0.45:
            dh, xh = self.H(), self.H()
            payload = [t for t in body_tags(rng, rng.randint(1, 8)) if t[0] not in (5, 105, 101, 102)]
            if rng.random() < self.knobs.get("xrecord100", 0.3):
                # group code 100 is a legal XRECORD payload code (1..369 except 5 and 105)
                payload.insert(rng.randint(0, len(payload)), (100, rng.choice(["AcmeMarker", "x"])))
            payload = flat(payload)
            self.new_objects.append([(0, "DICTIONARY"), (5, dh), (330, owner_of_xdict), (100, "AcDbDictionary"), (280, "1"), (281, "1"),
                                     (3, "FOREIGN_DATA"), (360, xh)])
            xrec = [(0, "XRECORD"), (5, xh), (330, dh), (100, "AcDbXrecord"), (280, "1")] + payload
            self.new_objects.append(xrec)
            self.expect.append(("xrecord", xh, xrec))
            self.expect.append(("dict-entry", dh, ("FOREIGN_DATA", xh)))
            out += [(102, "{ACAD_XDICTIONARY"), (360, dh), (102, "}")]
        if rng.random() < 0.45:
            hs = sorted(set(rng.sample(self.pool, rng.randint(1, min(3, len(self.pool))))), key=lambda x: int(x, 16))
            out += [(102, "{ACAD_REACTORS")] + [(330, h) for h in hs] + [(102, "}")]
        return out

    def xdata(self, n=None):
        rng = self.rng
        out = []
        for a in rng.sample(APPIDS, n if n is not None else rng.choice([0, 1, 1, 2, 3])):
            out += flat(xdata_group(rng, a))
        return out

    def foreign_record(self, typ, owner, graphic: bool, paperspace=False, shuffle=False):
        rng = self.rng
        h = self.H()
        head = [(0, typ), (5, h)]
        mid = self.base_structures(h)
        tail = [(330, owner)]
        if shuffle:
            # another application's order: owner first / handle last, groups in any order, reactors unsorted
            groups, cur = [], None
            for t in mid:
                if cur is None:
                    cur = [t]
                else:
                    cur.append(t)
                    if t == (102, "}"):
                        groups.append(cur)
                        cur = None
            for g in groups:
                if g[0][1] == "{ACAD_REACTORS":
                    inner = g[1:-1]
                    rng.shuffle(inner)
                    g[1:-1] = inner
            items = [[(5, h)]] + groups + [[(330, owner)]]
            rng.shuffle(items)
            base = [(0, typ)] + [t for it in items for t in it]
        else:
            base = head + mid + tail
        subs = []
        if graphic:
            ent = [(100, "AcDbEntity")]
            if paperspace:
                ent.append((67, "1"))
            ent.append((8, rng.choice(["0", "L1"])))
            if rng.random() < 0.3:
                ent.append((62, str(rng.randint(1, 255))))
            subs += ent
        for _ in range(rng.choice([1, 1, 2, 3]) if graphic else rng.choice([0, 1, 1, 2, 3])):
            name = rng.choice([s for s in SUBCLASS_NAMES if s != "AcDbEntity"])
            subs += [(100, name)] + flat(body_tags(rng, rng.randint(0, 8)))
        emb = []
        if rng.random() < 0.2:
            emb = [(101, "Embedded Object")] + flat([t for t in body_tags(rng, rng.randint(0, 5)) if t[0] != 101])
        rec = base + subs + emb + self.xdata()
        self.expect.append(("record", h, rec))
        self.pool.append(h)
        return rec

    def proxy_entity(self, owner):
        rng = self.rng
        h = self.H()
        data = "".join("%02X" % rng.randrange(256) for _ in range(rng.choice([4, 127, 130, 300])))
        chunks = [data[i:i + 254] for i in range(0, len(data), 254)]
        rec = [(0, "ACAD_PROXY_ENTITY"), (5, h)] + self.base_structures(h) + [(330, owner), (100, "AcDbEntity"), (8, "0"),
               (100, "AcDbProxyEntity"), (90, "498"), (91, str(rng.randint(500, 600))), (95, "33"), (70, "0"),
               (92, str(len(data) // 2))] + [(310, c) for c in chunks] + [(93, str(rng.randint(0, 4096)))] + \
              [(310, "".join("%02X" % rng.randrange(256) for _ in range(rng.randint(1, 60))))] + \
              [(c, rng.choice(self.pool)) for c in rng.sample([330, 340, 350, 360], rng.randint(0, 3))] + [(94, "0")] + self.xdata()
        self.expect.append(("record", h, rec))
        return rec

    def proxy_object(self, owner):
        rng = self.rng
        h = self.H()
        rec = [(0, "ACAD_PROXY_OBJECT"), (5, h)] + self.base_structures(h) + [(330, owner), (100, "AcDbProxyObject"), (90, "499"),
               (91, str(rng.randint(500, 600))), (95, "33"), (70, "0"), (93, str(rng.randint(8, 4096)))] + \
              [(310, "".join("%02X" % rng.randrange(256) for _ in range(rng.randint(1, 127)))) for _ in range(rng.randint(1, 3))] + \
              [(c, rng.choice(self.pool)) for c in rng.sample([330, 340, 350, 360], rng.randint(0, 3))] + [(94, "0")] + self.xdata()
        self.expect.append(("record", h, rec))
        self.pool.append(h)
        return rec

    # ---------------------------------------------------------------- where it goes
    def add_entities(self):
        rng, b = self.rng, self.base
        ents = self.sec("ENTITIES")
        new = []
        for _ in range(rng.randint(1, 4)):
            typ = rng.choice([t for t in FOREIGN_TYPES if t != "ACAD_PROXY_OBJECT"])
            new.append(self.foreign_record(typ, b["msp"], True, shuffle=rng.random() < self.knobs.get("shuffle", 0.2)))
        if rng.random() < 0.6:
            new.append(self.proxy_entity(b["msp"]))
        for r in new:
            if self.knobs.get("mix", True):
                # not between an INSERT / POLYLINE and its ATTRIB / VERTEX / SEQEND records
                ok = [i for i in range(len(ents) + 1) if i == len(ents) or ents[i][0][1] not in ("ATTRIB", "VERTEX", "SEQEND")]
                ents.insert(rng.choice(ok), r)
            else:
                ents.append(r)
        # paperspace entities of the active layout: written behind the modelspace entities
        for _ in range(rng.choice([0, 0, 1, 2])):
            ents.append(self.foreign_record(rng.choice(FOREIGN_TYPES[:4]), b["psp"], True, paperspace=True))

    def add_block_entities(self):
        rng, b = self.rng, self.base
        dxfparse = _import_dxfparse()
        recs = self.sec("BLOCKS")
        for target, key in (("FB", "fb"), ("*Paper_Space0", "psp2")):
            if rng.random() < 0.7:
                idx = next(i for i, r in enumerate(recs) if dxfparse.rec_type(r) == "BLOCK" and (2, target) in r)
                end = next(i for i in range(idx, len(recs)) if dxfparse.rec_type(recs[i]) == "ENDBLK")
                for _ in range(rng.randint(1, 3)):
                    recs.insert(rng.randint(idx + 1, end), self.foreign_record(rng.choice(FOREIGN_TYPES[:4]), b[key], True,
                                                                               paperspace=(key == "psp2")))
                    end += 1

    def add_objects(self):
        rng, b = self.rng, self.base
        new = []
        for _ in range(rng.randint(1, 4)):
            typ = rng.choice(FOREIGN_TYPES)
            if typ == "ACAD_PROXY_OBJECT":
                r = self.proxy_object(b["fd"])
            else:
                r = self.foreign_record(typ, b["fd"], False, shuffle=rng.random() < self.knobs.get("shuffle", 0.2))
            new.append(r)
        # entries of FOREIGN_DICT pointing to the foreign objects (a known object referring to unknown ones)
        _, fd = self.find(b["fd"])
        for i, r in enumerate(new):
            fd += [(3, f"KEY{i}"), (350, r[1][1] if r[1][0] == 5 else next(v for c, v in r if c == 5))]
            self.expect.append(("dict-entry", b["fd"], (f"KEY{i}", fd[-1][1])))
        self.new_objects += new

    def decorate_hosts(self):
        """XDATA, application groups, extension dictionaries and reactors on entities ezdxf implements"""
        rng, b = self.rng, self.base
        dxfparse = _import_dxfparse()
        hosts = [b[key] for key in ("line", "layer", "fd", "mtext", "insert") if rng.random() < 0.6]
        # any other record ezdxf implements: table heads and entries, BLOCK/ENDBLK, BLOCK_RECORD, ATTRIB, SEQEND, LAYOUT, ...
        others = []
        for n, recs in self.secs:
            if n in ("TABLES", "BLOCKS", "ENTITIES", "OBJECTS"):
                for r in recs:
                    h = dxfparse.rec_handle(r)
                    if h is not None and h not in hosts and not any(k == "record" and dxfparse.norm(kk) == h for k, kk, _ in self.expect):
                        others.append(h)
        hosts += rng.sample(others, min(len(others), self.knobs.get("other_hosts", 3)))
        for hh in hosts:
            _, r = self.find(hh)
            if any(c in (1001,) for c, _ in r) or any(c == 102 for c, _ in split_base(r)[0]):
                continue  # already carries XDATA / groups written by ezdxf itself
            i = next(k for k, t in enumerate(r) if t[0] in (5, 105)) + 1
            groups = self.base_structures(hh)
            r[i:i] = groups
            xd = self.xdata(rng.choice([1, 2, 3]))
            r += xd
            self.expect.append(("host", hh, (groups, xd)))

    def add_classes(self):
        rng = self.rng
        recs = self.sec("CLASSES")
        for typ in rng.sample(FOREIGN_TYPES[:4] + ["MYOBJ"], rng.randint(1, 4)):
            for cpp in rng.sample(["AcDb" + typ.title(), "Acme" + typ.title()], rng.choice([1, 1, 2])):
                rec = [(0, "CLASS"), (1, typ), (2, cpp), (3, rng.choice(["AcmeApp|Version 1.0", "ObjectDBX Classes", "x"])),
                       (90, str(rng.choice([0, 1, 1153, 4095, 32768])))]
                if self.ver >= "AC1018":
                    rec.append((91, str(rng.randint(0, 50))))
                rec += [(280, str(rng.randint(0, 1))), (281, str(rng.randint(0, 1)))]
                recs.insert(rng.randint(0, len(recs)), rec)
                self.expect.append(("class", (typ, cpp), rec))

    def add_header(self):
        rng = self.rng
        hdr = self.sec("HEADER")[0]  # [(0,<SECTION-TAGS>), (9,..), ...]
        props = [(rng.choice(["Author", "Project", "K", "ä"]) + str(i), rng.choice(["me", "", "x y", "42", "€"])) for i in range(rng.randint(1, 4))]
        tags = []
        for k, v in props:
            tags += [(9, "$CUSTOMPROPERTYTAG"), (1, k), (9, "$CUSTOMPROPERTY"), (1, v)]
        mode = self.knobs.get("custom", "after-lastsavedby")
        idx = next((i for i, t in enumerate(hdr) if t == (9, "$LASTSAVEDBY")), None)
        if idx is None:
            mode = "no-lastsavedby"   # R2000 has no $LASTSAVEDBY
            hdr += tags
        elif mode == "after-lastsavedby":
            hdr[idx + 2:idx + 2] = tags
        elif mode == "at-end":
            hdr += tags
        else:  # the application did not write $LASTSAVEDBY
            del hdr[idx:idx + 2]
            hdr += tags
            mode = "no-lastsavedby"
        self.expect.append(("custom", mode, props))
        if rng.random() < self.knobs.get("unknown_var", 0.3):
            name = rng.choice(["$ACMEVAR", "$FOREIGNSETTING"])
            hdr += [(9, name), (rng.choice([70, 1, 40]), "1")]
            self.expect.append(("header-var", name, None))

    def add_sections(self):
        rng = self.rng
        names = rng.sample(["FOO", "ACME_DATA", "XYZSECTION", "THUMBNAILIMAGE"], rng.choice([0, 1, 1, 2, 3]))
        extra = []
        for n in names:
            recs = []
            head = [(0, "SECTION"), (2, n)]
            if n == "THUMBNAILIMAGE":
                head += [(90, "254")] + [(310, "".join("%02X" % rng.randrange(256) for _ in range(127))) for _ in range(2)]
            else:
                head += flat([t for t in body_tags(rng, rng.randint(0, 3)) if t[0] not in (101, 102)])
                for _ in range(rng.randint(0, 4)):
                    recs.append([(0, rng.choice(["ACMEREC", "FOOITEM", "X"]))] + flat(body_tags(rng, rng.randint(0, 8))))
            extra.append((n, [head] + recs))
            self.expect.append(("section", n, [t for r in [head] + recs for t in r]))
        if self.ver >= "AC1027" and rng.random() < 0.4:
            n = rng.randint(1, 2)
            recs = [[(0, "ACDSSCHEMA"), (90, "0"), (1, "AcDb3DSolid_ASM_Data"), (2, "AcDbDs::ID"), (280, "10"), (91, "8"),
                     (2, "ASM_Data"), (280, "15"), (91, "0"), (101, "ACDSRECORD"), (95, "0"), (90, "2")]]
            for i in range(n):
                data = "".join("%02X" % rng.randrange(256) for _ in range(127))
                recs.append([(0, "ACDSRECORD"), (90, "0"), (2, "AcDbDs::ID"), (280, "10"), (320, rng.choice(self.pool)),
                             (2, "ASM_Data"), (280, "15"), (94, "254"), (310, data), (310, data[::-1])])
            head = [(0, "SECTION"), (2, "ACDSDATA"), (70, "2"), (71, str(n + 1))]
            extra.append(("ACDSDATA", [head] + recs))
            self.expect.append(("section", "ACDSDATA", [t for r in [head] + recs for t in r]))
        self.extra_sections = extra

    # ---------------------------------------------------------------- assemble
    def build(self):
        self.extra_sections = []
        k = self.knobs
        if k.get("entities", True):
            self.add_entities()
        if k.get("blocks", True):
            self.add_block_entities()
        if k.get("objects", True):
            self.add_objects()
        if k.get("hosts", True):
            self.decorate_hosts()
        if k.get("classes", True):
            self.add_classes()
        if k.get("header", True):
            self.add_header()
        if k.get("sections", True):
            self.add_sections()
        self.sec("OBJECTS").extend(self.new_objects)
        # $HANDSEED above every handle
        hdr = self.sec("HEADER")[0]
        i = next(i for i, t in enumerate(hdr) if t == (9, "$HANDSEED"))
        hdr[i + 1] = (5, "%X" % (self.next + 16))
        tags = []
        order = list(self.secs)
        pos = self.knobs.get("section_pos", "end")
        for n, recs in order:
            if n == "HEADER":
                tags += [(0, "SECTION"), (2, "HEADER")] + recs[0][1:] + [(0, "ENDSEC")]
            else:
                tags += [(0, "SECTION"), (2, n)]
                for r in recs:
                    tags += r
                tags.append((0, "ENDSEC"))
            if pos == "middle" and n == "TABLES":
                for _, xr in self.extra_sections:
                    for r in xr:
                        tags += r
                    tags.append((0, "ENDSEC"))
        if pos != "middle":
            for _, xr in self.extra_sections:
                for r in xr:
                    tags += r
                tags.append((0, "ENDSEC"))
        tags.append((0, "EOF"))
        return tags


def encode_ascii(tags) -> str:
    return "".join(f"{c:3d}\n{v}\n" for c, v in tags)


def encode_binary(tags, ver: str) -> bytes:
    """harness-owned binary DXF writer (R2000+ framing: 2-byte group codes)"""
    import struct

    dxfparse = _import_dxfparse()
    enc = "utf8" if ver >= "AC1021" else "cp1252"
    out = [b"AutoCAD Binary DXF\r\n\x1a\x00"]
    for c, v in tags:
        out.append(struct.pack("<H", c))
        k = dxfparse._cls(c)
        if k == "bin":
            b = bytes.fromhex(v)
            assert len(b) <= 255
            out.append(bytes([len(b)]) + b)
        elif k == "b":
            out.append(bytes([int(v)]))
        elif k == "h":
            out.append(struct.pack("<h", int(v)))
        elif k == "i":
            out.append(struct.pack("<i", int(v)))
        elif k == "q":
            out.append(struct.pack("<q", int(v)))
        elif k == "d":
            out.append(struct.pack("<d", float(v)))
        else:
            out.append(v.encode(enc) + b"\x00")
    return b"".join(out)


def ezdxf_cycle(ctx, tags, ver, fmt_in, fmt_out, tag):
    """the real code: file on disk -> ezdxf.readfile -> saveas (same version) -> file on disk -> harness parser"""
    import ezdxf

    dxfparse = _import_dxfparse()
    ezdxf.options.write_fixed_meta_data_for_testing = True
    src = ctx.scratch / f"in-{tag}.dxf"
    dst = ctx.scratch / f"out-{tag}.dxf"
    if fmt_in == "bin":
        src.write_bytes(encode_binary(tags, ver))
    else:
        src.write_text(encode_ascii(tags), encoding="utf8" if ver >= "AC1021" else "cp1252")
    if tag.endswith("-stream") and fmt_in == "asc" and fmt_out == "asc":
        # the text stream API: ezdxf.read(stream) / doc.write(stream)
        enc = "utf8" if ver >= "AC1021" else "cp1252"
        with open(src, "rt", encoding=enc, errors="surrogateescape") as fp:
            doc = ezdxf.read(fp)
        with open(dst, "wt", encoding=doc.output_encoding, errors="dxfreplace") as fp:
            doc.write(fp)
    else:
        doc = ezdxf.readfile(str(src))
        doc.saveas(str(dst), fmt=fmt_out)
    if fmt_out == "bin":
        out = dxfparse.parse_binary(dst.read_bytes())
    else:
        out = dxfparse.parse_ascii(dst.read_text(encoding="utf8" if ver >= "AC1021" else "cp1252"))
    return out


def split_base(rec):
    """(base class tags after (0, type), rest from the first subclass / embedded object / XDATA marker)"""
    for i, (c, v) in enumerate(rec):
        if i and (c == 100 or c == 1001 or (c == 101 and v == "Embedded Object")):
            return rec[1:i], rec[i:]
    return rec[1:], []


def base_items(base):
    """handle / owner / closed 102-groups of a base class; None when something else occurs"""
    items, i = [], 0
    while i < len(base):
        c, v = base[i]
        if c == 102 and str(v).startswith("{"):
            j = i + 1
            while j < len(base) and not (base[j][0] == 102 and base[j][1] in ("}", v[1:] + "}")):
                j += 1
            if j >= len(base):
                return None
            items.append(("g", base[i:j + 1]))
            i = j + 1
        elif c in (5, 105):
            items.append(("h", [base[i]]))
            i += 1
        elif c == 330:
            items.append(("o", [base[i]]))
            i += 1
        else:
            return None
    return items


def canon_record(rec):
    """the documented base-class order of ezdxf: handle, application groups, extension dictionary, reactors (ascending), owner"""
    base, rest = split_base(rec)
    items = base_items(base)
    if items is None:
        return rec

    def stage(it):
        k, g = it
        if k == "h":
            return 0
        if k == "o":
            return 4
        return 3 if g[0][1] == "{ACAD_REACTORS" else 2 if g[0][1] == "{ACAD_XDICTIONARY" else 1

    out = [rec[0]]
    for it in sorted(items, key=stage):
        g = it[1]
        if it[0] == "g" and g[0][1] == "{ACAD_REACTORS":
            g = [g[0]] + sorted(g[1:-1], key=lambda t: int(t[1], 16)) + [g[-1]]
        out += g
    return out + rest


def groups_of(rec):
    """the closed 102-groups of the base class (other base-class tags, e.g. the name of a TABLE head, are skipped)"""
    base, rest = split_base(rec)
    out, i = [], 0
    while i < len(base):
        c, v = base[i]
        if c == 102 and str(v).startswith("{"):
            j = i + 1
            while j < len(base) and not (base[j][0] == 102 and base[j][1] in ("}", v[1:] + "}")):
                j += 1
            out.append(base[i:j + 1])
            i = j + 1
        else:
            i += 1
    return out


def xdata_of(rec):
    for i, (c, v) in enumerate(rec):
        if c == 1001:
            return rec[i:]
    return []


def embedded_of(rec):
    for i, (c, v) in enumerate(rec):
        if c == 101 and v == "Embedded Object":
            j = next((k for k in range(i, len(rec)) if rec[k][0] == 1001), len(rec))
            return rec[i:j]
    return []


def index_file(tags):
    dxfparse = _import_dxfparse()
    secs, problems = dxfparse.split_file(tags)
    byh, where = {}, {}
    for n, recs in secs:
        for r in recs:
            h = dxfparse.rec_handle(r)
            if h is not None and dxfparse.rec_type(r) not in ("<SECTION-TAGS>",):
                byh[h] = r
                where[h] = n
    return secs, problems, byh, where


def pointer_targets(rec):
    return [(c, str(v)) for c, v in rec[1:] if is_pointer(c) and c not in (5, 105)]


def header_custom(secs):
    hdr = dict((n, r) for n, r in secs).get("HEADER", [[]])
    flatt = [t for r in hdr for t in r]
    out, names = [], []
    for i, (c, v) in enumerate(flatt):
        if c == 9:
            names.append(v)
            if v in ("$CUSTOMPROPERTYTAG", "$CUSTOMPROPERTY") and i + 1 < len(flatt):
                out.append((v, flatt[i + 1][1]))
    return out, names


def check_file_case(ctx, sp: Splice, tags_in, out, label, rep):
    """the property's predicate: everything ezdxf does not interpret is in `out` tag for tag and in order"""
    dxfparse = _import_dxfparse()
    fails = []

    def fail(key, what):
        fails.append(key)
        ctx.fail(f"{key}/{label}", what[:700], rep)

    secs_in, _, in_h, in_where = index_file(tags_in)
    secs_out, problems, out_h, out_where = index_file(out)
    for p in problems:
        fail("file/structure", f"written file: {p}")
    norm = dxfparse.norm
    for kind, key, data in sp.expect:
        if kind in ("record", "xrecord"):
            r = out_h.get(norm(key))
            if r is None:
                fail(f"record-lost/{data[0][1]}", f"{data[0][1]} #{key} is not in the written file")
                continue
            want = ctags(canon_record(data))
            got = ctags(r)
            if got != want and kind == "xrecord" and sum(1 for c, _ in data if c == 100) > 1:
                fail("xrecord-payload-100", f"XRECORD #{key}: payload with a group code 100 tag is truncated: {want[4:]} written as {got[4:]}")
            elif got != want:
                i = next((i for i, (a, b) in enumerate(zip(got, want)) if a != b), min(len(got), len(want)))
                fail(f"record-changed/{data[0][1]}", f"{data[0][1]} #{key} differs at tag {i}: wrote {got[i:i + 3]} expected {want[i:i + 3]} "
                     f"({len(got)} vs {len(want)} tags)")
            if out_where.get(norm(key)) != in_where.get(norm(key)):
                fail(f"record-moved/{data[0][1]}", f"#{key} moved from {in_where.get(norm(key))} to {out_where.get(norm(key))}")
        elif kind == "host":
            r = out_h.get(norm(key))
            groups, xd = data
            if r is None:
                fail("host-lost", f"host entity #{key} is not in the written file")
                continue
            have = [t for g in groups_of(ctags(r)) for t in g]
            if r[0][1] == "TABLE" and (have != ctags(groups) or xdata_of(ctags(r)) != ctags(xd)):
                fail("table-head-data", f"TABLE head #{key}: groups {ctags(groups)[:10]} XDATA {ctags(xd)[:6]} written as {have[:10]} / {xdata_of(ctags(r))[:6]}")
                continue
            if have != ctags(groups):
                fail(f"host-groups/{r[0][1]}", f"{r[0][1]} #{key}: base-class groups {ctags(groups)[:12]} written as {have[:12]}")
            if xdata_of(ctags(r)) != ctags(xd):
                fail(f"host-xdata/{r[0][1]}", f"{r[0][1]} #{key}: XDATA {ctags(xd)[:10]} written as {xdata_of(ctags(r))[:10]}")
        elif kind == "dict-entry":
            r = out_h.get(norm(key))
            name, h = data
            ok = r is not None and any(r[i] == (3, name) and r[i + 1][0] in (350, 360) and norm(r[i + 1][1]) == norm(h)
                                       for i in range(len(r) - 1))
            if not ok:
                fail("dict-entry", f"DICTIONARY #{key}: entry {name} -> #{h} is not in the written file")
        elif kind == "class":
            want = ctags(data)
            found = [ctags(r) for r in dict(secs_out).get("CLASSES", []) if (1, key[0]) in r and (2, key[1]) in r]
            if want not in found:
                fail("class-entry", f"CLASS {key}: {want} written as {found}")
        elif kind == "custom":
            got, names = header_custom(secs_out)
            want = []
            for k, v in data:
                want += [("$CUSTOMPROPERTYTAG", k), ("$CUSTOMPROPERTY", v)]
            if sp.ver < "AC1018":
                # permitted version loss: the two variables need DXF R2004, a R2000 file must not contain them
                if got:
                    fail("custom-props/written-into-r2000", f"R2004 header variables written into a {sp.ver} file: {got}")
            elif got != want:
                fail(f"custom-props/{key}", f"custom header properties {want} written as {got} (mode {key}, $LASTSAVEDBY "
                     f"{'written' if '$LASTSAVEDBY' in names else 'not written'})")
        elif kind == "header-var":
            got, names = header_custom(secs_out)
            if key not in names:
                fail("header-var-lost", f"unknown header variable {key} is not written")
        elif kind == "section":
            found = [(n, recs) for n, recs in secs_out if n == key]
            if len(found) != 1:
                fail(f"section-lost/{key}", f"section {key} occurs {len(found)} times in the written file")
                continue
            body = [t for r in found[0][1] for t in r if t[0] != 0 or t[1] != "<SECTION-TAGS>"]
            want = ctags(data[2:])
            if ctags(body) != want:
                fail(f"section-changed/{key}", f"section {key}: {want[:8]}.. written as {ctags(body)[:8]}..")
    # every other record of the input (ezdxf's own entities): uninterpreted parts are retained too
    mine = {norm(k) for kind, k, _ in sp.expect if kind in ("record", "xrecord", "host")}
    for h, r in in_h.items():
        if h in mine or h not in out_h:
            continue
        a, b = ctags(r), ctags(out_h[h])
        if xdata_of(a) != xdata_of(b):
            fail(f"known-entity-xdata/{r[0][1]}", f"{r[0][1]} #{h}: XDATA {xdata_of(a)[:8]} written as {xdata_of(b)[:8]}")
        if embedded_of(a) != embedded_of(b):
            fail(f"known-entity-embedded/{r[0][1]}", f"{r[0][1]} #{h}: embedded object {embedded_of(a)[:8]} written as {embedded_of(b)[:8]}")
        if groups_of(a) != groups_of(b):
            fail(f"known-entity-groups/{r[0][1]}", f"{r[0][1]} #{h}: base-class groups {groups_of(a)} written as {groups_of(b)}")
    for h in in_h:
        if h not in out_h:
            fail(f"handle-lost/{in_h[h][0][1]}", f"{in_h[h][0][1]} #{h} of the input is not in the written file")
    # class order and section order
    cls_in = [(dict(r).get(1), dict(r).get(2)) for r in dict(secs_in).get("CLASSES", [])]
    cls_out = [(dict(r).get(1), dict(r).get(2)) for r in dict(secs_out).get("CLASSES", [])]
    if [c for c in cls_out if c in cls_in] != cls_in:
        fail("class-order", f"CLASS entries reordered or lost: {cls_in} -> {cls_out}")
    names_out = [n for n, _ in secs_out]
    unknown_in = [n for n, _ in secs_in if n not in dxfparse.ORDER_R2000 + ["ACDSDATA", "THUMBNAILIMAGE"]]
    unknown_out = [n for n in names_out if n not in dxfparse.ORDER_R2000 + ["ACDSDATA"]]
    if unknown_out != unknown_in and "section-lost" not in " ".join(fails):
        fail("section-order", f"unknown sections {unknown_in} written as {unknown_out}")
    managed_pos = [i for i, n in enumerate(names_out) if n in dxfparse.ORDER_R2000 + ["ACDSDATA"]]
    if unknown_out and managed_pos and names_out.index(unknown_out[0]) < max(managed_pos):
        fail("section-order", f"unknown section before a managed one: {names_out}")
    # order of the retained records inside each layout / section
    for n, recs in secs_in:
        if n in ("ENTITIES", "BLOCKS", "OBJECTS"):
            mine = [norm(k) for kind, k, _ in sp.expect if kind == "record" and in_where.get(norm(k)) == n]
            inp = [dxfparse.rec_handle(r) for r in recs if dxfparse.rec_handle(r) in mine]
            outp = [dxfparse.rec_handle(r) for r in dict(secs_out).get(n, []) if dxfparse.rec_handle(r) in mine]
            owner = lambda h: dxfparse.base_refs(in_h[h])[0]
            for o in sorted(set(owner(h) for h in inp)):
                a = [h for h in inp if owner(h) == o]
                bb = [h for h in outp if owner(h) == o]
                if a != bb:
                    fail(f"record-order/{n}", f"{n}: retained records of owner #{o} reordered: {a} -> {bb}")
    # every retained handle keeps its record type; every pointer of a retained record resolves to the same type
    for h, r in in_h.items():
        if h in out_h and out_h[h][0][1] != r[0][1]:
            fail("handle-retyped", f"handle #{h}: {r[0][1]} became {out_h[h][0][1]}")
    for kind, key, data in sp.expect:
        if kind in ("record", "xrecord"):
            for c, v in pointer_targets(data):
                t_in = in_h.get(norm(v))
                t_out = out_h.get(norm(v))
                if t_in is not None and (t_out is None or t_out[0][1] != t_in[0][1]):
                    fail("pointer-dangling", f"#{key}: pointer ({c}, {v}) pointed to {t_in[0][1]}, now {t_out[0][1] if t_out else 'nothing'}")
    return fails


def file_cases(ctx, n, salt="files"):
    rng = ctx.rng(salt)
    for i in range(n):
        ver = VERSIONS[i % len(VERSIONS)]
        knobs = {
            "shuffle": rng.choice([0.0, 0.2, 0.5]),
            "mix": rng.random() < 0.5,
            "custom": rng.choice(["after-lastsavedby", "after-lastsavedby", "at-end", "no-lastsavedby"]),
            "section_pos": rng.choice(["end", "end", "middle"]),
            "unknown_var": 0.25,
        }
        fmt_in = "bin" if (i // len(VERSIONS)) % 3 == 2 else "asc"
        fmt_out = "bin" if (i // len(VERSIONS)) % 4 == 1 else "asc"
        seed = rng.getrandbits(48)
        yield i, ver, knobs, fmt_in, fmt_out, seed


def run_file_case(ctx, i, ver, knobs, fmt_in, fmt_out, seed, second=True):
    import random

    rep = {"op": "file", "ver": ver, "knobs": knobs, "fmt_in": fmt_in, "fmt_out": fmt_out, "seed": seed}
    label = f"{ver}/{fmt_in}->{fmt_out}"
    try:
        base_doc(ver)
    except Exception as e:  # noqa
        ctx.fail(f"file/base-document-raised/{type(e).__name__}/{ver}", f"ezdxf.new({ver}) + entities + write raised {type(e).__name__}: {e}"[:400], rep)
        return None, None, None
    sp = Splice(random.Random(seed), ver, **knobs)
    tags_in = sp.build()
    try:
        out = ezdxf_cycle(ctx, tags_in, ver, fmt_in, fmt_out, "a-stream" if i % 5 == 0 else "a")
    except Exception as e:  # noqa
        ctx.fail(f"file/load-save-raised/{type(e).__name__}/{label}", f"ezdxf.readfile/saveas raised {type(e).__name__}: {e}"[:500], rep)
        return sp, tags_in, None
    fails = check_file_case(ctx, sp, tags_in, out, label, rep)
    if second:
        try:
            out2 = ezdxf_cycle(ctx, out, ver, fmt_out, fmt_out, "b")
        except Exception as e:  # noqa
            ctx.fail(f"file/second-cycle-raised/{type(e).__name__}/{label}", f"second load-save raised {type(e).__name__}: {e}"[:500], rep)
            return sp, tags_in, out
        a, b = [(c, cval(c, v)) for c, v in out], [(c, cval(c, v)) for c, v in out2]
        # $HANDSEED may only grow (loading an INSERT with attributes / a POLYLINE draws a handle for a temporary SEQEND)
        ia = next((k for k, t in enumerate(a) if t == (9, "$HANDSEED")), None)
        if ia is not None and ia + 1 < len(b) and b[ia] == a[ia] and int(str(b[ia + 1][1]), 16) >= int(str(a[ia + 1][1]), 16):
            b[ia + 1] = a[ia + 1]
        if a != b:
            k = next((k for k, (x, y) in enumerate(zip(a, b)) if x != y), min(len(a), len(b)))
            ctx.fail(f"file/second-cycle/{label}", f"second load-save changed the file at tag {k}: {a[max(0, k - 2):k + 3]} -> {b[max(0, k - 2):k + 3]}", rep)
    return sp, tags_in, out


def oracle(ctx):
    import logging

    logging.getLogger("ezdxf").setLevel(logging.CRITICAL)
    n = ctx.n(240, 3000)
    for case in file_cases(ctx, n):
        i, ver, knobs, fmt_in, fmt_out, seed = case
        sp, tags_in, out = run_file_case(ctx, *case)
        ctx.count("O1 whole files", (ver, fmt_in, fmt_out, seed), True)
        ctx.hist("O1 whole files", f"{ver}:{fmt_in}->{fmt_out}")
        for kind, _, _ in (sp.expect if sp else []):
            ctx.hist("O1 whole files", "retained:" + kind)


# ------------------------------------------------------------------ X2: file structure and stored sections
SEC_NAMES = ["HEADER", "CLASSES", "TABLES", "BLOCKS", "ENTITIES", "OBJECTS", "ACDSDATA", "THUMBNAILIMAGE", "FOO", "ACME_DATA", "X", "foo"]


def gen_records(rng, malformed: bool):
    recs = []
    names = rng.sample(SEC_NAMES, rng.randint(0, 6))
    if malformed and rng.random() < 0.3 and names:
        names.append(rng.choice(names))  # duplicate section name
    for n in names:
        head = [(0, "SECTION"), (2, n)] + body_tags(rng, rng.choice([0, 0, 2]), [1, 70, 9, 40])
        recs.append(head)
        for _ in range(rng.randint(0, 3)):
            recs.append([(0, rng.choice(["REC", "LINE", "CLASS", "section", "EOF ", "ENDSEC2"]))] + body_tags(rng, rng.randint(0, 3), [1, 5, 70, 330, 2]))
        recs.append([(0, "ENDSEC")])
    recs.append([(0, "EOF")])
    if malformed:
        for _ in range(rng.randint(1, 2)):
            k = rng.randrange(9)
            pos = rng.randint(0, len(recs))
            if k == 0 and recs:
                del recs[rng.randrange(len(recs))]
            elif k == 1:
                recs.insert(pos, [(0, "ENDSEC")])
            elif k == 2:
                recs.insert(pos, [(0, "SECTION"), (2, "LATE")])
            elif k == 3:
                recs.insert(pos, [(0, "SECTION")])
            elif k == 4:
                recs.insert(pos, [(0, "SECTION"), (70, "1"), (2, "N")])
            elif k == 5:
                recs.insert(pos, [(0, "EOF")])
            elif k == 6:
                recs.insert(pos, [(0, "STRAY"), (1, "outside")])
            elif k == 7:
                recs.insert(pos, [(0, "ENDSEC"), (1, "x")])
            else:
                recs.insert(pos, [(0, "SECTION"), (2, "")])
    return recs


def enc_recs(recs) -> str:
    return "/".join(enc_tags(r) for r in recs)


def impl_struct(recs):
    """the real Drawing._load up to (not including) _load_section_dict: load_dxf_structure + section deletion"""
    from ezdxf.document import Drawing
    from ezdxf.lldxf.const import DXFStructureError
    from ezdxf.lldxf.types import DXFTag

    captured = {}
    doc = Drawing.__new__(Drawing)
    doc._load_section_dict = lambda sections: captured.update(sections=sections)
    try:
        Drawing._load(doc, iter([DXFTag(c, v) for r in recs for c, v in r]))
    except DXFStructureError as e:
        m = str(e)
        k = ("missingEndsec" if "missing ENDSEC" in m else "endsecWithoutSection" if "without previous" in m else
             "missingName" if "NAME tag" in m else "missingEof" if "missing EOF" in m else "other")
        return "err " + k
    return "ok " + ";".join(f"{cps(n)}={len(s)}" for n, s in captured["sections"].items())


def correspond_structure(ctx):
    rng = ctx.rng("structure")
    cases = []
    for i in range(ctx.n(1500, 12000)):
        recs = gen_records(rng, malformed=i % 2 == 1)
        ctx.hist("X2 file structure", "malformed" if i % 2 else "well-formed")
        cases.append((f"struct|{enc_recs(recs)}", impl_struct(recs), len(recs) > 2))
    # the record lists of thumbnail_dropped_counterexample / dup_section_name_counterexample
    ex1 = [[(0, "SECTION"), (2, "THUMBNAILIMAGE")], [(0, "x"), (90, "3")], [(0, "ENDSEC")], [(0, "SECTION"), (2, "FOO")], [(0, "BAR"), (1, "payload")],
           [(0, "ENDSEC")], [(0, "SECTION"), (2, "OBJECTS")], [(0, "DICTIONARY"), (5, "C")], [(0, "ENDSEC")], [(0, "SECTION"), (2, "ZED")], [(0, "ENDSEC")], [(0, "EOF")]]
    ex2 = [[(0, "SECTION"), (2, "FOO")], [(0, "BAR"), (1, "first")], [(0, "ENDSEC")], [(0, "SECTION"), (2, "FOO")], [(0, "BAR"), (1, "second")], [(0, "ENDSEC")], [(0, "EOF")]]
    for ex, want in ((ex1, "ok 70 79 79=2;79 66 74 69 67 84 83=2;90 69 68=1"), (ex2, "ok 70 79 79=2")):
        got = impl_struct(ex)
        if got != want:
            ctx.disagree("E1 counterexample theorems on real code", str(ex), got, want)
        cases.append((f"struct|{enc_recs(ex)}", got, True))
    ctx.correspond("X2 file structure", "C02", cases)
    # stored sections through the whole real load -> save
    dxfparse = _import_dxfparse()
    cases = []
    for case in file_cases(ctx, ctx.n(48, 300), salt="stored"):
        i, ver, knobs, fmt_in, fmt_out, seed = case
        import random

        knobs = dict(knobs, entities=False, blocks=False, objects=False, hosts=False, classes=False, header=False)
        sp = Splice(random.Random(seed), ver, **knobs)
        tags_in = sp.build()
        out = ezdxf_cycle(ctx, tags_in, ver, "asc", "asc", "s")
        recs_in = [[(c, str(v)) for c, v in r] for r in dxfparse.records(tags_in)]
        # the managed sections are a parameter of the model: their records are replaced by one stub record
        short, skip = [], False
        for r in recs_in:
            if r[0] == (0, "SECTION"):
                skip = r[1][1] in dxfparse.ORDER_R2000
                short.append(r[:2] if skip else r)
                if skip:
                    short.append([(0, "STUB")])
            elif r[0][1] in ("ENDSEC", "EOF"):
                skip = False
                short.append(r)
            elif not skip:
                short.append(r)
        recs_out = dxfparse.records(out)
        # tail of the real output: everything behind the last managed section
        last = max(k for k, r in enumerate(recs_out) if r[0] == (0, "SECTION") and r[1][1] in dxfparse.ORDER_R2000 + ["ACDSDATA"])
        end = next(k for k in range(last, len(recs_out)) if recs_out[k][0][1] == "ENDSEC")
        tail = [t for r in recs_out[end + 1:] if r[0][1] != "EOF" for t in r]
        # ACDSDATA is managed by AcDsDataSection in the real code: not part of the stored sections
        impl = "ok " + enc_tags([(c, str(v)) for c, v in tail])
        req = "sect|" + enc_recs(short)
        cases.append((req, impl, any(k == "section" for k, _, _ in sp.expect)))
    # compare on canonical values: the model echoes the input text, the real code re-formats numbers
    outs = ctx.driver("C02", [c[0] for c in cases])
    for (req, impl, nontriv), model in zip(cases, outs):
        ctx.count("X2b stored sections (whole files)", req, nontriv, sample={"request": req[:200], "impl": impl[:200], "model": model[:200]})

        def canon_line(line):
            if not line.startswith("ok"):
                return line
            body = line[3:]
            ts = []
            for part in body.split(";") if body else []:
                c, v = part.split(":")
                c = int(c)
                ts.append((c, cval(c, "".join(chr(int(x)) for x in v.split(" ")) if v else "")))
            return ts

        if canon_line(impl) != canon_line(model):
            ctx.disagree("X2b stored sections (whole files)", req[:2000], impl[:1000], model[:1000])
    ctx.cov["disagreements_checked"] += len(cases)


# ------------------------------------------------------------------ X3: custom header properties and CLASS registration
def correspond_header_classes(ctx):
    from ezdxf.entities.dxfclass import DXFClass
    from ezdxf.lldxf.tags import Tags
    from ezdxf.lldxf.types import DXFTag
    from ezdxf.sections.classes import ClassesSection
    from ezdxf.sections.header import HeaderSection

    rng = ctx.rng("header")
    cases = []
    vals = ["a", "b", "", "x y", "42", "$K"]
    names = ["$ACADVER", "$LASTSAVEDBY", "$INSBASE", "$FOO", "$CUSTOMPROPERTYTAG", "$CUSTOMPROPERTY", "$CUSTOMPROPERTYTAG", "$CUSTOMPROPERTY"]
    for _ in range(ctx.n(1500, 10000)):
        groups = [("$ACADVER", "AC1024")]
        for _ in range(rng.randint(0, 8)):
            n = rng.choice(names)
            groups.append((n, "AC1024" if n == "$ACADVER" else rng.choice(vals)))
        if rng.random() < 0.5:  # well-formed pairs somewhere in between
            k = rng.randint(0, len(groups))
            pairs = []
            for _ in range(rng.randint(1, 3)):
                pairs += [("$CUSTOMPROPERTYTAG", rng.choice(vals)), ("$CUSTOMPROPERTY", rng.choice(vals))]
            groups[k:k] = pairs
        tags = [DXFTag(0, "SECTION"), DXFTag(2, "HEADER")]
        for n, v in groups:
            tags += [DXFTag(9, n), DXFTag(1, v)]
        h = HeaderSection.load(Tags(tags))
        impl = ";".join(f"{cps(a)}:{cps(b)}" for a, b in h.custom_vars)
        req = "custom|" + ";".join(f"{cps(a)}:{cps(b)}" for a, b in groups)
        cases.append((req, impl, any(n.startswith("$CUSTOM") for n, _ in groups)))
        # where they are written, for a target version older than R2004 and for R2004+
        for ver in ("AC1015", "AC1024"):
            col = CompiledCollector(ver)
            h.export_dxf(col)
            written, exported = [], []
            for i, (c, v) in enumerate(col.tags):
                if c == 9:
                    if v in ("$CUSTOMPROPERTYTAG", "$CUSTOMPROPERTY"):
                        written.append((v, col.tags[i + 1][1]))
                    else:
                        exported.append(v)
            ctx.hist("X3 header custom properties, CLASS keys", f"written:{ver}:lastsavedby={'$LASTSAVEDBY' in exported}:props={len(h.custom_vars) > 0}")
            req = f"written|{int(ver >= 'AC1018')}|" + ";".join(cps(n) for n in exported) + "|" + ";".join(f"{cps(a)}:{cps(b)}" for a, b in h.custom_vars)
            cases.append((req, ";".join(f"{cps(a)}:{cps(b)}" for a, b in written), len(h.custom_vars) > 0))
    # CLASS registration
    cn = ["FOO", "BAR", "MATERIAL", "X"]
    cc = ["AcDbFoo", "AcDbBar", "AcDbMaterial"]
    for _ in range(ctx.n(1000, 8000)):
        keys = [(rng.choice(cn), rng.choice(cc)) for _ in range(rng.randint(0, 8))]
        sec = ClassesSection()
        for n, c in keys:
            sec.register(DXFClass.new(dxfattribs={"name": n, "cpp_class_name": c}))
        impl = ";".join(f"{cps(k[0])}:{cps(k[1])}" for k in sec.classes)
        cases.append(("classes|" + ";".join(f"{cps(a)}:{cps(b)}" for a, b in keys), impl, len(set(keys)) < len(keys)))
    ctx.correspond("X3 header custom properties, CLASS keys", "C02", cases)


# ------------------------------------------------------------------ X4: XRECORD load -> export
def impl_xrecord(ctags_, alive):
    from ezdxf.entities import factory
    from ezdxf.lldxf.const import DXFStructureError
    from ezdxf.lldxf.extendedtags import ExtendedTags

    try:
        e = factory.load(ExtendedTags.from_text(to_text(ctags_)), None)
        assert type(e).__name__ == "XRecord"
        e.post_load_hook(_StubDoc(alive))
        col = CompiledCollector()
        e.export_dxf(col)
        return "ok " + enc_tags(col.tags)
    except DXFStructureError as ex:
        m = str(ex)
        return "err " + ("missingAppClose" if "closing" in m else "xdictError" if "XDICTIONARY" in m else "noType" if "Missing subclass" in m else "unexpectedTag")
    except ValueError as ex:
        return "err " + ("badReactor" if "base 16" in str(ex) else "other:ValueError")
    except Exception as ex:  # noqa
        return f"err other:{type(ex).__name__}"


def correspond_xrecord(ctx):
    rng = ctx.rng("xrecord")
    cases = []
    for i in range(ctx.n(1500, 10000)):
        tags, alive, _ = gen_entity(rng, "ordered" if i % 3 else "malformed")
        base = []
        for t in tags[1:]:
            if t[0] in (100, 1001) or t == (101, "Embedded Object"):
                break
            base.append(t)
        xd = tags[next((k for k, t in enumerate(tags) if t[0] == 1001), len(tags)):]
        payload = [t for t in body_tags(rng, rng.randint(0, 8)) if t[0] not in (5, 105, 101)]
        k = rng.randrange(8)
        if k < 3:  # group code 100 inside the payload (legal for XRECORD)
            for _ in range(rng.randint(1, 2)):
                payload.insert(rng.randint(0, len(payload)), (100, rng.choice(["AcmeMarker", "AcDbXrecord", "x"])))
        body = [(100, "AcDbXrecord"), (280, str(rng.randint(0, 5)))] + payload
        if k == 3:
            body = [(100, "AcDbXrecord")] + payload           # no cloning flag
        elif k == 4:
            body = []                                         # no subclass at all
        elif k == 5:
            body = body + [(101, "Embedded Object"), (1, "dropped")]
        elif k == 6:
            body = [(100, "Other")] + payload
        rec = [(0, "XRECORD")] + base + body + xd
        ctx.hist("X4 XRECORD", ["code100", "code100", "code100", "no-280", "no-subclass", "embedded", "other-marker", "plain"][k])
        cases.append((f"xrec|{','.join(cps(h) for h in alive)}|{enc_tags(rec)}", impl_xrecord(rec, alive), len(payload) > 0))
    ctx.correspond("X4 XRECORD", "C02", cases)


def correspond(ctx):
    import logging

    logging.getLogger("ezdxf").setLevel(logging.CRITICAL)
    correspond_entities(ctx)
    correspond_structure(ctx)
    correspond_header_classes(ctx)
    correspond_xrecord(ctx)


def replay(ctx, rep):
    """re-run the recorded failing inputs on the current code"""
    import logging
    import random

    logging.getLogger("ezdxf").setLevel(logging.CRITICAL)
    before = len(ctx.failures)
    for f in rep.get("failing_inputs", []):
        r = f["replay"]
        if r.get("op") == "file":
            run_file_case(ctx, 1, r["ver"], r["knobs"], r["fmt_in"], r["fmt_out"], r["seed"])
        elif r.get("op") == "entity":
            tags = [tuple(t) for t in r["tags"]]
            out1, r1 = impl_roundtrip(tags, r["alive"])
            spec = ctx.driver("C02", ["spec|" + ",".join(cps(h) for h in r["alive"]) + "|" + enc_tags(tags)])[0]
            flags, canon = spec.split("|", 1)
            if flags.startswith("1") and r1 != "ok " + canon:
                ctx.fail(f"storage/canon/{tags[:5]}", f"export(load t) != canon t: {r1[:200]}", r)
            if out1 is not None and impl_roundtrip(out1, r["alive"])[1] != r1:
                ctx.fail(f"storage/second-cycle/{tags[:5]}", "second cycle differs", r)
    bad = [f.key for f in ctx.failures[before:]]
    return (not bad, "; ".join(bad)[:600] or "all recorded failing inputs pass now")

"""C02  Foreign and unknown content survives load -> save unchanged (DESIGN.md section 7, C02)."""
from __future__ import annotations

import ast
import io
import os
import re
import textwrap

from leanfmt import cps, lean_list

ID = "C02"
LEAN_MODULES = ["EzdxfVerif.Props.C02"]
DRIVER_DEPS = ["EzdxfVerif.Model.Storage", "EzdxfVerif.Model.StorageDoc", "EzdxfVerif.Gen.StorageTables", "Drivers.Proto"]
RULE = (
    "correspondence X1: generated entity tag lists (well-formed in ezdxf's order, well-formed in shuffled base-class order, "
    "malformed: foreign base-class tags, duplicate XDATA appids / app-data keys, alternative closing tags, unresolved or "
    "malformed extension dictionary groups, non-hex reactors, invalid XDATA codes, missing handle/owner, embedded objects) "
    "are loaded by the real factory.load(ExtendedTags) + post_load_hook and exported by export_dxf into a TagCollector; the "
    "Lean model answers export(load t), export(load(export(load t))), EntityWF t, BaseOrdered t and canon t for the same line; "
    "non-trivial = at least one app-data group, XDATA group or second subclass. X2: record lists through the real "
    "load_dxf_structure + the stored-section filter of Drawing._load/_load_section_dict vs the model. X3: header custom "
    "property stacks and CLASS key lists vs the real HeaderSection / ClassesSection. distinct by hash of the request line. "
    "oracle: whole files R2000..R2018 (ASCII and binary in, ASCII and binary out) = ezdxf.new() output with foreign content "
    "spliced in at tag level, through ezdxf.readfile/read -> saveas/write, both files parsed by harness/dxfparse.py and compared "
    "tag for tag; every retained pointer must resolve to the same record type; second cycle must be a fixed point. "
    "Session 3 (document-level model Model/StorageDoc.lean): D1 ENTITIES and OBJECTS of whole files (unknown records in ezdxf's and in "
    "shuffled order, owner = modelspace / paperspace / other, paperspace flag 0/1/absent, mixed with LINE, INSERT+ATTRIB+SEQEND, "
    "POLYLINE+VERTEX+SEQEND, an unknown record inside a POLYLINE = link error) through the real ezdxf.read -> write vs entitiesPass / "
    "objectsPass; D2 the BLOCKS section (content of FB and of an inactive layout block, stray records between ENDBLK and BLOCK) vs "
    "blocksPass; D3 whole files (complete HEADER with custom properties / unknown variable / with and without $LASTSAVEDBY, CLASSES, BLOCKS, "
    "ENTITIES, OBJECTS, ACDSDATA, unknown sections; only $HANDSEED masked, TABLES as a marker) vs loadSaveFile; implemented records are compared as (type, handle). X5 CLASS "
    "records (standard, shuffled, partial, duplicate codes, foreign codes, application groups, subclass / XDATA markers) and whole "
    "CLASSES sections vs the real DXFClass / ClassesSection for R2000 and R2004+; X6 header group lists (variables of every version "
    "window, unknown names, repeated names, custom property pairs anywhere, $LASTSAVEDBY present or not) vs the real HeaderSection "
    "load + export for 7 target versions; X6b HEADER sections at tag level incl. malformed ones vs headerSectionPass; X7 ACAD_PROXY_ENTITY records vs the real ACADProxyEntity; X8 ACDSDATA sections vs the real "
    "AcDsDataSection. E1 also replays the inputs of document_level_counterexamples."
)
TRUSTED_BASE = [
    "hand translation of DXFTagStorage.load/export_dxf, DXFEntity.export_base_class/setup_app_data, DXFNamespace handle scan, AppData/"
    "Reactors/ExtensionDict/XData containers, load_dxf_structure and the stored-section path into Model/Storage.lean (validated by the "
    "correspondence streams, not proved); the order of the export steps is regenerated from the AST of the current source",
    "hand translation of factory dispatch, entity_linker, EntitySection/ObjectsSection/BlocksSection load + export, DXFClass/ClassesSection, "
    "HeaderSection.load_tags/export_dxf + header_vars_by_priority, ACADProxyEntity.export_entity, AcDsDataSection/AcDsRecord into "
    "Model/StorageDoc.lean (validated by the streams D1-D3, X5-X8); the functions are pinned statement by statement against the AST of the "
    "current source (any other statement aborts the translation), the tables (ENTITY_CLASSES keys, LINKED_ENTITIES, HEADER_VAR_MAP, CLASS "
    "attribute list, export orders) are regenerated",
    "what an implemented entity class writes for its own record (DocCfg.known), its layout decision and the BLOCK name / BLOCK_RECORD "
    "table order are parameters of the document-level theorems (subject of C01/C04)",
    "tag values are opaque strings in the model: typing of values by group code (tag_compiler/dxftag) and their text/binary encoding is C03; "
    "the model works on compiled tags (a point is one tag)",
    "the conversion of a header value to the type of another group code (_cast_header_value) and the predicate is_owned_by_unlinked_entity "
    "are parameters of the model (DocCfg.castHeader / skipObject); "
    "Reactors.from_tags keeps only valid handles (fix af0fa7065; the model follows the regenerated flag Gen.reactorsDropInvalid); "
    "Python dict keeps the position of the first insertion on overwrite; set() + sorted(key=int(x,16)) of reactor handles (ties between "
    "different spellings of one number are resolved in hash order by CPython and are excluded from the model: hypothesis tieFree)",
    "harness-owned DXF parser harness/dxfparse.py (shares no code with ezdxf)",
]
ASSUMPTIONS = [
    "int(x, 16) is modelled for [0-9A-Fa-f]+ only (no sign, whitespace, underscore, 0x prefix)",
    "options.filter_invalid_xdata_group_codes and options.load_proxy_graphics have their default value True",
    "TABLES is an opaque parameter of the document-level model; the *Model_Space / active *Paper_Space block definitions hold no "
    "entities inside the BLOCKS section (their entities stand in ENTITIES, as AutoCAD and ezdxf write them)",
    "the HEADER holds $ACADVER (every R2000+ file does; HeaderSection.export_dxf raises without it); header values are opaque, their "
    "group code is re-derived from the variable name by ezdxf",
    "integer tag values are canonical decimal texts (paperspace flag 67: only \"0\" is false)",
]
OPEN = [
    "TableHead: the tags of the input symbol-table subclass other than the count (e.g. the handle list AutoCAD writes into the DIMSTYLE "
    "table head) are regenerated, not kept; XRecord: an embedded object behind the payload is not kept (both modelled, streams X4 / X10, "
    "outside the theorems' hypotheses)",
    "the document-level theorems take the output of an implemented class for its own record, TABLES, the CLASS entries and the objects "
    "ezdxf creates itself as parameters; HEADER, CLASSES and ACDSDATA are composed into file_passthrough at tag level (header VALUES "
    "are opaque: ezdxf re-formats numbers and maintains some variables itself, e.g. $HANDSEED, which stream D3 masks)",
    "proxy graphic DECODING (virtual entities) is not modelled: proxy data is proved to be kept as opaque tags only; binary DXF framing "
    "and value typing are C03; foreign content on implemented entities other than XRECORD / TABLE heads / ACAD_PROXY_ENTITY "
    "(XDATA, application groups, embedded objects of LINE, MTEXT, ...) is oracle-only (O1 hosts)",
    "second cycle of the ENTITIES section as a whole (the modelspace / paperspace partition of the re-read records) and of BLOCKS is proved "
    "per entity space only (entity_space_second_cycle), not composed with the linker and the layout decision; TABLES bodies are a parameter; "
    "file_passthrough is not composed with C03's binary framing theorem (different tag types)",
    "storage_idempotent_any needs tieFree (reactor handles with pairwise different numeric values): CPython iterates a set of equal-key "
    "strings in hash order, which the model cannot predict",
]

SRC_ENTITY = "src/ezdxf/entities/dxfentity.py"
SRC_DOC = "src/ezdxf/document.py"
SRC_CONST = "src/ezdxf/lldxf/const.py"
SRC_TYPES = "src/ezdxf/lldxf/types.py"
SRC_SECT = "src/ezdxf/sections/entities.py"
SRC_HEADER = "src/ezdxf/sections/header.py"
SRCS = [SRC_ENTITY, SRC_DOC, SRC_CONST, SRC_TYPES, SRC_SECT, SRC_HEADER,
        "src/ezdxf/entities/appdata.py", "src/ezdxf/entities/xdata.py", "src/ezdxf/entities/xdict.py",
        "src/ezdxf/entities/dxfns.py", "src/ezdxf/lldxf/extendedtags.py", "src/ezdxf/lldxf/loader.py",
        "src/ezdxf/sections/classes.py", "src/ezdxf/lldxf/repair.py", "src/ezdxf/entities/table.py", "src/ezdxf/entities/dxfobj.py"]


# ------------------------------------------------------------------ regenerate: tables and export-order kernels from the source
def _func(tree: ast.AST, cls: str | None, name: str) -> ast.FunctionDef:
    for node in ast.walk(tree):
        if cls is None and isinstance(node, ast.FunctionDef) and node.name == name:
            return node
        if isinstance(node, ast.ClassDef) and node.name == cls:
            for sub in node.body:
                if isinstance(sub, ast.FunctionDef) and sub.name == name:
                    return sub
    raise ValueError(f"function {cls}.{name} not found")


def _body(fn: ast.FunctionDef) -> list[ast.stmt]:
    body = list(fn.body)
    if body and isinstance(body[0], ast.Expr) and isinstance(body[0].value, ast.Constant) and isinstance(body[0].value.value, str):
        body = body[1:]
    return body


def _tokens(stmts, table: dict[str, str], where: str) -> list[str]:
    """map every statement (normalised by ast.unparse) to a token of the model; anything unknown aborts the translation"""
    out = []
    for st in stmts:
        txt = ast.unparse(st)
        if txt not in table:
            raise ValueError(f"{where}: statement outside the translated subset: {txt!r}")
        tok = table[txt]
        if tok:
            out.append(tok)
    return out


BASE_STMTS = {
    "tagwriter.write_tag2(_handle_code, self.dxf.handle)": "handle",
    "if self.appdata:\n    self.appdata.export_dxf(tagwriter)": "appdata",
    "if self.has_extension_dict:\n    self.extension_dict.export_dxf(tagwriter)": "xdict",
    "if self.reactors:\n    self.reactors.export_dxf(tagwriter)": "reactors",
    "tagwriter.write_tag2(const.OWNER_CODE, self.dxf.get('owner', '0'))": "owner",
}
ENTITY_STMTS = {
    "if tagwriter.dxfversion < self.MIN_DXF_VERSION_FOR_EXPORT:\n    return": "",
    "if not self.preprocess_export(tagwriter):\n    return": "",
    "self.export_base_class(tagwriter)": "base",
    "self.export_entity(tagwriter)": "entity",
    "self.export_xdata(tagwriter)": "xdata",
}
STORAGE_STMTS = {
    "for subclass in self.xtags.subclasses[1:]:\n    tagwriter.write_tags(subclass)": "subclasses",
    "if self.embedded_objects:\n    for tags in self.embedded_objects:\n        tagwriter.write_tags(tags)": "embedded",
}
TABLEHEAD_STMTS = {
    "tagwriter.write_tag2(5, self.dxf.handle)": "handle",
    "if self.appdata:\n    self.appdata.export_dxf(tagwriter)": "appdata",
    "if self.has_extension_dict:\n    self.extension_dict.export_dxf(tagwriter)": "xdict",
    "if self.reactors:\n    self.reactors.export_dxf(tagwriter)": "reactors",
    "tagwriter.write_tag2(const.OWNER_CODE, self.dxf.owner)": "owner",
    "tagwriter.write_tag2(const.SUBCLASS_MARKER, acdb_symbol_table.name)": "subclass",
    "tagwriter.write_tag2(70, self.dxf.count)": "count",
    "if self.dxf.name == 'DIMSTYLE':\n    tagwriter.write_tag2(const.SUBCLASS_MARKER, 'AcDbDimStyleTable')": "dimstyle",
    "self.export_xdata(tagwriter)": "xdata",
}
SECTION_STMTS = {
    "dxfversion = tagwriter.dxfversion": "",
    "self.header.export_dxf(tagwriter)": "header",
    "if dxfversion > DXF12:\n    self.classes.export_dxf(tagwriter)": "classes",
    "self.tables.export_dxf(tagwriter)": "tables",
    "self.blocks.export_dxf(tagwriter)": "blocks",
    "self.entities.export_dxf(tagwriter)": "entities",
    "if dxfversion > DXF12:\n    self.objects.export_dxf(tagwriter)": "objects",
    "if self.acdsdata.is_valid:\n    self.acdsdata.export_dxf(tagwriter)": "acdsdata",
    "for section in self.stored_sections:\n    section.export_dxf(tagwriter)": "stored",
    "tagwriter.write_tag2(0, 'EOF')": "eof",
}


def _nats(s: str) -> str:
    return lean_list(str(ord(c)) for c in s)



# ------------------------------------------------------------------ regenerate (session 3): document-level tables and kernels
ENTSEC_BUILD = [
    "assert self.doc is not None",
    "section_head = cast('DXFTagStorage', next(entities))",
    "if section_head.dxftype() != 'SECTION' or section_head.base_class[1] != (2, 'ENTITIES'):\n    raise const.DXFStructureError('Critical structure error in ENTITIES section.')",
    "def add(entity: DXFGraphic):\n    handle = entity.dxf.owner\n    paperspace = 0\n    if handle == msp_layout_key:\n        paperspace = 0\n    elif handle == psp_layout_key:\n        paperspace = 1\n    elif entity.dxf.hasattr('paperspace'):\n        paperspace = entity.dxf.paperspace\n    if paperspace:\n        psp.add_entity(entity)\n    else:\n        msp.add_entity(entity)",
    "msp = cast('BlockRecord', self.doc.block_records.get('*Model_Space'))",
    "psp = cast('BlockRecord', self.doc.block_records.get('*Paper_Space'))",
    "msp_layout_key: str = msp.dxf.handle",
    "psp_layout_key: str = psp.dxf.handle",
    "linked_entities = entity_linker()",
    "for entity in entities:\n    if not linked_entities(entity):\n        add(entity)",
]
ENTSEC_EXPORT = {
    "assert self.doc is not None": "",
    "layouts = self.doc.layouts": "",
    "tagwriter.write_str('  0\\nSECTION\\n  2\\nENTITIES\\n')": "",
    "layouts.modelspace().entity_space.export_dxf(tagwriter)": "modelspace",
    "layouts.active_layout().entity_space.export_dxf(tagwriter)": "activePaperspace",
    "tagwriter.write_tag2(0, 'ENDSEC')": "",
}
OBJSEC_BUILD = [
    "section_head = cast('DXFTagStorage', next(entities))",
    "if section_head.dxftype() != 'SECTION' or section_head.base_class[1] != (2, 'OBJECTS'):\n    raise const.DXFStructureError('Critical structure error in the OBJECTS section.')",
    "for entity in entities:\n    self._entity_space.add(entity)",
]
OBJSEC_EXPORT = ["tagwriter.write_str('  0\\nSECTION\\n  2\\nOBJECTS\\n')", "db = self.entitydb",
                 "for entity in self._entity_space:\n    if not is_owned_by_unlinked_entity(entity, db):\n        entity.export_dxf(tagwriter)",
                 "tagwriter.write_tag2(0, 'ENDSEC')"]   # fix 42c45156c: model DocCfg.skipObject
LINKER_TEXT = (
    "def entity_linker_(entity: DXFEntity) -> bool:\n    nonlocal main_entity, expected_dxftype\n    dxftype: str = entity.dxftype()\n"
    "    are_linked_entities = False\n    if main_entity is not None:\n        are_linked_entities = True\n        if dxftype == 'SEQEND':\n"
    "            main_entity.link_seqend(entity)\n            main_entity = None\n        elif dxftype == expected_dxftype:\n"
    "            main_entity.link_entity(entity)\n        else:\n            raise const.DXFStructureError(f'Expected DXF entity {dxftype} or SEQEND')\n"
    "    elif dxftype in LINKED_ENTITIES:\n        if dxftype == 'INSERT' and (not entity.dxf.get('attribs_follow', 0)):\n            pass\n"
    "        else:\n            main_entity = entity\n            expected_dxftype = LINKED_ENTITIES[dxftype]\n"
    "    elif dxftype == 'MTEXT' and entity.dxf.handle is None:\n        logger.error('Found attached MTEXT entity. Please open an issue at github: "
    "https://github.com/mozman/ezdxf/issues and provide a DXF example file.')\n    return are_linked_entities"
)
CLASS_ATTR_TOKENS = {"name": "name", "cpp_class_name": "cpp", "app_name": "app", "flags": "flags", "instance_count": "count",
                     "was_a_proxy": "proxy", "is_an_entity": "entity"}
CLASS_ATTR_SPEC = {  # name -> (group code, default, min dxf version) as the model assumes them
    "name": (1, None, "AC1009"), "cpp_class_name": (2, None, "AC1009"), "app_name": (3, None, "AC1009"), "flags": (90, 0, "AC1009"),
    "instance_count": (91, 0, "AC1018"), "was_a_proxy": (280, 0, "AC1009"), "is_an_entity": (281, 0, "AC1009")}


PINNED_FUNCTIONS = [  # (file, class, function, sha256[:16] of the docstring-free ast.unparse): hand-modelled in Model/StorageDoc.lean
    ('src/ezdxf/sections/objects.py', None, 'is_owned_by_unlinked_entity', '7b5496376b5f91a5'),
    ('src/ezdxf/sections/blocks.py', 'BlocksSection', 'load', '643b805409f04d90'),
    ('src/ezdxf/sections/blocks.py', 'BlocksSection', 'export_dxf', '0189b78cabd2cbd0'),
    ('src/ezdxf/entities/blockrecord.py', 'BlockRecord', 'export_block_definition', 'b9574820f0b83ab3'),
    ('src/ezdxf/entities/blockrecord.py', 'BlockRecord', 'add_entity', '89b5fe93071825d0'),
    ('src/ezdxf/entities/table.py', 'TableHead', 'load_dxf_attribs', '107a78a51be80070'),
    ('src/ezdxf/sections/header.py', 'HeaderSection', 'load_tags', '053d953baa2cb0d3'),
    ('src/ezdxf/entities/dxfentity.py', 'DXFTagStorage', 'store_tags', '816854cffbb1fd04'),
    ('src/ezdxf/entities/dxfentity.py', 'DXFTagStorage', 'load', '3abe2c16b1990550'),
    ('src/ezdxf/lldxf/extendedtags.py', 'ExtendedTags', 'get_subclass', 'c63c7267dcbcbe4c'),
    ('src/ezdxf/lldxf/tags.py', None, 'group_tags', '7df8ac0ac6d02b56'),
    ('src/ezdxf/sections/acdsdata.py', 'AcDsDataSection', 'load_tags', '87f3a67aab39b7fe'),
    ('src/ezdxf/sections/acdsdata.py', 'AcDsDataSection', 'append', 'dca1a7b3720ec703'),
    ('src/ezdxf/sections/classes.py', 'ClassesSection', 'load', 'ae14ce53a1c62c18'),
    ('src/ezdxf/lldxf/loader.py', None, 'load_and_bind_dxf_content', '7cb661e9569c47d6'),
    ('src/ezdxf/lldxf/loader.py', None, 'load_dxf_entities', 'ce19c6b03d09c9e7'),
    ('src/ezdxf/lldxf/validator.py', None, 'header_validator', '01e7980cce73a746'),
    ('src/ezdxf/entities/dxfobj.py', 'XRecord', 'export_entity', '6f6e070f735aadf6'),
]


def _strip_doc(fn):
    fn = ast.parse(ast.unparse(fn)).body[0]
    for node in ast.walk(fn):
        if isinstance(node, (ast.FunctionDef, ast.ClassDef)) and node.body and isinstance(node.body[0], ast.Expr) \
                and isinstance(node.body[0].value, ast.Constant) and isinstance(node.body[0].value.value, str):
            node.body = node.body[1:] or [ast.Pass()]
    return fn


def _regen_document_level(ctx) -> str:
    """tables and statement orders for Model/StorageDoc.lean; anything outside the recognised subset aborts the translation"""
    from ezdxf.entities import factory
    from ezdxf.entities.subentity import LINKED_ENTITIES
    from ezdxf.entities.dxfclass import DXFClass
    from ezdxf.sections.headervars import HEADER_VAR_MAP
    from ezdxf.lldxf import types as _types

    more = ["src/ezdxf/sections/objects.py", "src/ezdxf/entities/subentity.py", "src/ezdxf/entities/factory.py", "src/ezdxf/entities/dxfclass.py",
            "src/ezdxf/sections/headervars.py", "src/ezdxf/entities/dictionary.py", "src/ezdxf/sections/blocks.py", "src/ezdxf/sections/acdsdata.py", "src/ezdxf/entities/acad_proxy_entity.py", "src/ezdxf/lldxf/tags.py"]
    for m in more:
        ctx.src(m)
        if m not in SRCS:
            SRCS.append(m)
    sect = ast.parse(ctx.src(SRC_SECT))
    got = [ast.unparse(s) for s in _body(_func(sect, "EntitySection", "_build"))]
    if got != ENTSEC_BUILD:
        raise ValueError("EntitySection._build outside the translated subset: " + repr([g for g in got if g not in ENTSEC_BUILD][:2]))
    ent_order = _tokens(_body(_func(sect, "EntitySection", "export_dxf")), ENTSEC_EXPORT, "EntitySection.export_dxf")
    objs = ast.parse(ctx.src("src/ezdxf/sections/objects.py"))
    if [ast.unparse(s) for s in _body(_func(objs, "ObjectsSection", "_build"))] != OBJSEC_BUILD:
        raise ValueError("ObjectsSection._build outside the translated subset")
    if [ast.unparse(s) for s in _body(_func(objs, "ObjectsSection", "export_dxf"))] != OBJSEC_EXPORT:
        raise ValueError("ObjectsSection.export_dxf outside the translated subset")
    edb = ast.parse(ctx.src("src/ezdxf/entitydb.py"))
    if [ast.unparse(s) for s in _body(_func(edb, "EntitySpace", "export_dxf"))] != ["for entity in iter(self):\n    entity.export_dxf(tagwriter)"]:
        raise ValueError("EntitySpace.export_dxf outside the translated subset")
    sub = ast.parse(ctx.src("src/ezdxf/entities/subentity.py"))
    linker = ast.unparse(_strip_doc(_func(sub, None, "entity_linker_")))
    if linker != LINKER_TEXT:
        raise ValueError("entity_linker outside the translated subset")
    fac = ast.parse(ctx.src("src/ezdxf/entities/factory.py"))
    if [ast.unparse(s) for s in _body(_func(fac, None, "cls"))] != ["return ENTITY_CLASSES.get(dxftype, DEFAULT_CLASS)"] or \
            [ast.unparse(s) for s in _body(_func(fac, None, "load"))] != ["entity = cls(tags.dxftype()).load(tags, doc)",
                                                                          "return entity.cast() if hasattr(entity, 'cast') else entity"]:
        raise ValueError("factory.load / factory.cls outside the translated subset")
    if factory.DEFAULT_CLASS.__name__ != "DXFTagStorage":
        raise ValueError("factory.DEFAULT_CLASS is not DXFTagStorage")
    registered = sorted(factory.ENTITY_CLASSES)
    # --- CLASS
    dcl = ast.parse(ctx.src("src/ezdxf/entities/dxfclass.py"))
    exp = [ast.unparse(s) for s in _body(_func(dcl, "DXFClass", "export_dxf"))]
    if exp[:4] != ["dxfversion = tagwriter.dxfversion", "if dxfversion < DXF2000:\n    return", "attribs = self.dxf", "tagwriter.write_tag2(0, self.DXFTYPE)"] \
            or len(exp) != 5 or not exp[4].startswith("attribs.export_dxf_attribs(tagwriter, ["):
        raise ValueError("DXFClass.export_dxf outside the translated subset")
    call = _body(_func(dcl, "DXFClass", "export_dxf"))[4].value
    names = [e.value for e in call.args[1].elts]
    if sorted(names) != sorted(CLASS_ATTR_TOKENS):
        raise ValueError("DXFClass.export_dxf: attribute list changed: " + repr(names))
    ld = [ast.unparse(s) for s in _body(_func(dcl, "DXFClass", "load_tags"))]
    if ld != ["if tags:\n    self.dxf = DXFNamespace(entity=self)\n    processor = SubclassProcessor(tags)\n    processor.fast_load_dxfattribs(self.dxf, class_def_group_codes, 0, log=False)"]:
        raise ValueError("DXFClass.load_tags outside the translated subset")
    for n, (code, default, mindxf) in CLASS_ATTR_SPEC.items():
        a = DXFClass.DXFATTRIBS.get(n)
        if a is None or a.code != code or a.default != default or a.optional or (a.dxfversion != mindxf):
            raise ValueError(f"class_def attribute {n} changed: code={getattr(a, 'code', None)} default={getattr(a, 'default', None)} "
                             f"optional={getattr(a, 'optional', None)} dxfversion={getattr(a, 'dxfversion', None)}")
    cls_src = ast.parse(ctx.src("src/ezdxf/sections/classes.py"))
    reg = [ast.unparse(s) for s in _body(_func(cls_src, "ClassesSection", "register"))]
    if reg[-1] != "for dxfclass in classes:\n    key = dxfclass.key\n    if key not in self.classes:\n        self.classes[key] = dxfclass":
        raise ValueError("ClassesSection.register outside the translated subset")
    cexp = [ast.unparse(s) for s in _body(_func(cls_src, "ClassesSection", "export_dxf"))]
    if cexp != ["tagwriter.write_str('  0\\nSECTION\\n  2\\nCLASSES\\n')", "for dxfclass in self.classes.values():\n    dxfclass.export_dxf(tagwriter)",
                "tagwriter.write_str('  0\\nENDSEC\\n')"]:
        raise ValueError("ClassesSection.export_dxf outside the translated subset")
    # --- ClassesSection.add_class / add_required_classes: a class ezdxf registers never replaces an entry of the file
    from ezdxf.sections import classes as _clsmod
    cls_src0 = ast.parse(ctx.src("src/ezdxf/sections/classes.py"))
    addc = [ast.unparse(x) for x in _body(_func(cls_src0, "ClassesSection", "add_class"))]
    if addc != ["if name not in CLASS_DEFINITIONS:\n    return", "cls_data = CLASS_DEFINITIONS[name]", "cls = DXFClass.new(doc=self.doc)",
                "cpp, app, flags, proxy, entity = cls_data",
                "cls.update_dxf_attribs({'name': name, 'cpp_class_name': cpp, 'app_name': app, 'flags': flags, 'was_a_proxy': proxy, 'is_an_entity': entity})",
                "self.register(cls)"]:
        raise ValueError("ClassesSection.add_class outside the translated subset: " + repr(addc))
    addr = [ast.unparse(x) for x in _body(_func(cls_src0, "ClassesSection", "add_required_classes"))]
    if addr[:3] != ["names = REQUIRED_CLASSES.get(dxfversion, REQ_R2004)", "for name in names:\n    self.add_class(name)", "if self.doc is None:\n    return"] \
            or addr[-1] != "for dxftype in dxf_types_in_use:\n    self.add_class(dxftype)" \
            or not all(a.startswith("if '") and "in dxf_types_in_use:\n    self.add_class(" in a for a in addr[4:-1]) \
            or addr[3] != "dxf_types_in_use = self.doc.entitydb.dxf_types_in_use()":
        raise ValueError("ClassesSection.add_required_classes outside the translated subset")
    if sorted(_clsmod.REQUIRED_CLASSES) != ["AC1015", "AC1018"]:
        raise ValueError("REQUIRED_CLASSES keys changed")
    cdefs = [f"({_nats(n)}, {_nats(v[0])}, {_nats(v[1])}, {int(v[2])}, {int(v[3])}, {int(v[4])})" for n, v in _clsmod.CLASS_DEFINITIONS.items()]
    # --- DXFEntity.shallow_copy (type cast of POLYLINE to polyface / polymesh): which data containers the cast entity shares
    entsrc = ast.parse(ctx.src(SRC_ENTITY))
    sc = _body(_func(entsrc, "DXFEntity", "shallow_copy"))
    sc_txt = [ast.unparse(x) for x in sc]
    if sc_txt[0] != "entity = cls()" or sc_txt[-2:] != ["entity.dxf.rewire(entity)", "return entity"]:
        raise ValueError("DXFEntity.shallow_copy outside the translated subset: " + repr(sc_txt))
    shared = []
    for st in sc[1:-2]:
        t = ast.unparse(st)
        m = re.fullmatch(r"entity\.(\w+) = other\.(\w+)", t)
        if m and m.group(1) == m.group(2):
            shared.append(m.group(1))
        elif isinstance(st, ast.For) and isinstance(st.iter, (ast.Tuple, ast.List)) and all(isinstance(e, ast.Constant) and isinstance(e.value, str) for e in st.iter.elts) \
                and [ast.unparse(b) for b in st.body] == [f"setattr(entity, {ast.unparse(st.target)}, getattr(other, {ast.unparse(st.target)}))"]:
            shared += [e.value for e in st.iter.elts]
        else:
            raise ValueError("DXFEntity.shallow_copy outside the translated subset: " + t)
    cast_classes = sorted(n for n, c in factory.ENTITY_CLASSES.items() if hasattr(c, "cast"))
    # --- HeaderSection.export_dxf._write and _cast_header_value (fix 16b0d709b: model castGroup)
    hsrc0 = ast.parse(ctx.src(SRC_HEADER))
    wr = ast.unparse(_func(_func(hsrc0, "HeaderSection", "export_dxf"), None, "_write"))
    if wr != ("def _write(name: str, value: Any) -> None:\n    if value.value is None:\n        logger.info(f'did not write header var {name}, value is None.')\n"
              "        return\n    group_code = version_specific_group_code(name, dxfversion)\n    if group_code != value.code:\n        try:\n"
              "            value = HeaderVar(_cast_header_value(group_code, value.value))\n        except (ValueError, TypeError):\n"
              "            logger.info(f'did not write header var {name}, invalid value.')\n            return\n    tagwriter.write_tag2(9, name)\n"
              "    tagwriter.write_str(str(value))"):
        raise ValueError("HeaderSection.export_dxf._write outside the translated subset")
    cst = ast.unparse(_strip_doc(_func(hsrc0, None, "_cast_header_value")))
    if cst != ("def _cast_header_value(code: int, value: Any) -> tuple[int, Any]:\n    if code == 10:\n        if isinstance(value, str) or not 2 <= len(value) <= 3:\n"
               "            raise ValueError('invalid point')\n        return (code, tuple((float(v) for v in value)))\n    return (code, cast_tag_value(code, value))"):
        raise ValueError("_cast_header_value outside the translated subset: " + repr(cst))
    # --- HEADER_VAR_MAP
    hv = []
    for name, d in HEADER_VAR_MAP.items():
        if d.name != name or not (d.mindxf.startswith("AC") and d.maxdxf.startswith("AC")):
            raise ValueError("HEADER_VAR_MAP entry outside the translated subset: " + name)
        hv.append(f"({_nats(name)}, {int(d.priority)}, {int(d.mindxf[2:])}, {int(d.maxdxf[2:])})")
    hvc = [f"({_nats(name)}, {int(d.code)})" for name, d in HEADER_VAR_MAP.items()]
    hvs = ast.parse(ctx.src("src/ezdxf/sections/headervars.py"))
    vs = [ast.unparse(x) for x in _body(_func(hvs, None, "version_specific_group_code"))]
    if vs != ["group_code = HEADER_VAR_MAP[name].code",
              "if name == '$ACADMAINTVER':\n    group_code = 70 if dxfversion < DXF2018 else 90\nelif name == '$XCLIPFRAME':\n    group_code = 290 if dxfversion < DXF2010 else 280",
              "return group_code"]:
        raise ValueError("version_specific_group_code outside the translated subset: " + repr(vs))
    from ezdxf.lldxf import const as _c
    if (_c.DXF2018, _c.DXF2010) != ("AC1032", "AC1024"):
        raise ValueError("DXF version constants changed")
    hsrc = ast.parse(ctx.src(SRC_HEADER))
    cw = [ast.unparse(x) for x in _body(_func(hsrc, "CustomVars", "write"))]
    if cw != ["for tag, value in self.properties:\n    s = f'  9\\n$CUSTOMPROPERTYTAG\\n  1\\n{tag}\\n  9\\n$CUSTOMPROPERTY\\n  1\\n{value}\\n'\n    tagwriter.write_str(s)"]:
        raise ValueError("CustomVars.write outside the translated subset: " + repr(cw))
    byp = ast.unparse(_strip_doc(_func(hsrc, None, "header_vars_by_priority")))
    want = ("def header_vars_by_priority(header_vars: dict[str, HeaderVar], dxfversion: str) -> Iterable[tuple]:\n    order = []\n"
            "    for name, value in header_vars.items():\n        vardef = HEADER_VAR_MAP.get(name, None)\n        if vardef is None:\n"
            "            logger.info(f'Header variable {name} ignored, dxfversion={dxfversion}.')\n            continue\n"
            "        if vardef.mindxf <= dxfversion <= vardef.maxdxf:\n            order.append((vardef.priority, (name, value)))\n"
            "    order.sort()\n    for priority, tag in order:\n        yield tag")
    if byp != want:
        raise ValueError("header_vars_by_priority outside the translated subset")
    # --- ACDSDATA / proxy entity: the statements the model depends on
    acds = ast.parse(ctx.src("src/ezdxf/sections/acdsdata.py"))
    aexp = [ast.unparse(s) for s in _body(_func(acds, "AcDsDataSection", "export_dxf"))]
    if aexp != ["if not self.is_valid or not self.has_records:\n    return", "tagwriter.write_tags(self.section_info)",
                "for entity in self.entities:\n    entity.export_dxf(tagwriter)", "tagwriter.write_tag2(0, 'ENDSEC')"]:
        raise ValueError("AcDsDataSection.export_dxf outside the translated subset")
    rinit = [ast.unparse(s) for s in _body(_func(acds, "AcDsRecord", "__init__"))]
    if rinit != ["self._dxftype = tags[0]", "self.flags = tags[1]", "self.sections = [Section(group) for group in group_tags(islice(tags, 2, None), splitcode=2)]"]:
        raise ValueError("AcDsRecord.__init__ outside the translated subset")
    rexp = [ast.unparse(s) for s in _body(_func(acds, "AcDsRecord", "export_dxf"))]
    if rexp != ["self._write_header(tagwriter)", "for section in self.sections:\n    tagwriter.write_tags(section)"]:
        raise ValueError("AcDsRecord.export_dxf outside the translated subset")
    prx = ast.parse(ctx.src("src/ezdxf/entities/acad_proxy_entity.py"))
    pexp = [ast.unparse(s) for s in _body(_func(prx, "ACADProxyEntity", "export_entity"))]
    if pexp != ["super().export_entity(tagwriter)", "if self.acdb_proxy_entity is not None:\n    tagwriter.write_tags(self.acdb_proxy_entity)"]:
        raise ValueError("ACADProxyEntity.export_entity outside the translated subset")
    if "self.acdb_proxy_entity = processor.subclass_by_index(2)" not in ast.unparse(_func(prx, "ACADProxyEntity", "load_dxf_attribs")):
        raise ValueError("ACADProxyEntity.load_dxf_attribs outside the translated subset")

    # --- functions that are modelled by hand and pinned as a whole: any change aborts the translation until the model is reviewed
    import hashlib
    for f, c, n, want in PINNED_FUNCTIONS:
        ctx.src(f)
        if f not in SRCS:
            SRCS.append(f)
        got = hashlib.sha256(ast.unparse(_strip_doc(_func(ast.parse(ctx.src(f)), c, n))).encode()).hexdigest()[:16]
        if got != want:
            raise ValueError(f"{f}: {c + '.' if c else ''}{n} changed (hash {got}, modelled {want}): review Model/StorageDoc.lean")
    # --- Dictionary.load_dict / export_dict
    dsrc = ast.parse(ctx.src("src/ezdxf/entities/dictionary.py"))
    if [ast.unparse(x) for x in _body(_func(dsrc, "Dictionary", "load_dict"))] != ['entry_handle = None', 'dict_key = None', 'value_code = VALUE_CODE', 'for code, value in tags:\n    if code in SEARCH_CODES:\n        value_code = code\n        entry_handle = value\n    elif code == KEY_CODE:\n        dict_key = value\n    if dict_key is not None and entry_handle is not None:\n        self._data[dict_key] = entry_handle\n        entry_handle = None\n        dict_key = None', 'self._value_code = value_code']:
        raise ValueError("Dictionary.load_dict outside the translated subset")
    if [ast.unparse(x) for x in _body(_func(dsrc, "Dictionary", "export_dict"))] != ['for key, value in self._data.items():\n    tagwriter.write_tag2(KEY_CODE, key)\n    if isinstance(value, DXFEntity):\n        if value.is_alive:\n            value = value.dxf.handle\n        else:\n            logger.debug(f\'Key "{key}" points to a destroyed entity in {str(self)}, target replaced by "0" handle.\')\n            value = \'0\'\n    tagwriter.write_tag2(self._value_code, value)']:
        raise ValueError("Dictionary.export_dict outside the translated subset")
    from ezdxf.entities import dictionary as _dictmod
    if (_dictmod.KEY_CODE, _dictmod.VALUE_CODE, tuple(_dictmod.SEARCH_CODES)) != (3, 350, (350, 360)) or \
            sorted(_dictmod.acdb_dictionary_group_codes) != [280, 281]:
        raise ValueError("dictionary.py: group code constants changed")
    # --- which registered classes keep the generic base class / XDATA handling of DXFEntity
    import inspect
    from ezdxf.entities.dxfentity import DXFEntity

    from ezdxf.entities.dxfentity import DXFTagStorage

    generic, special, storage = [], [], []
    for name in registered:
        c = factory.ENTITY_CLASSES[name]
        if issubclass(c, DXFTagStorage):
            # a registered class that IS a tag storage (same load / export as the default class): handled like an unknown type
            same = all(getattr(getattr(c, m), "__func__", getattr(c, m)) is getattr(getattr(DXFTagStorage, m), "__func__", getattr(DXFTagStorage, m))
                       for m in ("export_dxf", "export_base_class", "export_entity", "export_xdata", "load", "load_tags", "setup_app_data",
                                 "store_tags", "store_embedded_objects"))
            (storage if same else special).append(name)
            continue
        over = []
        for m in ("export_dxf", "export_base_class", "export_xdata", "load_tags", "setup_app_data", "load"):
            fa, fb = getattr(c, m), getattr(DXFEntity, m)
            if getattr(fa, "__func__", fa) is not getattr(fb, "__func__", fb):
                over.append(m)
        if not over:
            generic.append(name)
        elif over == ["export_dxf"]:
            # a wrapper is fine: the first statement calls the generic export, what follows writes further records
            fn = ast.parse(textwrap.dedent(inspect.getsource(c.export_dxf))).body[0]
            body = [ast.unparse(x) for x in _body(fn)]
            if body and (body[0] == "super().export_dxf(tagwriter)" or
                         (name == "ACAD_PROXY_ENTITY" and "super().export_dxf(tagwriter)" in body and not any("write_tag" in b for b in body))):
                generic.append(name)
            else:
                special.append(name)
        else:
            special.append(name)

    def enum(name, ctors):
        return f"inductive {name} where\n" + "".join(f"  | {c}\n" for c in ctors) + "  deriving Repr, DecidableEq\n"

    return f"""
/-! session 3: document level -/
/-- registered types whose class keeps `DXFEntity.load_tags / export_dxf / export_base_class / export_xdata` (a wrapper that
    first calls the generic export counts as generic), and the others -/
def genericTypes : List (List Nat) := {lean_list((_nats(s) for s in generic), per_line=1)}
def specialTypes : List (List Nat) := {lean_list((_nats(s) for s in special), per_line=1)}
/-- registered types whose class is a `DXFTagStorage` with the unchanged load / export: treated like a type without class -/
def storageTypes : List (List Nat) := {lean_list((_nats(s) for s in storage), per_line=1)}
/-- keys of `factory.ENTITY_CLASSES` (every other DXF type is loaded as DXFTagStorage) -/
def registeredTypes : List (List Nat) := {lean_list((_nats(s) for s in registered), per_line=1)}
/-- `subentity.LINKED_ENTITIES` -/
def linkedEntities : List (List Nat × List Nat) := {lean_list(f"({_nats(k)}, {_nats(v)})" for k, v in LINKED_ENTITIES.items())}
/-- entity spaces written by `EntitySection.export_dxf`, in order -/
{enum("EntitiesPart", ["modelspace", "activePaperspace"])}
def entitiesOrder : List EntitiesPart := {lean_list("." + t for t in ent_order)}
/-- attribute list of `DXFClass.export_dxf` -/
{enum("ClassAttr", ["name", "cpp", "app", "flags", "count", "proxy", "entity"])}
def classAttribOrder : List ClassAttr := {lean_list("." + CLASS_ATTR_TOKENS[n] for n in names)}
/-- `HEADER_VAR_MAP`: (name, priority, mindxf, maxdxf) -/
def headerVarMap : List (List Nat × Nat × Nat × Nat) := {lean_list(hv, per_line=1)}
/-- `CLASS_DEFINITIONS`: (name, C++ class name, application name, flags, was-a-proxy, is-an-entity) -/
def classDefinitions : List (List Nat × List Nat × List Nat × Nat × Nat × Nat) := {lean_list(cdefs, per_line=1)}
/-- `REQUIRED_CLASSES` (names `add_required_classes` registers for a R2000 / a R2004+ target) -/
def requiredR2000 : List (List Nat) := {lean_list((_nats(n) for n in _clsmod.REQUIRED_CLASSES["AC1015"]), per_line=1)}
def requiredR2004 : List (List Nat) := {lean_list((_nats(n) for n in _clsmod.REQUIRED_CLASSES["AC1018"]), per_line=1)}
/-- the attributes `DXFEntity.shallow_copy` (type cast, e.g. POLYLINE -> polyface mesh) shares with the source entity, and the
    registered types whose class has a `cast` method -/
def shallowCopyFields : List (List Nat) := {lean_list((_nats(n) for n in shared), per_line=1)}
def castTypes : List (List Nat) := {lean_list((_nats(n) for n in cast_classes), per_line=1)}
/-- `types.TYPE_TABLE`: group codes with an integer / a floating point value (every other code: text) -/
def intCodes : List Nat := {lean_list(str(c) for c in sorted(c for c, t in _types.TYPE_TABLE.items() if t is int and c >= 0))}
def floatCodes : List Nat := {lean_list(str(c) for c in sorted(c for c, t in _types.TYPE_TABLE.items() if t is float and c >= 0))}
/-- group code of the value tag of every header variable (latest DXF version; `version_specific_group_code` has two exceptions) -/
def headerVarCodes : List (List Nat × Nat) := {lean_list(hvc, per_line=1)}
"""


def regenerate(ctx):
    for s in SRCS:
        ctx.src(s)
    ent = ast.parse(ctx.src(SRC_ENTITY))
    doc = ast.parse(ctx.src(SRC_DOC))
    from ezdxf.lldxf import const, types

    # --- DXFEntity.export_base_class: first statement writes (0, DXFTYPE); the R2000+ branch lists the base-class parts in order
    fn = _body(_func(ent, "DXFEntity", "export_base_class"))
    txt = [ast.unparse(s) for s in fn]
    if txt[:3] != ["dxftype = self.DXFTYPE", "_handle_code = 105 if dxftype == 'DIMSTYLE' else 5",
                   "tagwriter.write_tag2(const.STRUCTURE_MARKER, dxftype)"] or len(fn) != 4 or not isinstance(fn[3], ast.If):
        raise ValueError("export_base_class: prologue outside the translated subset: " + repr(txt[:4]))
    if ast.unparse(fn[3].test) != "tagwriter.dxfversion >= const.DXF2000":
        raise ValueError("export_base_class: version test changed: " + ast.unparse(fn[3].test))
    base_order = _tokens(fn[3].body, BASE_STMTS, "export_base_class")
    entity_order = _tokens(_body(_func(ent, "DXFEntity", "export_dxf")), ENTITY_STMTS, "DXFEntity.export_dxf")
    storage_order = _tokens(_body(_func(ent, "DXFTagStorage", "export_entity")), STORAGE_STMTS, "DXFTagStorage.export_entity")
    xd = [ast.unparse(s) for s in _body(_func(ent, "DXFEntity", "export_xdata"))]
    if xd != ["if self.xdata:\n    self.xdata.export_dxf(tagwriter)"]:
        raise ValueError("export_xdata outside the translated subset: " + repr(xd))
    section_order = _tokens(_body(_func(doc, "Drawing", "export_sections")), SECTION_STMTS, "Drawing.export_sections")
    # --- Drawing._load: sections deleted before loading
    deleted = []
    for st in _body(_func(doc, "Drawing", "_load")):
        for node in ast.walk(st):
            if isinstance(node, ast.Delete):
                for tgt in node.targets:
                    if (isinstance(tgt, ast.Subscript) and ast.unparse(tgt.value) == "sections"
                            and isinstance(tgt.slice, ast.Constant) and isinstance(tgt.slice.value, str)):
                        deleted.append(tgt.slice.value)
                    else:
                        raise ValueError("Drawing._load: del statement outside the translated subset: " + ast.unparse(node))
    # --- StoredSection.export_dxf
    sect = ast.parse(ctx.src(SRC_SECT))
    st = [ast.unparse(s) for s in _body(_func(sect, "StoredSection", "export_dxf"))]
    if st != ["for entity in self.entities:\n    tagwriter.write_tags(entity)", "tagwriter.write_str('  0\\nENDSEC\\n')"]:
        raise ValueError("StoredSection.export_dxf outside the translated subset: " + repr(st))
    # --- HeaderSection.export_dxf: where the custom properties are written (inside the loop behind $LASTSAVEDBY; after the loop)
    hdr = ast.parse(ctx.src(SRC_HEADER))
    hfn = _func(hdr, "HeaderSection", "export_dxf")
    loops = [n for n in hfn.body if isinstance(n, ast.For)]
    if len(loops) != 1:
        raise ValueError("HeaderSection.export_dxf: expected exactly one loop over the header variables")
    anchor = [ast.unparse(n.test) for n in ast.walk(loops[0]) if isinstance(n, ast.If) and "self.custom_vars.write(tagwriter)" in ast.unparse(n)]
    if anchor != ["name == '$LASTSAVEDBY'"]:
        raise ValueError("HeaderSection.export_dxf: custom property anchor changed: " + repr(anchor))
    after = [n for n in hfn.body[hfn.body.index(loops[0]) + 1:] if "self.custom_vars.write(tagwriter)" in ast.unparse(n)]
    if not after:
        fallback = "never"
    elif len(after) == 1 and isinstance(after[0], ast.If) and ast.unparse(after[0].body[0]) == "self.custom_vars.write(tagwriter)" and len(after[0].body) == 1:
        test = ast.unparse(after[0].test)
        fallback = {"not custom_vars_written": "always", "not custom_vars_written and dxfversion >= const.DXF2004": "fromR2004"}.get(test)
        if fallback is None:
            raise ValueError("HeaderSection.export_dxf: fall-back condition outside the translated subset: " + test)
    else:
        raise ValueError("HeaderSection.export_dxf: custom property fall-back outside the translated subset")
    # --- TableHead.export_dxf (R2000+ branch) and XRecord.load_dxf_attribs
    tab = ast.parse(ctx.src("src/ezdxf/entities/table.py"))
    tfn = _body(_func(tab, "TableHead", "export_dxf"))
    tif = [n for n in tfn if isinstance(n, ast.If) and ast.unparse(n.test) == "tagwriter.dxfversion >= const.DXF2000"]
    pre = [ast.unparse(n) for n in tfn if not isinstance(n, (ast.If, ast.Assert))]
    if len(tif) != 1 or pre != ["tagwriter.write_tag2(const.STRUCTURE_MARKER, self.DXFTYPE)", "tagwriter.write_tag2(2, self.dxf.name)"]:
        raise ValueError("TableHead.export_dxf outside the translated subset: " + repr(pre))
    tablehead_order = _tokens(tif[0].body, TABLEHEAD_STMTS, "TableHead.export_dxf")
    obj = ast.parse(ctx.src("src/ezdxf/entities/dxfobj.py"))
    xsrc = ast.unparse(_func(obj, "XRecord", "load_dxf_attribs"))
    if "self.tags = Tags(tags[start_index:])" not in xsrc or "tags = processor.subclasses[1]" not in xsrc:
        raise ValueError("XRecord.load_dxf_attribs outside the translated subset")
    keep_later = "for subclass in processor.subclasses[2:]:\n            self.tags.extend(subclass)" in xsrc
    if not keep_later and "subclasses[2" in xsrc:
        raise ValueError("XRecord.load_dxf_attribs: handling of later subclasses outside the translated subset")

    # --- Reactors.from_tags: are values that are no valid handles dropped at load time? (a later fix does that; the model follows)
    app = ast.parse(ctx.src("src/ezdxf/entities/appdata.py"))
    rbody = _body(_func(app, "Reactors", "from_tags"))
    rlast = ast.unparse(rbody[-1]) if rbody else ""
    if [ast.unparse(x) for x in rbody[:-1]] != ["if tags is None:\n    return cls(None)",
                                                  "if len(tags) < 2:\n    raise DXFStructureError('ACAD_REACTORS error')"]:
        raise ValueError("Reactors.from_tags outside the translated subset: " + repr([ast.unparse(x) for x in rbody[:-1]]))
    if rlast == "return cls((handle.value for handle in tags[1:-1]))":
        reactors_drop_invalid = False
    else:
        ret = rbody[-1]
        gen = ret.value.args[0] if isinstance(ret, ast.Return) and isinstance(ret.value, ast.Call) and len(ret.value.args) == 1 else None
        ok = (isinstance(gen, (ast.GeneratorExp, ast.ListComp, ast.SetComp)) and len(gen.generators) == 1
              and ast.unparse(gen.generators[0].iter) == "tags[1:-1]" and len(gen.generators[0].ifs) == 1
              and ast.unparse(gen.elt) == ast.unparse(gen.generators[0].target) + ".value"
              and "handle" in ast.unparse(gen.generators[0].ifs[0]) and ".value" in ast.unparse(gen.generators[0].ifs[0]))
        if not ok:
            raise ValueError("Reactors.from_tags outside the translated subset: " + rlast)
        reactors_drop_invalid = True
    rget = [ast.unparse(x) for x in _body(_func(app, "Reactors", "get"))]
    if rget != ["return sorted(self.reactors, key=lambda x: int(x, base=16))"]:
        raise ValueError("Reactors.get outside the translated subset: " + repr(rget))
    # --- session 3: record sections, factory dispatch, entity linker, CLASSES, HEADER (document-level model Model/StorageDoc.lean)
    doc_gen = _regen_document_level(ctx)

    def enum(name, ctors):
        return f"inductive {name} where\n" + "".join(f"  | {c}\n" for c in ctors) + "  deriving Repr, DecidableEq\n"

    ptr = sorted(c for c in range(0, 1100) if types.is_pointer_code(c))
    hnd = sorted(types.HANDLE_CODES)
    text = f"""
namespace EzdxfVerif.Gen.StorageTables

/-- parts written by `DXFEntity.export_base_class` after the (0, DXFTYPE) tag (DXF R2000+ branch) -/
{enum("BasePart", ["handle", "appdata", "xdict", "reactors", "owner"])}
/-- steps of `DXFEntity.export_dxf` -/
{enum("EntityPart", ["base", "entity", "xdata"])}
/-- steps of `DXFTagStorage.export_entity` -/
{enum("StoragePart", ["subclasses", "embedded"])}
/-- steps of `Drawing.export_sections` -/
{enum("SectionPart", ["header", "classes", "tables", "blocks", "entities", "objects", "acdsdata", "stored", "eof"])}
/-- where `HeaderSection.export_dxf` writes the custom properties when the loop did not (no $LASTSAVEDBY exported) -/
{enum("CustomFallback", ["never", "always", "fromR2004"])}
def customFallback : CustomFallback := .{fallback}
/-- parts written by `TableHead.export_dxf` behind (0, TABLE), (2, name) in the R2000+ branch -/
{enum("TableHeadPart", ["handle", "appdata", "xdict", "reactors", "owner", "subclass", "count", "dimstyle", "xdata"])}
def tableHeadOrder : List TableHeadPart := {lean_list("." + t for t in tablehead_order)}
/-- `Reactors.from_tags` keeps only values that are valid handles (`int(x, 16)` succeeds) -/
def reactorsDropInvalid : Bool := {"true" if reactors_drop_invalid else "false"}
/-- `XRecord.load_dxf_attribs` appends the tags of `processor.subclasses[2:]` to the payload -/
def xrecordKeepsLaterSubclasses : Bool := {"true" if keep_later else "false"}

/-- statement order of the current source (AST of entities/dxfentity.py, document.py) -/
def baseOrder : List BasePart := {lean_list("." + t for t in base_order)}
def entityOrder : List EntityPart := {lean_list("." + t for t in entity_order)}
def storageOrder : List StoragePart := {lean_list("." + t for t in storage_order)}
def sectionOrder : List SectionPart := {lean_list("." + t for t in section_order)}

/-- `types.BINARY_DATA`: group codes of binary chunks (310..319 proxy graphics / ACIS / thumbnails, 1004 XDATA) -/
def binaryCodes : List Nat := {lean_list(str(c) for c in sorted(types.BINARY_DATA))}
/-- `types.VALID_XDATA_GROUP_CODES` -/
def validXdataCodes : List Nat := {lean_list(str(c) for c in sorted(types.VALID_XDATA_GROUP_CODES))}
/-- every code 0..1099 with `types.is_pointer_code`, and `types.HANDLE_CODES` -/
def pointerCodes : List Nat := {lean_list(str(c) for c in ptr)}
def handleCodes : List Nat := {lean_list(str(c) for c in hnd)}
/-- `const.MANAGED_SECTIONS` (sorted) and the sections `Drawing._load` deletes -/
def managedSections : List (List Nat) := {lean_list((_nats(s) for s in sorted(const.MANAGED_SECTIONS)), per_line=1)}
def deletedSections : List (List Nat) := {lean_list((_nats(s) for s in deleted), per_line=1)}

def acadReactors : List Nat := {_nats(const.ACAD_REACTORS)}
def acadXDictionary : List Nat := {_nats(const.ACAD_XDICTIONARY)}
def appDataMarker : Nat := {const.APP_DATA_MARKER}
def ownerCode : Nat := {const.OWNER_CODE}
def reactorHandleCode : Nat := {const.REACTOR_HANDLE_CODE}
def xdictHandleCode : Nat := {const.XDICT_HANDLE_CODE}
def xdataMarker : Nat := {const.XDATA_MARKER}
def subclassMarker : Nat := {const.SUBCLASS_MARKER}
def structureMarker : Nat := {const.STRUCTURE_MARKER}

{doc_gen}
end EzdxfVerif.Gen.StorageTables
"""
    ctx.write_gen("StorageTables", text, SRCS)


# ------------------------------------------------------------------ compiled-tag level (one entity): generators
# A compiled tag is (code, text): text of a point = "x,y[,z]" (repr of the floats), of a binary chunk = upper-case hex,
# everything else the canonical text of the typed value.  This is the granularity of ExtendedTags and of the Lean model.
STR_CODES = [1, 2, 3, 4, 6, 7, 8, 9, 300, 301, 302, 305, 309, 410, 411, 430, 431, 470, 471, 1000, 1003]
HANDLE_PTR = [320, 321, 330, 331, 335, 340, 341, 345, 350, 355, 360, 365, 369, 390, 395, 399, 480, 481]
INT16 = [60, 62, 66, 70, 71, 79, 170, 175, 270, 280, 289, 370, 380, 400, 409]
INT32 = [90, 91, 95, 99, 420, 429, 440, 450, 459]
INT64 = [160, 165, 169]
BOOL = [290, 291, 299]
FLOATS = [39, 40, 41, 48, 50, 59, 140, 145, 149, 460, 469]
POINTS = [10, 11, 12, 13, 14, 15, 16, 17, 18, 110, 111, 112, 210, 211, 212, 213]
BINARY = [310, 311, 315, 319]
XD_STR, XD_HANDLE, XD_BIN, XD_POINT, XD_FLOAT, XD_I16, XD_I32 = [1000, 1003], [1005], [1004], [1010, 1011, 1012, 1013], [1040, 1041, 1042], [1070], [1071]
FOREIGN_TYPES = ["FOO", "ACME_WIDGET", "XYZOBJ", "AECC_THING", "ACAD_PROXY_OBJECT", "MYOBJ", "DIMSTYLE_X", "ACAD_TABLE"]
STORAGE_TYPES = ["ACAD_TABLE"]   # registered, but the class is a DXFTagStorage (Gen.storageTypes)
WORDS = ["", "a", "AcDbFoo", "x y", "{", "}", "{A", "A}", "Embedded Object", "100", "ä€", "\\U+20AC", "^J", "%%c", "0", "None", " lead", "trail ", ";:|,/"]
SUBCLASS_NAMES = ["AcDbEntity", "AcDbFoo", "AcDbProxyEntity", "AcDbProxyObject", "AcmeWidget", "AcDbBar", "X"]
APPIDS = ["ACAD", "APPA", "APPB", "APPC", "EZDXF", "ACME", "A"]
GROUP_NAMES = ["{APPA", "{ACME", "{A", "{", "{ACAD_FOO", "{APPB"]


def fl(rng) -> str:
    k = rng.randrange(8)
    if k == 0:
        return repr(float(rng.randint(-5, 5)))
    if k == 1:
        return repr(rng.choice([1e-300, 1e300, -0.0, 1 / 3, 2.5e-5, 1e16, 123456789.125, 5e-324]))
    return repr(round(rng.uniform(-1000, 1000), rng.randint(0, 12)))


def hexh(rng, lo=1, hi=0xFFFFF) -> str:
    return "%X" % rng.randint(lo, hi)


def value_for(rng, code: int) -> str:
    if code in POINTS or code in XD_POINT:
        return ",".join(fl(rng) for _ in range(rng.choice([2, 3, 3])))
    if code in BINARY or code in XD_BIN:
        n = rng.choice([0, 1, 2, 5, 127]) if rng.random() < 0.3 else rng.randint(1, 20)
        return "".join("%02X" % rng.randrange(256) for _ in range(n)) if n else "00"
    if code in HANDLE_PTR or code in XD_HANDLE or code in (5, 105):
        return hexh(rng)
    if code in INT16 or code in XD_I16:
        return str(rng.choice([0, 1, -1, 7, 32767, -32768, rng.randint(-999, 999)]))
    if code in INT32 or code in XD_I32:
        return str(rng.choice([0, 1, -1, 2 ** 31 - 1, -2 ** 31, rng.randint(-10 ** 6, 10 ** 6)]))
    if code in INT64:
        return str(rng.choice([0, -1, 2 ** 63 - 1, -2 ** 63, 2 ** 40 + 3, rng.randint(-10 ** 12, 10 ** 12)]))
    if code in BOOL:
        return str(rng.randint(0, 1))
    if code in FLOATS or code in XD_FLOAT:
        return fl(rng)
    w = rng.choice(WORDS) if rng.random() < 0.5 else "".join(rng.choice("abcXYZ019 _-.{}") for _ in range(rng.randint(1, 12))).strip() or "w"
    return w


BODY_CODES = STR_CODES[:-2] + HANDLE_PTR + INT16 + INT32 + INT64 + BOOL + FLOATS + POINTS + BINARY + [5, 102, 101, 105]


def body_tags(rng, n, codes=BODY_CODES):
    out = []
    for _ in range(n):
        c = rng.choice(codes)
        v = value_for(rng, c)
        if c == 101 and v == "Embedded Object":
            v = "Embedded"
        if c == 102:
            v = rng.choice(["{X", "}", "X}", "plain"])
        out.append((c, v))
    return out


def xdata_group(rng, appid, depth=2, invalid=False):
    out = [(1001, appid)]
    for _ in range(rng.randint(0, 6)):
        k = rng.randrange(9)
        if k == 0 and depth:
            out.append((1002, "{"))
            out += xdata_group(rng, "", depth - 1)[1:]
            out.append((1002, "}"))
        else:
            c = rng.choice(XD_STR + XD_HANDLE + XD_BIN + XD_POINT + XD_FLOAT + XD_I16 + XD_I32)
            out.append((c, value_for(rng, c)))
    if invalid:
        for _ in range(rng.randint(1, 3)):
            c = rng.choice([1, 40, 70, 330, 1072, 1006, 1020, 1050, 999 + 1])
            out.insert(rng.randint(1, len(out)), (c, "7" if c != 1 else "bad"))
    return out


def app_group(rng, name, close="}"):
    inner = [t for t in body_tags(rng, rng.randint(0, 4)) if t[0] not in (102, 101)]
    return [(102, name)] + inner + [(102, close)]


def reactors_group(rng, n=None, sort=True, handles=None):
    hs = handles if handles is not None else sorted({hexh(rng) for _ in range(n if n is not None else rng.randint(1, 4))}, key=lambda x: int(x, 16))
    if not sort:
        rng.shuffle(hs)
    return [(102, "{ACAD_REACTORS")] + [(330, h) for h in hs] + [(102, "}")]


def gen_entity(rng, kind: str):
    """-> (compiled tags, alive handles, expected class 'wf-ordered' | 'wf' | 'malformed')"""
    typ = rng.choice(FOREIGN_TYPES)
    handle, owner = hexh(rng), hexh(rng)
    alive = []
    items = []  # list of (stage, tags)
    names = rng.sample(GROUP_NAMES, rng.choice([0, 0, 1, 1, 2, 3]))
    for n in names:
        items.append((1, app_group(rng, n)))
    if rng.random() < 0.5:
        xh = hexh(rng)
        alive.append(xh)
        items.append((2, [(102, "{ACAD_XDICTIONARY"), (360, xh), (102, "}")]))
    if rng.random() < 0.5:
        items.append((3, reactors_group(rng)))
    items = [(0, [(5, handle)])] + items + [(4, [(330, owner)])]
    subs = []
    for i in range(rng.choice([0, 1, 1, 2, 2, 3])):
        subs.append([(100, rng.choice(SUBCLASS_NAMES))] + body_tags(rng, rng.randint(0, 7)))
    emb = []
    if rng.random() < 0.25:
        emb = [(101, "Embedded Object")] + [t for t in body_tags(rng, rng.randint(0, 5)) if t[0] != 101]
    xd = []
    for a in rng.sample(APPIDS, rng.choice([0, 0, 1, 1, 2, 3])):
        xd += xdata_group(rng, a)
    cls = "wf-ordered"
    if kind == "shuffled":
        rng.shuffle(items)
        for i, (st, g) in enumerate(items):
            if st == 3:
                g2 = reactors_group(rng, sort=False, handles=[v for c, v in g[1:-1]])
                items[i] = (3, g2)
        cls = "wf"
    if kind == "malformed":
        cls = "malformed"
        k = rng.randrange(16)
        if k == 0:  # foreign base-class tags
            for _ in range(rng.randint(1, 3)):
                items.insert(rng.randint(1, len(items)), (9, body_tags(rng, 1, [1, 2, 40, 70, 90, 10, 310, 340, 105, 101])))
        elif k == 1:  # duplicate XDATA appid
            a = rng.choice(APPIDS)
            xd = xdata_group(rng, a) + xdata_group(rng, rng.choice(APPIDS)) + xdata_group(rng, a) + xd
        elif k == 2:  # duplicate application data key
            n = rng.choice(GROUP_NAMES)
            items.insert(1, (1, app_group(rng, n)))
            items.insert(rng.randint(1, len(items) - 1), (1, app_group(rng, n)))
        elif k == 3:  # alternative closing tag
            n = rng.choice(GROUP_NAMES + ["{ACAD_XDICTIONARY", "{ACAD_REACTORS"])
            if n == "{ACAD_XDICTIONARY":
                items.insert(1, (2, [(102, n), (360, alive[0] if alive else hexh(rng)), (102, n[1:] + "}")]))
            elif n == "{ACAD_REACTORS":
                items.insert(1, (3, [(102, n), (330, hexh(rng)), (102, n[1:] + "}")]))
            else:
                items.insert(1, (1, app_group(rng, n, close=n[1:] + "}")))
        elif k == 4:  # extension dictionary that does not resolve
            items.insert(1, (2, [(102, "{ACAD_XDICTIONARY"), (360, "DEAD"), (102, "}")]))
        elif k == 5:  # malformed extension dictionary group
            g = rng.choice([[(102, "{ACAD_XDICTIONARY"), (102, "}")],
                            [(102, "{ACAD_XDICTIONARY"), (360, "1"), (360, "2"), (102, "}")],
                            [(102, "{ACAD_XDICTIONARY"), (330, "1"), (102, "}")]])
            items.insert(1, (2, g))
        elif k == 6:  # reactors: not hex / empty / duplicates / other codes
            g = rng.choice([[(102, "{ACAD_REACTORS"), (330, "XYZ"), (102, "}")],
                            [(102, "{ACAD_REACTORS"), (102, "}")],
                            [(102, "{ACAD_REACTORS"), (330, "1F"), (330, "A"), (330, "1F"), (102, "}")],
                            [(102, "{ACAD_REACTORS"), (331, "2B"), (330, "2A"), (102, "}")],
                            [(102, "{ACAD_REACTORS"), (330, ""), (102, "}")]])
            items = [it for it in items if it[0] != 3]
            items.insert(1, (3, g))
        elif k == 7:  # two reactors groups / two xdict groups
            items.insert(1, (3, reactors_group(rng)))
            items.insert(1, (3, reactors_group(rng)))
        elif k == 8:  # invalid XDATA group codes
            xd = xdata_group(rng, "BADX", invalid=True) + xd
        elif k == 9:  # missing handle / owner, doubled handle / owner
            m = rng.randrange(5)
            if m == 0:
                items = [it for it in items if it[0] != 0]
            elif m == 1:
                items = [it for it in items if it[0] != 4]
            elif m == 2:
                items.insert(rng.randint(0, len(items)), (0, [(5, hexh(rng))]))
            elif m == 3:
                items.insert(rng.randint(0, len(items)), (4, [(330, hexh(rng))]))
            else:
                items = [(0, [(5, "")])] + [it for it in items if it[0] != 0]
                rng.shuffle(items)
        elif k == 10:  # unclosed group
            items.insert(rng.randint(0, len(items)), (1, [(102, "{OPEN"), (1, "x")]))
        elif k == 11:  # tags after the XDATA / between embedded object and XDATA
            xd = xd + [(1, "late"), (100, "Late")]
        elif k == 12:  # group marker that is no group
            items.insert(rng.randint(1, len(items)), (9, [(102, rng.choice(["}", "X}", "plain"]))]))
        elif k == 13:  # everything shuffled, several exclusions at once
            items.insert(1, (1, app_group(rng, "{A", close="A}")))
            items.insert(1, (9, [(1, "foreign")]))
            rng.shuffle(items)
        elif k == 14:  # no base class at all / subclass first
            items = []
        else:  # DIMSTYLE-like handle code in a foreign type
            items.insert(1, (9, [(105, hexh(rng))]))
    tags = [(0, typ)]
    for _, g in items:
        tags += g
    for s in subs:
        tags += s
    tags += emb + xd
    return tags, alive, cls


def to_text(ctags) -> str:
    out = []
    for c, v in ctags:
        if c in POINTS or c in XD_POINT:
            for i, x in enumerate(v.split(",")):
                out.append(f"{c + 10 * i}\n{x}\n")
        else:
            out.append(f"{c}\n{v}\n")
    return "".join(out)


def enc_tags(ctags) -> str:
    return ";".join(f"{c}:{cps(v)}" for c, v in ctags)


class CompiledCollector:
    """harness-owned tag writer: records what DXFEntity.export_dxf writes, at compiled-tag granularity"""

    write_handles = True
    force_optional = False

    def __init__(self, dxfversion="AC1027"):
        self.dxfversion = dxfversion
        self.tags = []

    @staticmethod
    def conv(code, value):
        if isinstance(value, bytes):
            return code, value.hex().upper()
        if isinstance(value, tuple):
            return code, ",".join(repr(float(x)) for x in value)
        return code, str(value)

    def write_tag(self, tag):
        self.tags.append(self.conv(tag.code, tag.value))

    def write_tag2(self, code, value):
        self.tags.append(self.conv(int(code), value))

    def write_tags(self, tags):
        for t in tags:
            self.write_tag(t)

    def write_str(self, s):
        lines = s.split("\n")
        for i in range(0, len(lines) - 1, 2):
            self.tags.append((int(lines[i]), lines[i + 1]))

    def write_vertex(self, code, vertex):
        self.tags.append(self.conv(code, tuple(vertex)))


class _StubEntity:
    is_alive = True

    def __init__(self, h):
        self.dxf = type("D", (), {"handle": h})()


class _StubDoc:
    def __init__(self, alive):
        self.entitydb = {h: _StubEntity(h) for h in alive}


def impl_roundtrip(ctags, alive):
    """the real code: ExtendedTags -> factory.load (DXFTagStorage) -> post_load_hook -> export_dxf"""
    from ezdxf.entities import factory
    from ezdxf.lldxf.const import DXFStructureError
    from ezdxf.lldxf.extendedtags import ExtendedTags

    try:
        xt = ExtendedTags.from_text(to_text(ctags))
        e = factory.load(xt, None)
        if type(e).__name__ != "DXFTagStorage" and not (ctags[0][1] in STORAGE_TYPES and isinstance(e, factory.DEFAULT_CLASS)):
            return None, "err other:known-type"
        e.post_load_hook(_StubDoc(alive))
        col = CompiledCollector()
        e.export_dxf(col)
        return col.tags, "ok " + enc_tags(col.tags)
    except DXFStructureError as ex:
        m = str(ex)
        k = "missingAppClose" if "closing" in m else "xdictError" if "XDICTIONARY" in m else "unexpectedTag"
        return None, "err " + k
    except IndexError:
        return None, "err noType"
    except ValueError as ex:
        return None, "err " + ("badReactor" if "base 16" in str(ex) else "other:ValueError")
    except Exception as ex:  # noqa
        return None, f"err other:{type(ex).__name__}"


def entity_cases(ctx):
    rng = ctx.rng("entities")
    n = ctx.n(1500, 15000)
    for kind, count in (("ordered", n), ("shuffled", n), ("malformed", 2 * n)):
        for _ in range(count):
            tags, alive, cls = gen_entity(rng, kind)
            yield kind, tags, alive, cls
    # fixed corner cases
    for tags, alive in FIXED_ENTITIES:
        yield "fixed", tags, alive, "fixed"


FIXED_ENTITIES = [
    ([(0, "FOO")], []),
    ([(0, "FOO"), (5, "A"), (330, "B")], []),
    ([(0, "FOO"), (5, "A"), (5, "B"), (330, "C"), (330, "D"), (100, "X")], []),
    ([(0, "FOO"), (330, "C"), (5, "A"), (330, "D"), (5, "B"), (100, "X")], []),
    ([(0, "FOO"), (5, ""), (330, "C"), (5, "B")], []),
    ([(0, "FOO"), (330, ""), (5, "B"), (330, "C")], []),
    ([(0, "FOO"), (5, "A"), (330, "B"), (1001, "A"), (1000, "x"), (1001, "B"), (1000, "y"), (1001, "A"), (1000, "z")], []),
    ([(0, "FOO"), (5, "A"), (102, "{A"), (1, "x"), (102, "A}"), (330, "B"), (100, "X")], []),
    ([(0, "FOO"), (5, "A"), (102, "{ACAD_XDICTIONARY"), (360, "CC"), (102, "}"), (330, "B")], ["CC"]),
    ([(0, "FOO"), (5, "A"), (102, "{ACAD_XDICTIONARY"), (360, "CC"), (102, "}"), (330, "B")], []),
    ([(0, "FOO"), (5, "A"), (330, "B"), (1, "foreign"), (100, "X")], []),
    ([(0, "FOO"), (5, "A"), (330, "B"), (100, "X"), (1, "x"), (101, "Embedded Object"), (1, "y"), (1001, "A"), (1000, "x")], []),
    ([(0, "FOO"), (5, "A"), (102, "{ACAD_REACTORS"), (330, "1F"), (330, "A"), (330, "10"), (102, "}"), (330, "B")], []),
    ([(0, "DIMSTYLE_X"), (105, "A"), (330, "B")], []),
    ([(100, "X"), (1, "y")], []),
    ([(0, "FOO"), (5, "A"), (330, "B"), (102, "{OPEN")], []),
]


# the inputs of the counterexample theorems of Props/C02.lean (Model/Storage.lean namespace Ex) with the proved outputs and the
# classification of the exclusion; replayed on the real code on every run
def _T(*pairs):
    return [(pairs[i], pairs[i + 1]) for i in range(0, len(pairs), 2)]


LEAN_EXAMPLES = [
    ("dup_xdata_appid", _T(0, "FOO", 5, "A", 330, "B", 100, "AcDbFoo", 1001, "APP", 1000, "first", 1001, "OTHER", 1000, "o", 1001, "APP", 1000, "second"), [],
     _T(0, "FOO", 5, "A", 330, "B", 100, "AcDbFoo", 1001, "APP", 1000, "second", 1001, "OTHER", 1000, "o"),
     "outside the quantifier: one XDATA set per appid and entity"),
    ("foreign_base_tag", _T(0, "FOO", 5, "A", 1, "foreign", 330, "B", 100, "AcDbFoo"), [], _T(0, "FOO", 5, "A", 330, "B", 100, "AcDbFoo"),
     "outside the quantifier: DXF defines no other tags in front of the first subclass marker of an R2000+ object"),
    ("alt_close", _T(0, "FOO", 5, "A", 102, "{APP", 1, "x", 102, "APP}", 330, "B"), [], _T(0, "FOO", 5, "A", 102, "{APP", 1, "x", 102, "APP}", 102, "}", 330, "B"),
     "outside the quantifier (non-standard closing tag accepted by the loader); nothing lost, one tag added, fixed point"),
    ("xdict_unresolved", _T(0, "FOO", 5, "A", 102, "{ACAD_XDICTIONARY", 360, "30", 102, "}", 330, "B"), [], _T(0, "FOO", 5, "A", 330, "B"),
     "outside the quantifier: dangling pointer in the input"),
    ("xdict_resolved", _T(0, "FOO", 5, "A", 102, "{ACAD_XDICTIONARY", 360, "30", 102, "}", 330, "B"), ["30"],
     _T(0, "FOO", 5, "A", 102, "{ACAD_XDICTIONARY", 360, "30", 102, "}", 330, "B"), "inside: kept"),
    ("empty_reactors", _T(0, "FOO", 5, "A", 102, "{ACAD_REACTORS", 102, "}", 330, "B"), [], _T(0, "FOO", 5, "A", 330, "B"),
     "outside the quantifier: an empty reactors group carries no data"),
    ("dup_appdata_key", _T(0, "FOO", 5, "A", 102, "{APP", 1, "first", 102, "}", 102, "{APP", 1, "second", 102, "}", 330, "B"), [],
     _T(0, "FOO", 5, "A", 102, "{APP", 1, "second", 102, "}", 330, "B"), "outside the quantifier: one group per application name"),
    ("two_handles", _T(0, "FOO", 5, "A", 5, "B", 330, "C", 330, "D"), [], _T(0, "FOO", 5, "B", 330, "C"), "outside the quantifier: malformed"),
    ("no_handle", _T(0, "FOO", 100, "AcDbFoo"), [], _T(0, "FOO", 5, "None", 330, "0", 100, "AcDbFoo"),
     "outside the quantifier (R2000+ objects have a handle); inside a document the entity database assigns a handle"),
]


def replay_lean_examples(ctx):
    for name, tags, alive, want, cls in LEAN_EXAMPLES:
        out, r = impl_roundtrip(tags, alive)
        ctx.count("E1 counterexample theorems on real code", name, True, sample={"theorem": name + "_counterexample", "input": str(tags)[:200],
                                                                                 "impl": str(out)[:200], "classified": cls})
        if out != want:
            ctx.disagree("E1 counterexample theorems on real code", f"{name}: {tags}", str(out), str(want))
    ctx.cov["disagreements_checked"] += len(LEAN_EXAMPLES)


def correspond_entities(ctx):
    replay_lean_examples(ctx)
    cases, spec_lines, spec_meta = [], [], []
    for kind, tags, alive, cls in entity_cases(ctx):
        ctx.hist("X1 tag storage", kind)
        req = f"rt|{','.join(cps(h) for h in alive)}|{enc_tags(tags)}"
        out1, r1 = impl_roundtrip(tags, alive)
        r2 = impl_roundtrip(out1, alive)[1] if out1 is not None else "-"
        ctx.hist("X1 tag storage", "result:" + r1.split(" ")[0] + ("" if r1.startswith("ok") else ":" + r1[4:]))
        nontriv = any(c in (102, 1001) for c, _ in tags) or sum(1 for c, _ in tags if c == 100) > 1
        cases.append((req, r1 + "|" + r2, nontriv))
        spec_lines.append("spec" + req[2:])
        spec_meta.append((kind, cls, tags, alive, out1, r1, r2))
    ctx.correspond("X1 tag storage", "C02", cases, build=DRIVER_DEPS)
    # the specification (EntityWF / canon / ordered) evaluated by the Lean driver, checked against the REAL output
    outs = ctx.driver("C02", spec_lines)
    nwf = nord = 0
    for line, (kind, cls, tags, alive, out1, r1, r2) in zip(outs, spec_meta):
        flags, canon = line.split("|", 1)
        wf, ordered = flags.split(" ")
        ctx.count("S1 spec on real code", line, wf == "1")
        ctx.hist("S1 spec on real code", f"{kind}:wf={wf},ordered={ordered}")
        rep = {"op": "entity", "tags": tags, "alive": alive}
        if (kind in ("ordered", "shuffled") and wf != "1") or (kind == "ordered" and ordered != "1"):
            # the generator builds these classes by construction: the specification (tables regenerated from the source) rejects them
            ctx.disagree("S1 spec on real code", "spec" + enc_tags(tags)[:1500], f"generated as {kind}", f"EntityWF={wf} BaseOrdered={ordered}")
        if kind == "ordered" and r1 != "ok " + enc_tags(tags):
            ctx.fail(f"storage/identity/{tags[:5]}", f"well-formed entity in ezdxf's order changed by load->save: {tags} -> {r1[:300]}", rep)
        if wf == "1":
            nwf += 1
            if r1 != "ok " + canon:
                ctx.fail(f"storage/canon/{tags[:5]}", f"EntityWF input, but export(load t) != canon t: {tags} -> {r1[:300]}", rep)
            if ordered == "1":
                nord += 1
                if r1 != "ok " + enc_tags(tags):
                    ctx.fail(f"storage/identity/{tags[:5]}", f"well-formed ordered entity changed by load->save: {tags} -> {r1[:300]}", rep)
            # pointers kept
            ptr = lambda ts: sorted((c, v) for c, v in ts if is_pointer(c))
            if out1 is not None and ptr(out1) != ptr(tags):
                ctx.fail(f"storage/pointers/{tags[:5]}", f"pointer tags changed: {ptr(tags)} -> {ptr(out1)}", rep)
        # second cycle is a fixed point for every input the code accepts
        if out1 is not None and r2 != r1:
            ctx.fail(f"storage/second-cycle/{tags[:5]}", f"second load->save differs: {r1[:200]} vs {r2[:200]}", rep)
    ctx.note(f"S1: {nwf} EntityWF inputs ({nord} in ezdxf's order) checked against canon on the real code")


def is_pointer(code: int) -> bool:
    from ezdxf.lldxf import types

    return types.is_pointer_code(code) or code in types.HANDLE_CODES


# ------------------------------------------------------------------ whole files: base documents, tag-level splicing, comparison
VERSIONS = ["AC1015", "AC1018", "AC1021", "AC1024", "AC1027", "AC1032"]  # R2000 .. R2018
_BASE_CACHE: dict = {}


def _import_dxfparse():
    import dxfparse

    return dxfparse


def base_doc(ver: str):
    """a valid minimal document made by ezdxf.new() + write(), parsed by the harness-owned parser into sections/records.
    Hosts for foreign data: LINE/MTEXT/INSERT+ATTRIB in the modelspace, a LINE in block FB, layer L1, DICTIONARY FOREIGN_DICT,
    a second (non active) paperspace layout."""
    if ver in _BASE_CACHE:
        return _BASE_CACHE[ver]
    import ezdxf

    dxfparse = _import_dxfparse()
    ezdxf.options.write_fixed_meta_data_for_testing = True
    doc = ezdxf.new(ver)
    for a in APPIDS:
        if a not in doc.appids:
            doc.appids.add(a)
    doc.layers.add("L1")
    blk = doc.blocks.new("FB")
    blk.add_line((0, 0), (1, 1))
    msp = doc.modelspace()
    line = msp.add_line((0, 0), (2, 3))
    mtext = msp.add_mtext("hello")
    try:
        msp.add_mtext_static_columns(["column one", "column two"], width=20, gutter_width=2, height=30)
    except Exception:  # noqa  (API not available)
        pass
    ins = msp.add_blockref("FB", (1, 1))
    ins.add_attrib("TAG1", "text", (0, 0))
    # POLYLINE variants that are type-cast at load time (Polyline.cast -> shallow_copy)
    pface = msp.add_polyface()
    pface.append_face([(0, 0, 0), (1, 0, 0), (1, 1, 0), (0, 1, 0)])
    pmesh = msp.add_polymesh(size=(2, 2))
    pline3d = msp.add_polyline3d([(0, 0, 0), (1, 1, 1)])
    fd = doc.rootdict.add_new_dict("FOREIGN_DICT")
    second = doc.layouts.new("Second")
    second.add_line((0, 0), (1, 0))
    s = io.StringIO()
    doc.write(s)
    tags = dxfparse.parse_ascii(s.getvalue())
    secs, problems = dxfparse.split_file(tags)
    assert not problems, problems
    info = {
        "ver": ver,
        "sections": secs,  # [(name, [records])]; HEADER: one pseudo record (0, <SECTION-TAGS>) + tags
        "msp": doc.block_records.get("*Model_Space").dxf.handle,
        "psp": doc.block_records.get("*Paper_Space").dxf.handle,
        "psp2": second.block_record_handle,
        "fb": blk.block_record_handle,
        "line": line.dxf.handle,
        "mtext": mtext.dxf.handle,
        "insert": ins.dxf.handle,
        "polyface": pface.dxf.handle,
        "polymesh": pmesh.dxf.handle,
        "polyline3d": pline3d.dxf.handle,
        "layer": doc.layers.get("L1").dxf.handle,
        "fd": fd.dxf.handle,
        "root": doc.rootdict.dxf.handle,
        "seed": int(str(doc.entitydb.handles), 16) + 16,
    }
    _BASE_CACHE[ver] = info
    return info


def cval(code: int, v):
    """canonical comparable value of a tag (float text through float(), integers through int(), binary as upper hex)"""
    dxfparse = _import_dxfparse()
    c = dxfparse._cls(code)
    try:
        if c == "d":
            return float(v)
        if c in ("h", "i", "q", "b"):
            return int(float(v)) if ("." in str(v) or "e" in str(v).lower()) else int(v)
        if c == "bin":
            return str(v).upper()
    except ValueError:
        return ("?", v)
    return v


def ctags(rec):
    return [(c, cval(c, v)) for c, v in rec]


def flat(ctags_compiled):
    """compiled tags -> file level tags (points expanded)"""
    out = []
    for c, v in ctags_compiled:
        if c in POINTS or c in XD_POINT:
            for i, x in enumerate(v.split(",")):
                out.append((c + 10 * i, x))
        else:
            out.append((c, v))
    return out


class Splice:
    """builds one input file from a base document and generated foreign content; remembers what must survive"""

    def __init__(self, rng, ver, **knobs):
        self.rng = rng
        self.base = base_doc(ver)
        self.ver = ver
        self.next = self.base["seed"]
        self.knobs = knobs
        # working copy: section name -> list of records (lists of (code, str))
        self.secs = [(n, [list(r) for r in recs]) for n, recs in self.base["sections"]]
        self.new_objects = []      # records appended to OBJECTS
        self.expect = []           # (kind, key, data)
        self.pool = [self.base[k] for k in ("line", "mtext", "fd", "root", "layer")]   # handles that exist
        self.notes = []

    def H(self) -> str:
        self.next += self.rng.randint(1, 3)
        return "%X" % self.next

    def sec(self, name):
        for n, recs in self.secs:
            if n == name:
                return recs
        raise KeyError(name)

    def find(self, handle):
        dxfparse = _import_dxfparse()
        for n, recs in self.secs:
            for r in recs:
                if dxfparse.rec_handle(r) == handle:
                    return n, r
        raise KeyError(handle)

    # ---------------------------------------------------------------- foreign structures
    def base_structures(self, owner_of_xdict: str, allow_xdict=True):
        """application groups, extension dictionary (+ DICTIONARY and XRECORD objects), reactors: in ezdxf's order"""
        rng = self.rng
        out = []
        for n in rng.sample(GROUP_NAMES, rng.choice([0, 0, 1, 1, 2, 3])):
            out += flat([t for t in app_group(rng, n) if t[0] not in (5, 105)])
        if allow_xdict and rng.random() < 0.45:
            dh, xh = self.H(), self.H()
            payload = [t for t in body_tags(rng, rng.randint(1, 8)) if t[0] not in (5, 105, 101, 102)]
            if rng.random() < self.knobs.get("xrecord100", 0.3):
                # group code 100 is a legal XRECORD payload code (1..369 except 5 and 105)
                payload.insert(rng.randint(0, len(payload)), (100, rng.choice(["AcmeMarker", "x"])))
            payload = flat(payload)
            self.new_objects.append([(0, "DICTIONARY"), (5, dh), (330, owner_of_xdict), (100, "AcDbDictionary"), (280, "1"), (281, "1"),
                                     (3, "FOREIGN_DATA"), (360, xh)])
            xrec = [(0, "XRECORD"), (5, xh), (330, dh), (100, "AcDbXrecord"), (280, "1")] + payload
            self.new_objects.append(xrec)
            self.expect.append(("xrecord", xh, xrec))
            self.expect.append(("dict-entry", dh, ("FOREIGN_DATA", xh)))
            out += [(102, "{ACAD_XDICTIONARY"), (360, dh), (102, "}")]
        if rng.random() < 0.45:
            hs = sorted(set(rng.sample(self.pool, rng.randint(1, min(3, len(self.pool))))), key=lambda x: int(x, 16))
            out += [(102, "{ACAD_REACTORS")] + [(330, h) for h in hs] + [(102, "}")]
        return out

    def xdata(self, n=None):
        rng = self.rng
        out = []
        for a in rng.sample(APPIDS, n if n is not None else rng.choice([0, 1, 1, 2, 3])):
            out += flat(xdata_group(rng, a))
        return out

    def foreign_record(self, typ, owner, graphic: bool, paperspace=False, shuffle=False):
        rng = self.rng
        h = self.H()
        head = [(0, typ), (5, h)]
        mid = self.base_structures(h)
        tail = [(330, owner)]
        if shuffle:
            # another application's order: owner first / handle last, groups in any order, reactors unsorted
            groups, cur = [], None
            for t in mid:
                if cur is None:
                    cur = [t]
                else:
                    cur.append(t)
                    if t == (102, "}"):
                        groups.append(cur)
                        cur = None
            for g in groups:
                if g[0][1] == "{ACAD_REACTORS":
                    inner = g[1:-1]
                    rng.shuffle(inner)
                    g[1:-1] = inner
            items = [[(5, h)]] + groups + [[(330, owner)]]
            rng.shuffle(items)
            base = [(0, typ)] + [t for it in items for t in it]
        else:
            base = head + mid + tail
        subs = []
        if graphic:
            ent = [(100, "AcDbEntity")]
            if paperspace:
                ent.append((67, "1"))
            ent.append((8, rng.choice(["0", "L1"])))
            if rng.random() < 0.3:
                ent.append((62, str(rng.randint(1, 255))))
            subs += ent
        for _ in range(rng.choice([1, 1, 2, 3]) if graphic else rng.choice([0, 1, 1, 2, 3])):
            name = rng.choice([s for s in SUBCLASS_NAMES if s != "AcDbEntity"])
            subs += [(100, name)] + flat(body_tags(rng, rng.randint(0, 8)))
        emb = []
        if rng.random() < 0.2:
            emb = [(101, "Embedded Object")] + flat([t for t in body_tags(rng, rng.randint(0, 5)) if t[0] != 101])
        rec = base + subs + emb + self.xdata()
        self.expect.append(("record", h, rec))
        self.pool.append(h)
        return rec

    def proxy_entity(self, owner):
        rng = self.rng
        h = self.H()
        data = "".join("%02X" % rng.randrange(256) for _ in range(rng.choice([4, 127, 130, 300])))
        chunks = [data[i:i + 254] for i in range(0, len(data), 254)]
        rec = [(0, "ACAD_PROXY_ENTITY"), (5, h)] + self.base_structures(h) + [(330, owner), (100, "AcDbEntity"), (8, "0"),
               (100, "AcDbProxyEntity"), (90, "498"), (91, str(rng.randint(500, 600))), (95, "33"), (70, "0"),
               (92, str(len(data) // 2))] + [(310, c) for c in chunks] + [(93, str(rng.randint(0, 4096)))] + \
              [(310, "".join("%02X" % rng.randrange(256) for _ in range(rng.randint(1, 60))))] + \
              [(c, rng.choice(self.pool)) for c in rng.sample([330, 340, 350, 360], rng.randint(0, 3))] + [(94, "0")] + self.xdata()
        self.expect.append(("record", h, rec))
        return rec

    def proxy_object(self, owner):
        rng = self.rng
        h = self.H()
        rec = [(0, "ACAD_PROXY_OBJECT"), (5, h)] + self.base_structures(h) + [(330, owner), (100, "AcDbProxyObject"), (90, "499"),
               (91, str(rng.randint(500, 600))), (95, "33"), (70, "0"), (93, str(rng.randint(8, 4096)))] + \
              [(310, "".join("%02X" % rng.randrange(256) for _ in range(rng.randint(1, 127)))) for _ in range(rng.randint(1, 3))] + \
              [(c, rng.choice(self.pool)) for c in rng.sample([330, 340, 350, 360], rng.randint(0, 3))] + [(94, "0")] + self.xdata()
        self.expect.append(("record", h, rec))
        self.pool.append(h)
        return rec

    # ---------------------------------------------------------------- where it goes
    def add_entities(self):
        rng, b = self.rng, self.base
        ents = self.sec("ENTITIES")
        new = []
        for _ in range(rng.randint(1, 4)):
            typ = rng.choice([t for t in FOREIGN_TYPES if t != "ACAD_PROXY_OBJECT"])
            new.append(self.foreign_record(typ, b["msp"], True, shuffle=rng.random() < self.knobs.get("shuffle", 0.2)))
        if rng.random() < 0.6:
            new.append(self.proxy_entity(b["msp"]))
        for r in new:
            if self.knobs.get("mix", True):
                # not between an INSERT / POLYLINE and its ATTRIB / VERTEX / SEQEND records
                ok = [i for i in range(len(ents) + 1) if i == len(ents) or ents[i][0][1] not in ("ATTRIB", "VERTEX", "SEQEND")]
                ents.insert(rng.choice(ok), r)
            else:
                ents.append(r)
        # paperspace entities of the active layout: written behind the modelspace entities
        for _ in range(rng.choice([0, 0, 1, 2])):
            ents.append(self.foreign_record(rng.choice(FOREIGN_TYPES[:4]), b["psp"], True, paperspace=True))

    def add_block_entities(self):
        rng, b = self.rng, self.base
        dxfparse = _import_dxfparse()
        recs = self.sec("BLOCKS")
        for target, key in (("FB", "fb"), ("*Paper_Space0", "psp2")):
            if rng.random() < 0.7:
                idx = next(i for i, r in enumerate(recs) if dxfparse.rec_type(r) == "BLOCK" and (2, target) in r)
                end = next(i for i in range(idx, len(recs)) if dxfparse.rec_type(recs[i]) == "ENDBLK")
                for _ in range(rng.randint(1, 3)):
                    recs.insert(rng.randint(idx + 1, end), self.foreign_record(rng.choice(FOREIGN_TYPES[:4]), b[key], True,
                                                                               paperspace=(key == "psp2")))
                    end += 1

    def add_objects(self):
        rng, b = self.rng, self.base
        new = []
        for _ in range(rng.randint(1, 4)):
            typ = rng.choice(FOREIGN_TYPES)
            if typ == "ACAD_PROXY_OBJECT":
                r = self.proxy_object(b["fd"])
            else:
                r = self.foreign_record(typ, b["fd"], False, shuffle=rng.random() < self.knobs.get("shuffle", 0.2))
            new.append(r)
        # entries of FOREIGN_DICT pointing to the foreign objects (a known object referring to unknown ones)
        _, fd = self.find(b["fd"])
        for i, r in enumerate(new):
            fd += [(3, f"KEY{i}"), (350, r[1][1] if r[1][0] == 5 else next(v for c, v in r if c == 5))]
            self.expect.append(("dict-entry", b["fd"], (f"KEY{i}", fd[-1][1])))
        self.new_objects += new

    def decorate_hosts(self):
        """XDATA, application groups, extension dictionaries and reactors on entities ezdxf implements"""
        rng, b = self.rng, self.base
        dxfparse = _import_dxfparse()
        hosts = [b[key] for key in ("line", "layer", "fd", "mtext", "insert", "polyface", "polymesh", "polyline3d") if rng.random() < 0.6]
        # any other record ezdxf implements: table heads and entries, BLOCK/ENDBLK, BLOCK_RECORD, ATTRIB, SEQEND, LAYOUT, ...
        others = []
        for n, recs in self.secs:
            if n in ("TABLES", "BLOCKS", "ENTITIES", "OBJECTS"):
                for r in recs:
                    h = dxfparse.rec_handle(r)
                    if h is not None and h not in hosts and not any(k == "record" and dxfparse.norm(kk) == h for k, kk, _ in self.expect):
                        others.append(h)
        hosts += rng.sample(others, min(len(others), self.knobs.get("other_hosts", 3)))
        for hh in hosts:
            _, r = self.find(hh)
            if any(c in (1001,) for c, _ in r) or any(c == 102 for c, _ in split_base(r)[0]):
                continue  # already carries XDATA / groups written by ezdxf itself
            i = next(k for k, t in enumerate(r) if t[0] in (5, 105)) + 1
            groups = self.base_structures(hh)
            r[i:i] = groups
            xd = self.xdata(rng.choice([1, 2, 3]))
            r += xd
            self.expect.append(("host", hh, (groups, xd)))

    def add_classes(self):
        rng = self.rng
        recs = self.sec("CLASSES")
        for typ in rng.sample(FOREIGN_TYPES[:4] + ["MYOBJ"], rng.randint(1, 4)):
            for cpp in rng.sample(["AcDb" + typ.title(), "Acme" + typ.title()], rng.choice([1, 1, 2])):
                rec = [(0, "CLASS"), (1, typ), (2, cpp), (3, rng.choice(["AcmeApp|Version 1.0", "ObjectDBX Classes", "x"])),
                       (90, str(rng.choice([0, 1, 1153, 4095, 32768])))]
                if self.ver >= "AC1018":
                    rec.append((91, str(rng.randint(0, 50))))
                rec += [(280, str(rng.randint(0, 1))), (281, str(rng.randint(0, 1)))]
                recs.insert(rng.randint(0, len(recs)), rec)
                self.expect.append(("class", (typ, cpp), rec))
        # an entry with the key of a class ezdxf registers itself, but with the values of another application: must stay as it is
        own = [k for k, r in enumerate(recs) if len(r) > 4 and r[0] == (0, "CLASS") and not any(kk == "class" and key == (r[1][1], r[2][1]) for kk, key, _ in self.expect)]
        for k in rng.sample(own, min(len(own), rng.choice([0, 1, 2]))):
            r = [tuple(t) for t in recs[k]]
            r = [(3, "AcmeApp|Version 1.0") if c == 3 else (90, str((int(v) + 7) % 32768)) if c == 90 else (280, str(1 - int(v))) if c == 280 else (c, v) for c, v in r]
            recs[k] = r
            self.expect.append(("class", (r[1][1], r[2][1]), r))

    def add_header(self):
        rng = self.rng
        hdr = self.sec("HEADER")[0]  # [(0,<SECTION-TAGS>), (9,..), ...]
        props = [(rng.choice(["Author", "Project", "K", "ä"]) + str(i), rng.choice(["me", "", "x y", "42", "€"])) for i in range(rng.randint(1, 4))]
        tags = []
        for k, v in props:
            tags += [(9, "$CUSTOMPROPERTYTAG"), (1, k), (9, "$CUSTOMPROPERTY"), (1, v)]
        mode = self.knobs.get("custom", "after-lastsavedby")
        idx = next((i for i, t in enumerate(hdr) if t == (9, "$LASTSAVEDBY")), None)
        if idx is None:
            mode = "no-lastsavedby"   # R2000 has no $LASTSAVEDBY
            hdr += tags
        elif mode == "after-lastsavedby":
            hdr[idx + 2:idx + 2] = tags
        elif mode == "at-end":
            hdr += tags
        else:  # the application did not write $LASTSAVEDBY
            del hdr[idx:idx + 2]
            hdr += tags
            mode = "no-lastsavedby"
        self.expect.append(("custom", mode, props))
        if rng.random() < self.knobs.get("unknown_var", 0.3):
            name = rng.choice(["$ACMEVAR", "$FOREIGNSETTING"])
            hdr += [(9, name), (rng.choice([70, 1, 40]), "1")]
            self.expect.append(("header-var", name, None))

    def add_sections(self):
        rng = self.rng
        names = rng.sample(["FOO", "ACME_DATA", "XYZSECTION", "THUMBNAILIMAGE"], rng.choice([0, 1, 1, 2, 3]))
        extra = []
        for n in names:
            recs = []
            head = [(0, "SECTION"), (2, n)]
            if n == "THUMBNAILIMAGE":
                head += [(90, "254")] + [(310, "".join("%02X" % rng.randrange(256) for _ in range(127))) for _ in range(2)]
            else:
                head += flat([t for t in body_tags(rng, rng.randint(0, 3)) if t[0] not in (101, 102)])
                for _ in range(rng.randint(0, 4)):
                    recs.append([(0, rng.choice(["ACMEREC", "FOOITEM", "X"]))] + flat(body_tags(rng, rng.randint(0, 8))))
            extra.append((n, [head] + recs))
            self.expect.append(("section", n, [t for r in [head] + recs for t in r]))
        if self.ver >= "AC1027" and rng.random() < 0.4:
            n = rng.randint(1, 2)
            recs = [[(0, "ACDSSCHEMA"), (90, "0"), (1, "AcDb3DSolid_ASM_Data"), (2, "AcDbDs::ID"), (280, "10"), (91, "8"),
                     (2, "ASM_Data"), (280, "15"), (91, "0"), (101, "ACDSRECORD"), (95, "0"), (90, "2")]]
            other_data = rng.random() < 0.4   # records of another application: no ASM_Data (ACIS) section at all
            for i in range(n):
                data = "".join("%02X" % rng.randrange(256) for _ in range(127))
                recs.append([(0, "ACDSRECORD"), (90, "0"), (2, "AcDbDs::ID"), (280, "10"), (320, rng.choice(self.pool)),
                             (2, "Acme_Data" if other_data else "ASM_Data"), (280, "15"), (94, "254"), (310, data), (310, data[::-1])])
            head = [(0, "SECTION"), (2, "ACDSDATA"), (70, "2"), (71, str(n + 1))]
            extra.append(("ACDSDATA", [head] + recs))
            self.expect.append(("section", "ACDSDATA", [t for r in [head] + recs for t in r]))
        self.extra_sections = extra

    # ---------------------------------------------------------------- assemble
    def build(self):
        self.extra_sections = []
        k = self.knobs
        if k.get("entities", True):
            self.add_entities()
        if k.get("blocks", True):
            self.add_block_entities()
        if k.get("objects", True):
            self.add_objects()
        if k.get("hosts", True):
            self.decorate_hosts()
        if k.get("classes", True):
            self.add_classes()
        if k.get("header", True):
            self.add_header()
        if k.get("sections", True):
            self.add_sections()
        self.sec("OBJECTS").extend(self.new_objects)
        # $HANDSEED above every handle
        hdr = self.sec("HEADER")[0]
        i = next(i for i, t in enumerate(hdr) if t == (9, "$HANDSEED"))
        hdr[i + 1] = (5, "%X" % (self.next + 16))
        tags = []
        order = list(self.secs)
        pos = self.knobs.get("section_pos", "end")
        for n, recs in order:
            if n == "HEADER":
                tags += [(0, "SECTION"), (2, "HEADER")] + recs[0][1:] + [(0, "ENDSEC")]
            else:
                tags += [(0, "SECTION"), (2, n)]
                for r in recs:
                    tags += r
                tags.append((0, "ENDSEC"))
            if pos == "middle" and n == "TABLES":
                for _, xr in self.extra_sections:
                    for r in xr:
                        tags += r
                    tags.append((0, "ENDSEC"))
        if pos != "middle":
            for _, xr in self.extra_sections:
                for r in xr:
                    tags += r
                tags.append((0, "ENDSEC"))
        tags.append((0, "EOF"))
        return tags


def encode_ascii(tags) -> str:
    return "".join(f"{c:3d}\n{v}\n" for c, v in tags)


def encode_binary(tags, ver: str) -> bytes:
    """harness-owned binary DXF writer (R2000+ framing: 2-byte group codes)"""
    import struct

    dxfparse = _import_dxfparse()
    enc = "utf8" if ver >= "AC1021" else "cp1252"
    out = [b"AutoCAD Binary DXF\r\n\x1a\x00"]
    for c, v in tags:
        out.append(struct.pack("<H", c))
        k = dxfparse._cls(c)
        if k == "bin":
            b = bytes.fromhex(v)
            assert len(b) <= 255
            out.append(bytes([len(b)]) + b)
        elif k == "b":
            out.append(bytes([int(v)]))
        elif k == "h":
            out.append(struct.pack("<h", int(v)))
        elif k == "i":
            out.append(struct.pack("<i", int(v)))
        elif k == "q":
            out.append(struct.pack("<q", int(v)))
        elif k == "d":
            out.append(struct.pack("<d", float(v)))
        else:
            out.append(v.encode(enc) + b"\x00")
    return b"".join(out)


def ezdxf_cycle(ctx, tags, ver, fmt_in, fmt_out, tag):
    """the real code: file on disk -> ezdxf.readfile -> saveas (same version) -> file on disk -> harness parser"""
    import ezdxf

    dxfparse = _import_dxfparse()
    ezdxf.options.write_fixed_meta_data_for_testing = True
    src = ctx.scratch / f"in-{tag}.dxf"
    dst = ctx.scratch / f"out-{tag}.dxf"
    if fmt_in == "bin":
        src.write_bytes(encode_binary(tags, ver))
    else:
        src.write_text(encode_ascii(tags), encoding="utf8" if ver >= "AC1021" else "cp1252")
    if tag.endswith("-stream") and fmt_in == "asc" and fmt_out == "asc":
        # the text stream API: ezdxf.read(stream) / doc.write(stream)
        enc = "utf8" if ver >= "AC1021" else "cp1252"
        with open(src, "rt", encoding=enc, errors="surrogateescape") as fp:
            doc = ezdxf.read(fp)
        with open(dst, "wt", encoding=doc.output_encoding, errors="dxfreplace") as fp:
            doc.write(fp)
    else:
        doc = ezdxf.readfile(str(src))
        doc.saveas(str(dst), fmt=fmt_out)
    if fmt_out == "bin":
        out = dxfparse.parse_binary(dst.read_bytes())
    else:
        out = dxfparse.parse_ascii(dst.read_text(encoding="utf8" if ver >= "AC1021" else "cp1252"))
    return out


def split_base(rec):
    """(base class tags after (0, type), rest from the first subclass / embedded object / XDATA marker)"""
    for i, (c, v) in enumerate(rec):
        if i and (c == 100 or c == 1001 or (c == 101 and v == "Embedded Object")):
            return rec[1:i], rec[i:]
    return rec[1:], []


def base_items(base):
    """handle / owner / closed 102-groups of a base class; None when something else occurs"""
    items, i = [], 0
    while i < len(base):
        c, v = base[i]
        if c == 102 and str(v).startswith("{"):
            j = i + 1
            while j < len(base) and not (base[j][0] == 102 and base[j][1] in ("}", v[1:] + "}")):
                j += 1
            if j >= len(base):
                return None
            items.append(("g", base[i:j + 1]))
            i = j + 1
        elif c in (5, 105):
            items.append(("h", [base[i]]))
            i += 1
        elif c == 330:
            items.append(("o", [base[i]]))
            i += 1
        else:
            return None
    return items


def canon_record(rec):
    """the documented base-class order of ezdxf: handle, application groups, extension dictionary, reactors (ascending), owner"""
    base, rest = split_base(rec)
    items = base_items(base)
    if items is None:
        return rec

    def stage(it):
        k, g = it
        if k == "h":
            return 0
        if k == "o":
            return 4
        return 3 if g[0][1] == "{ACAD_REACTORS" else 2 if g[0][1] == "{ACAD_XDICTIONARY" else 1

    out = [rec[0]]
    for it in sorted(items, key=stage):
        g = it[1]
        if it[0] == "g" and g[0][1] == "{ACAD_REACTORS":
            g = [g[0]] + sorted(g[1:-1], key=lambda t: int(t[1], 16)) + [g[-1]]
        out += g
    return out + rest


def groups_of(rec):
    """the closed 102-groups of the base class (other base-class tags, e.g. the name of a TABLE head, are skipped)"""
    base, rest = split_base(rec)
    out, i = [], 0
    while i < len(base):
        c, v = base[i]
        if c == 102 and str(v).startswith("{"):
            j = i + 1
            while j < len(base) and not (base[j][0] == 102 and base[j][1] in ("}", v[1:] + "}")):
                j += 1
            out.append(base[i:j + 1])
            i = j + 1
        else:
            i += 1
    return out


def xdata_of(rec):
    for i, (c, v) in enumerate(rec):
        if c == 1001:
            return rec[i:]
    return []


def embedded_of(rec):
    for i, (c, v) in enumerate(rec):
        if c == 101 and v == "Embedded Object":
            j = next((k for k in range(i, len(rec)) if rec[k][0] == 1001), len(rec))
            return rec[i:j]
    return []


def index_file(tags):
    dxfparse = _import_dxfparse()
    secs, problems = dxfparse.split_file(tags)
    byh, where = {}, {}
    for n, recs in secs:
        for r in recs:
            h = dxfparse.rec_handle(r)
            if h is not None and dxfparse.rec_type(r) not in ("<SECTION-TAGS>",):
                byh[h] = r
                where[h] = n
    return secs, problems, byh, where


def pointer_targets(rec):
    return [(c, str(v)) for c, v in rec[1:] if is_pointer(c) and c not in (5, 105)]


def header_custom(secs):
    hdr = dict((n, r) for n, r in secs).get("HEADER", [[]])
    flatt = [t for r in hdr for t in r]
    out, names = [], []
    for i, (c, v) in enumerate(flatt):
        if c == 9:
            names.append(v)
            if v in ("$CUSTOMPROPERTYTAG", "$CUSTOMPROPERTY") and i + 1 < len(flatt):
                out.append((v, flatt[i + 1][1]))
    return out, names


def check_file_case(ctx, sp: Splice, tags_in, out, label, rep):
    """the property's predicate: everything ezdxf does not interpret is in `out` tag for tag and in order"""
    dxfparse = _import_dxfparse()
    fails = []

    def fail(key, what):
        fails.append(key)
        ctx.fail(f"{key}/{label}", what[:700], rep)

    secs_in, _, in_h, in_where = index_file(tags_in)
    secs_out, problems, out_h, out_where = index_file(out)
    for p in problems:
        fail("file/structure", f"written file: {p}")
    norm = dxfparse.norm
    for kind, key, data in sp.expect:
        if kind in ("record", "xrecord"):
            r = out_h.get(norm(key))
            if r is None:
                fail(f"record-lost/{data[0][1]}", f"{data[0][1]} #{key} is not in the written file")
                continue
            want = ctags(canon_record(data))
            got = ctags(r)
            if got != want and kind == "xrecord" and sum(1 for c, _ in data if c == 100) > 1:
                fail("xrecord-payload-100", f"XRECORD #{key}: payload with a group code 100 tag is truncated: {want[4:]} written as {got[4:]}")
            elif got != want:
                i = next((i for i, (a, b) in enumerate(zip(got, want)) if a != b), min(len(got), len(want)))
                fail(f"record-changed/{data[0][1]}", f"{data[0][1]} #{key} differs at tag {i}: wrote {got[i:i + 3]} expected {want[i:i + 3]} "
                     f"({len(got)} vs {len(want)} tags)")
            if out_where.get(norm(key)) != in_where.get(norm(key)):
                fail(f"record-moved/{data[0][1]}", f"#{key} moved from {in_where.get(norm(key))} to {out_where.get(norm(key))}")
        elif kind == "host":
            r = out_h.get(norm(key))
            groups, xd = data
            if r is None:
                fail("host-lost", f"host entity #{key} is not in the written file")
                continue
            have = [t for g in groups_of(ctags(r)) for t in g]
            if r[0][1] == "TABLE" and (have != ctags(groups) or xdata_of(ctags(r)) != ctags(xd)):
                fail("table-head-data", f"TABLE head #{key}: groups {ctags(groups)[:10]} XDATA {ctags(xd)[:6]} written as {have[:10]} / {xdata_of(ctags(r))[:6]}")
                continue
            if have != ctags(groups):
                fail(f"host-groups/{r[0][1]}", f"{r[0][1]} #{key}: base-class groups {ctags(groups)[:12]} written as {have[:12]}")
            if xdata_of(ctags(r)) != ctags(xd):
                fail(f"host-xdata/{r[0][1]}", f"{r[0][1]} #{key}: XDATA {ctags(xd)[:10]} written as {xdata_of(ctags(r))[:10]}")
        elif kind == "dict-entry":
            r = out_h.get(norm(key))
            name, h = data
            ok = r is not None and any(r[i] == (3, name) and r[i + 1][0] in (350, 360) and norm(r[i + 1][1]) == norm(h)
                                       for i in range(len(r) - 1))
            if not ok:
                fail("dict-entry", f"DICTIONARY #{key}: entry {name} -> #{h} is not in the written file")
        elif kind == "class":
            want = ctags(data)
            found = [ctags(r) for r in dict(secs_out).get("CLASSES", []) if (1, key[0]) in r and (2, key[1]) in r]
            if want not in found:
                fail("class-entry", f"CLASS {key}: {want} written as {found}")
        elif kind == "custom":
            got, names = header_custom(secs_out)
            want = []
            for k, v in data:
                want += [("$CUSTOMPROPERTYTAG", k), ("$CUSTOMPROPERTY", v)]
            if sp.ver < "AC1018":
                # permitted version loss: the two variables need DXF R2004, a R2000 file must not contain them
                if got:
                    fail("custom-props/written-into-r2000", f"R2004 header variables written into a {sp.ver} file: {got}")
            elif got != want:
                fail(f"custom-props/{key}", f"custom header properties {want} written as {got} (mode {key}, $LASTSAVEDBY "
                     f"{'written' if '$LASTSAVEDBY' in names else 'not written'})")
        elif kind == "header-var":
            got, names = header_custom(secs_out)
            if key not in names:
                fail("header-var-lost", f"unknown header variable {key} is not written")
        elif kind == "section":
            found = [(n, recs) for n, recs in secs_out if n == key]
            if len(found) != 1:
                fail(f"section-lost/{key}", f"section {key} occurs {len(found)} times in the written file")
                continue
            body = [t for r in found[0][1] for t in r if t[0] != 0 or t[1] != "<SECTION-TAGS>"]
            want = ctags(data[2:])
            if ctags(body) != want:
                fail(f"section-changed/{key}", f"section {key}: {want[:8]}.. written as {ctags(body)[:8]}..")
    # every other record of the input (ezdxf's own entities): uninterpreted parts are retained too
    mine = {norm(k) for kind, k, _ in sp.expect if kind in ("record", "xrecord", "host")}
    for h, r in in_h.items():
        if h in mine or h not in out_h:
            continue
        a, b = ctags(r), ctags(out_h[h])
        if xdata_of(a) != xdata_of(b):
            fail(f"known-entity-xdata/{r[0][1]}", f"{r[0][1]} #{h}: XDATA {xdata_of(a)[:8]} written as {xdata_of(b)[:8]}")
        if embedded_of(a) != embedded_of(b):
            fail(f"known-entity-embedded/{r[0][1]}", f"{r[0][1]} #{h}: embedded object {embedded_of(a)[:8]} written as {embedded_of(b)[:8]}")
        if groups_of(a) != groups_of(b):
            fail(f"known-entity-groups/{r[0][1]}", f"{r[0][1]} #{h}: base-class groups {groups_of(a)} written as {groups_of(b)}")
    for h in in_h:
        if h not in out_h:
            fail(f"handle-lost/{in_h[h][0][1]}", f"{in_h[h][0][1]} #{h} of the input is not in the written file")
    # class order and section order
    cls_in = [(dict(r).get(1), dict(r).get(2)) for r in dict(secs_in).get("CLASSES", [])]
    cls_out = [(dict(r).get(1), dict(r).get(2)) for r in dict(secs_out).get("CLASSES", [])]
    if [c for c in cls_out if c in cls_in] != cls_in:
        fail("class-order", f"CLASS entries reordered or lost: {cls_in} -> {cls_out}")
    names_out = [n for n, _ in secs_out]
    unknown_in = [n for n, _ in secs_in if n not in dxfparse.ORDER_R2000 + ["ACDSDATA", "THUMBNAILIMAGE"]]
    unknown_out = [n for n in names_out if n not in dxfparse.ORDER_R2000 + ["ACDSDATA"]]
    if unknown_out != unknown_in and "section-lost" not in " ".join(fails):
        fail("section-order", f"unknown sections {unknown_in} written as {unknown_out}")
    managed_pos = [i for i, n in enumerate(names_out) if n in dxfparse.ORDER_R2000 + ["ACDSDATA"]]
    if unknown_out and managed_pos and names_out.index(unknown_out[0]) < max(managed_pos):
        fail("section-order", f"unknown section before a managed one: {names_out}")
    # order of the retained records inside each layout / section
    for n, recs in secs_in:
        if n in ("ENTITIES", "BLOCKS", "OBJECTS"):
            mine = [norm(k) for kind, k, _ in sp.expect if kind == "record" and in_where.get(norm(k)) == n]
            inp = [dxfparse.rec_handle(r) for r in recs if dxfparse.rec_handle(r) in mine]
            outp = [dxfparse.rec_handle(r) for r in dict(secs_out).get(n, []) if dxfparse.rec_handle(r) in mine]
            owner = lambda h: dxfparse.base_refs(in_h[h])[0]
            for o in sorted(set(owner(h) for h in inp)):
                a = [h for h in inp if owner(h) == o]
                bb = [h for h in outp if owner(h) == o]
                if a != bb:
                    fail(f"record-order/{n}", f"{n}: retained records of owner #{o} reordered: {a} -> {bb}")
    # every retained handle keeps its record type; every pointer of a retained record resolves to the same type
    for h, r in in_h.items():
        if h in out_h and out_h[h][0][1] != r[0][1]:
            fail("handle-retyped", f"handle #{h}: {r[0][1]} became {out_h[h][0][1]}")
    for kind, key, data in sp.expect:
        if kind in ("record", "xrecord"):
            for c, v in pointer_targets(data):
                t_in = in_h.get(norm(v))
                t_out = out_h.get(norm(v))
                if t_in is not None and (t_out is None or t_out[0][1] != t_in[0][1]):
                    fail("pointer-dangling", f"#{key}: pointer ({c}, {v}) pointed to {t_in[0][1]}, now {t_out[0][1] if t_out else 'nothing'}")
    return fails


def file_cases(ctx, n, salt="files"):
    rng = ctx.rng(salt)
    for i in range(n):
        ver = VERSIONS[i % len(VERSIONS)]
        knobs = {
            "shuffle": rng.choice([0.0, 0.2, 0.5]),
            "mix": rng.random() < 0.5,
            "custom": rng.choice(["after-lastsavedby", "after-lastsavedby", "at-end", "no-lastsavedby"]),
            "section_pos": rng.choice(["end", "end", "middle"]),
            "unknown_var": 0.25,
        }
        fmt_in = "bin" if (i // len(VERSIONS)) % 3 == 2 else "asc"
        fmt_out = "bin" if (i // len(VERSIONS)) % 4 == 1 else "asc"
        seed = rng.getrandbits(48)
        yield i, ver, knobs, fmt_in, fmt_out, seed


def run_file_case(ctx, i, ver, knobs, fmt_in, fmt_out, seed, second=True):
    import random

    rep = {"op": "file", "ver": ver, "knobs": knobs, "fmt_in": fmt_in, "fmt_out": fmt_out, "seed": seed}
    label = f"{ver}/{fmt_in}->{fmt_out}"
    try:
        base_doc(ver)
    except Exception as e:  # noqa
        ctx.fail(f"file/base-document-raised/{type(e).__name__}/{ver}", f"ezdxf.new({ver}) + entities + write raised {type(e).__name__}: {e}"[:400], rep)
        return None, None, None
    sp = Splice(random.Random(seed), ver, **knobs)
    tags_in = sp.build()
    try:
        out = ezdxf_cycle(ctx, tags_in, ver, fmt_in, fmt_out, "a-stream" if i % 5 == 0 else "a")
    except Exception as e:  # noqa
        ctx.fail(f"file/load-save-raised/{type(e).__name__}/{label}", f"ezdxf.readfile/saveas raised {type(e).__name__}: {e}"[:500], rep)
        return sp, tags_in, None
    fails = check_file_case(ctx, sp, tags_in, out, label, rep)
    if second:
        try:
            out2 = ezdxf_cycle(ctx, out, ver, fmt_out, fmt_out, "b")
        except Exception as e:  # noqa
            ctx.fail(f"file/second-cycle-raised/{type(e).__name__}/{label}", f"second load-save raised {type(e).__name__}: {e}"[:500], rep)
            return sp, tags_in, out
        a, b = [(c, cval(c, v)) for c, v in out], [(c, cval(c, v)) for c, v in out2]
        # $HANDSEED may only grow (loading an INSERT with attributes / a POLYLINE draws a handle for a temporary SEQEND)
        ia = next((k for k, t in enumerate(a) if t == (9, "$HANDSEED")), None)
        if ia is not None and ia + 1 < len(b) and b[ia] == a[ia] and int(str(b[ia + 1][1]), 16) >= int(str(a[ia + 1][1]), 16):
            b[ia + 1] = a[ia + 1]
        if a != b:
            k = next((k for k, (x, y) in enumerate(zip(a, b)) if x != y), min(len(a), len(b)))
            ctx.fail(f"file/second-cycle/{label}", f"second load-save changed the file at tag {k}: {a[max(0, k - 2):k + 3]} -> {b[max(0, k - 2):k + 3]}", rep)
    return sp, tags_in, out


def oracle(ctx):
    import logging

    logging.getLogger("ezdxf").setLevel(logging.CRITICAL)
    n = ctx.n(240, 3000)
    for case in file_cases(ctx, n):
        i, ver, knobs, fmt_in, fmt_out, seed = case
        sp, tags_in, out = run_file_case(ctx, *case)
        ctx.count("O1 whole files", (ver, fmt_in, fmt_out, seed), True)
        ctx.hist("O1 whole files", f"{ver}:{fmt_in}->{fmt_out}")
        for kind, _, _ in (sp.expect if sp else []):
            ctx.hist("O1 whole files", "retained:" + kind)


# ------------------------------------------------------------------ X2: file structure and stored sections
SEC_NAMES = ["HEADER", "CLASSES", "TABLES", "BLOCKS", "ENTITIES", "OBJECTS", "ACDSDATA", "THUMBNAILIMAGE", "FOO", "ACME_DATA", "X", "foo"]


def gen_records(rng, malformed: bool):
    recs = []
    names = rng.sample(SEC_NAMES, rng.randint(0, 6))
    if malformed and rng.random() < 0.3 and names:
        names.append(rng.choice(names))  # duplicate section name
    for n in names:
        head = [(0, "SECTION"), (2, n)] + body_tags(rng, rng.choice([0, 0, 2]), [1, 70, 9, 40])
        recs.append(head)
        for _ in range(rng.randint(0, 3)):
            recs.append([(0, rng.choice(["REC", "LINE", "CLASS", "section", "EOF ", "ENDSEC2"]))] + body_tags(rng, rng.randint(0, 3), [1, 5, 70, 330, 2]))
        recs.append([(0, "ENDSEC")])
    recs.append([(0, "EOF")])
    if malformed:
        for _ in range(rng.randint(1, 2)):
            k = rng.randrange(9)
            pos = rng.randint(0, len(recs))
            if k == 0 and recs:
                del recs[rng.randrange(len(recs))]
            elif k == 1:
                recs.insert(pos, [(0, "ENDSEC")])
            elif k == 2:
                recs.insert(pos, [(0, "SECTION"), (2, "LATE")])
            elif k == 3:
                recs.insert(pos, [(0, "SECTION")])
            elif k == 4:
                recs.insert(pos, [(0, "SECTION"), (70, "1"), (2, "N")])
            elif k == 5:
                recs.insert(pos, [(0, "EOF")])
            elif k == 6:
                recs.insert(pos, [(0, "STRAY"), (1, "outside")])
            elif k == 7:
                recs.insert(pos, [(0, "ENDSEC"), (1, "x")])
            else:
                recs.insert(pos, [(0, "SECTION"), (2, "")])
    return recs


def enc_recs(recs) -> str:
    return "/".join(enc_tags(r) for r in recs)


def impl_struct(recs):
    """the real Drawing._load up to (not including) _load_section_dict: load_dxf_structure + section deletion"""
    from ezdxf.document import Drawing
    from ezdxf.lldxf.const import DXFStructureError
    from ezdxf.lldxf.types import DXFTag

    captured = {}
    doc = Drawing.__new__(Drawing)
    doc._load_section_dict = lambda sections: captured.update(sections=sections)
    try:
        Drawing._load(doc, iter([DXFTag(c, v) for r in recs for c, v in r]))
    except DXFStructureError as e:
        m = str(e)
        k = ("missingEndsec" if "missing ENDSEC" in m else "endsecWithoutSection" if "without previous" in m else
             "missingName" if "NAME tag" in m else "missingEof" if "missing EOF" in m else "other")
        return "err " + k
    return "ok " + ";".join(f"{cps(n)}={len(s)}" for n, s in captured["sections"].items())


def correspond_structure(ctx):
    rng = ctx.rng("structure")
    cases = []
    for i in range(ctx.n(1500, 12000)):
        recs = gen_records(rng, malformed=i % 2 == 1)
        ctx.hist("X2 file structure", "malformed" if i % 2 else "well-formed")
        cases.append((f"struct|{enc_recs(recs)}", impl_struct(recs), len(recs) > 2))
    # the record lists of thumbnail_dropped_counterexample / dup_section_name_counterexample
    ex1 = [[(0, "SECTION"), (2, "THUMBNAILIMAGE")], [(0, "x"), (90, "3")], [(0, "ENDSEC")], [(0, "SECTION"), (2, "FOO")], [(0, "BAR"), (1, "payload")],
           [(0, "ENDSEC")], [(0, "SECTION"), (2, "OBJECTS")], [(0, "DICTIONARY"), (5, "C")], [(0, "ENDSEC")], [(0, "SECTION"), (2, "ZED")], [(0, "ENDSEC")], [(0, "EOF")]]
    ex2 = [[(0, "SECTION"), (2, "FOO")], [(0, "BAR"), (1, "first")], [(0, "ENDSEC")], [(0, "SECTION"), (2, "FOO")], [(0, "BAR"), (1, "second")], [(0, "ENDSEC")], [(0, "EOF")]]
    for ex, want in ((ex1, "ok 70 79 79=2;79 66 74 69 67 84 83=2;90 69 68=1"), (ex2, "ok 70 79 79=2")):
        got = impl_struct(ex)
        if got != want:
            ctx.disagree("E1 counterexample theorems on real code", str(ex), got, want)
        cases.append((f"struct|{enc_recs(ex)}", got, True))
    ctx.correspond("X2 file structure", "C02", cases)
    # stored sections through the whole real load -> save
    dxfparse = _import_dxfparse()
    cases = []
    for case in file_cases(ctx, ctx.n(48, 300), salt="stored"):
        i, ver, knobs, fmt_in, fmt_out, seed = case
        import random

        knobs = dict(knobs, entities=False, blocks=False, objects=False, hosts=False, classes=False, header=False)
        sp = Splice(random.Random(seed), ver, **knobs)
        tags_in = sp.build()
        out = ezdxf_cycle(ctx, tags_in, ver, "asc", "asc", "s")
        recs_in = [[(c, str(v)) for c, v in r] for r in dxfparse.records(tags_in)]
        # the managed sections are a parameter of the model: their records are replaced by one stub record
        short, skip = [], False
        for r in recs_in:
            if r[0] == (0, "SECTION"):
                skip = r[1][1] in dxfparse.ORDER_R2000
                short.append(r[:2] if skip else r)
                if skip:
                    short.append([(0, "STUB")])
            elif r[0][1] in ("ENDSEC", "EOF"):
                skip = False
                short.append(r)
            elif not skip:
                short.append(r)
        recs_out = dxfparse.records(out)
        # tail of the real output: everything behind the last managed section
        last = max(k for k, r in enumerate(recs_out) if r[0] == (0, "SECTION") and r[1][1] in dxfparse.ORDER_R2000 + ["ACDSDATA"])
        end = next(k for k in range(last, len(recs_out)) if recs_out[k][0][1] == "ENDSEC")
        tail = [t for r in recs_out[end + 1:] if r[0][1] != "EOF" for t in r]
        # ACDSDATA is managed by AcDsDataSection in the real code: not part of the stored sections
        impl = "ok " + enc_tags([(c, str(v)) for c, v in tail])
        req = "sect|" + enc_recs(short)
        cases.append((req, impl, any(k == "section" for k, _, _ in sp.expect)))
    # compare on canonical values: the model echoes the input text, the real code re-formats numbers
    outs = ctx.driver("C02", [c[0] for c in cases])
    for (req, impl, nontriv), model in zip(cases, outs):
        ctx.count("X2b stored sections (whole files)", req, nontriv, sample={"request": req[:200], "impl": impl[:200], "model": model[:200]})

        def canon_line(line):
            if not line.startswith("ok"):
                return line
            body = line[3:]
            ts = []
            for part in body.split(";") if body else []:
                c, v = part.split(":")
                c = int(c)
                ts.append((c, cval(c, "".join(chr(int(x)) for x in v.split(" ")) if v else "")))
            return ts

        if canon_line(impl) != canon_line(model):
            ctx.disagree("X2b stored sections (whole files)", req[:2000], impl[:1000], model[:1000])
    ctx.cov["disagreements_checked"] += len(cases)


# ------------------------------------------------------------------ X3: custom header properties and CLASS registration
def correspond_header_classes(ctx):
    from ezdxf.entities.dxfclass import DXFClass
    from ezdxf.lldxf.tags import Tags
    from ezdxf.lldxf.types import DXFTag
    from ezdxf.sections.classes import ClassesSection
    from ezdxf.sections.header import HeaderSection

    rng = ctx.rng("header")
    cases = []
    vals = ["a", "b", "", "x y", "42", "$K"]
    names = ["$ACADVER", "$LASTSAVEDBY", "$INSBASE", "$FOO", "$CUSTOMPROPERTYTAG", "$CUSTOMPROPERTY", "$CUSTOMPROPERTYTAG", "$CUSTOMPROPERTY"]
    for _ in range(ctx.n(1500, 10000)):
        groups = [("$ACADVER", "AC1024")]
        for _ in range(rng.randint(0, 8)):
            n = rng.choice(names)
            groups.append((n, "AC1024" if n == "$ACADVER" else rng.choice(vals)))
        if rng.random() < 0.5:  # well-formed pairs somewhere in between
            k = rng.randint(0, len(groups))
            pairs = []
            for _ in range(rng.randint(1, 3)):
                pairs += [("$CUSTOMPROPERTYTAG", rng.choice(vals)), ("$CUSTOMPROPERTY", rng.choice(vals))]
            groups[k:k] = pairs
        tags = [DXFTag(0, "SECTION"), DXFTag(2, "HEADER")]
        for n, v in groups:
            tags += [DXFTag(9, n), DXFTag(1, v)]
        h = HeaderSection.load(Tags(tags))
        impl = ";".join(f"{cps(a)}:{cps(b)}" for a, b in h.custom_vars)
        req = "custom|" + ";".join(f"{cps(a)}:{cps(b)}" for a, b in groups)
        cases.append((req, impl, any(n.startswith("$CUSTOM") for n, _ in groups)))
        # where they are written, for a target version older than R2004 and for R2004+
        for ver in ("AC1015", "AC1024"):
            col = CompiledCollector(ver)
            h.export_dxf(col)
            written, exported = [], []
            for i, (c, v) in enumerate(col.tags):
                if c == 9:
                    if v in ("$CUSTOMPROPERTYTAG", "$CUSTOMPROPERTY"):
                        written.append((v, col.tags[i + 1][1]))
                    else:
                        exported.append(v)
            ctx.hist("X3 header custom properties, CLASS keys", f"written:{ver}:lastsavedby={'$LASTSAVEDBY' in exported}:props={len(h.custom_vars) > 0}")
            req = f"written|{int(ver >= 'AC1018')}|" + ";".join(cps(n) for n in exported) + "|" + ";".join(f"{cps(a)}:{cps(b)}" for a, b in h.custom_vars)
            cases.append((req, ";".join(f"{cps(a)}:{cps(b)}" for a, b in written), len(h.custom_vars) > 0))
    # CLASS registration
    cn = ["FOO", "BAR", "MATERIAL", "X"]
    cc = ["AcDbFoo", "AcDbBar", "AcDbMaterial"]
    for _ in range(ctx.n(1000, 8000)):
        keys = [(rng.choice(cn), rng.choice(cc)) for _ in range(rng.randint(0, 8))]
        sec = ClassesSection()
        for n, c in keys:
            sec.register(DXFClass.new(dxfattribs={"name": n, "cpp_class_name": c}))
        impl = ";".join(f"{cps(k[0])}:{cps(k[1])}" for k in sec.classes)
        cases.append(("classes|" + ";".join(f"{cps(a)}:{cps(b)}" for a, b in keys), impl, len(set(keys)) < len(keys)))
    ctx.correspond("X3 header custom properties, CLASS keys", "C02", cases)


# ------------------------------------------------------------------ X4: XRECORD load -> export
def impl_xrecord(ctags_, alive):
    from ezdxf.entities import factory
    from ezdxf.lldxf.const import DXFStructureError
    from ezdxf.lldxf.extendedtags import ExtendedTags

    try:
        e = factory.load(ExtendedTags.from_text(to_text(ctags_)), None)
        assert type(e).__name__ == "XRecord"
        e.post_load_hook(_StubDoc(alive))
        col = CompiledCollector()
        e.export_dxf(col)
        return "ok " + enc_tags(col.tags)
    except DXFStructureError as ex:
        m = str(ex)
        return "err " + ("missingAppClose" if "closing" in m else "xdictError" if "XDICTIONARY" in m else "noType" if "Missing subclass" in m else "unexpectedTag")
    except ValueError as ex:
        return "err " + ("badReactor" if "base 16" in str(ex) else "other:ValueError")
    except Exception as ex:  # noqa
        return f"err other:{type(ex).__name__}"


def correspond_xrecord(ctx):
    rng = ctx.rng("xrecord")
    cases = []
    for i in range(ctx.n(1500, 10000)):
        tags, alive, _ = gen_entity(rng, "ordered" if i % 3 else "malformed")
        base = []
        for t in tags[1:]:
            if t[0] in (100, 1001) or t == (101, "Embedded Object"):
                break
            base.append(t)
        xd = tags[next((k for k, t in enumerate(tags) if t[0] == 1001), len(tags)):]
        payload = [t for t in body_tags(rng, rng.randint(0, 8)) if t[0] not in (5, 105, 101)]
        k = rng.randrange(8)
        if k < 3:  # group code 100 inside the payload (legal for XRECORD)
            for _ in range(rng.randint(1, 2)):
                payload.insert(rng.randint(0, len(payload)), (100, rng.choice(["AcmeMarker", "AcDbXrecord", "x"])))
        body = [(100, "AcDbXrecord"), (280, str(rng.randint(0, 5)))] + payload
        if k == 3:
            body = [(100, "AcDbXrecord")] + payload           # no cloning flag
        elif k == 4:
            body = []                                         # no subclass at all
        elif k == 5:
            body = body + [(101, "Embedded Object"), (1, "dropped")]
        elif k == 6:
            body = [(100, "Other")] + payload
        rec = [(0, "XRECORD")] + base + body + xd
        ctx.hist("X4 XRECORD", ["code100", "code100", "code100", "no-280", "no-subclass", "embedded", "other-marker", "plain"][k])
        cases.append((f"xrec|{','.join(cps(h) for h in alive)}|{enc_tags(rec)}", impl_xrecord(rec, alive), len(payload) > 0))
    ctx.correspond("X4 XRECORD", "C02", cases)



# ------------------------------------------------------------------ session 3: document-level correspondence (Model/StorageDoc.lean)
def _canon_line(line):
    """`ok code:cps;…` -> canonical comparable tags (numbers through float()/int()), anything else unchanged"""
    if not line.startswith("ok"):
        return line
    body = line[3:]
    ts = []
    for part in body.split(";") if body else []:
        c, v = part.split(":")
        c = int(c)
        txt = "".join(chr(int(x)) for x in v.split(" ")) if v else ""
        if (c in POINTS or c in XD_POINT) and "," in txt:
            ts.append((c, tuple(float(x) for x in txt.split(","))))
        else:
            ts.append((c, cval(c, txt)))
    return ts


def unflat(tags):
    """file-level tags -> compiled tags (the granularity of ExtendedTags and of the model): point coordinates merged"""
    out, i = [], 0
    while i < len(tags):
        c, v = tags[i]
        if c in POINTS or c in XD_POINT:
            vals = [str(v)]
            j = i + 1
            while j < len(tags) and len(vals) < 3 and tags[j][0] == c + 10 * len(vals):
                vals.append(str(tags[j][1]))
                j += 1
            if len(vals) > 1:
                out.append((c, ",".join(vals)))
                i = j
                continue
        out.append((c, v))
        i += 1
    return out


def _fresh(rng, used, lo=0x1000, hi=0xEFFFF):
    while True:
        h = "%X" % rng.randint(lo, hi)
        if h not in used:
            used.add(h)
            return h


def gen_doc_records(rng, base, section: str, used):
    """records for the ENTITIES / OBJECTS section: unknown types (tag storage) mixed with a few implemented ones.
    -> (records as file-level tags, alive handles (extension dictionaries), extra OBJECTS records, expects a link error)"""
    msp, psp = base["msp"], base["psp"]
    recs, alive, extra = [], [], []
    link_error = False
    handle_of = {}

    def unknown(owner=None, flag=None):
        tags, al, _ = gen_entity(rng, rng.choice(["ordered", "ordered", "shuffled"]))
        if tags[0][1] in ("ACAD_PROXY_OBJECT",):
            tags[0] = (0, "FOO")
        if rng.random() < 0.12:
            tags[0] = (0, rng.choice(STORAGE_TYPES))
        h = _fresh(rng, used)
        own = owner if owner is not None else _fresh(rng, used)
        out = []
        seen_sub = False
        for c, v in tags:
            if not seen_sub and c == 100:
                seen_sub = True
                if flag is not None:
                    out += [(100, "AcDbEntity")] + ([(67, str(flag))] if flag != "none" else []) + [(8, "0")]
            if not seen_sub and c == 5:
                v = h
            elif not seen_sub and c == 330 and (len(out) < 2 or out[-1][0] != 330) and not _in_group(out):
                v = own
            out.append((c, v))
        if not seen_sub and flag is not None:
            # no subclass at all: put the AcDbEntity subclass in front of embedded objects / XDATA
            k = next((i for i, (c, v) in enumerate(out) if c == 1001 or (c == 101 and v == "Embedded Object")), len(out))
            out[k:k] = [(100, "AcDbEntity")] + ([(67, str(flag))] if flag != "none" else []) + [(8, "0")]
        for xh in al:
            # the extension dictionary must exist: a DICTIONARY object owned by the entity
            nh = _fresh(rng, used)
            out = [(c, nh if (c == 360 and v == xh) else v) for c, v in out]
            alive.append(nh)
            extra.append([(0, "DICTIONARY"), (5, nh), (330, h), (100, "AcDbDictionary"), (281, "1")])
        handle_of[id(out)] = h
        return out

    def line(owner, flag):
        h = _fresh(rng, used)
        return [(0, "LINE"), (5, h), (330, owner), (100, "AcDbEntity")] + ([(67, "1")] if flag else []) + \
               [(8, "0"), (100, "AcDbLine"), (10, "0.0"), (20, "0.0"), (30, "0.0"), (11, "1.0"), (21, "1.0"), (31, "0.0")]

    def insert(owner, follow, n):
        h = _fresh(rng, used)
        out = [[(0, "INSERT"), (5, h), (330, owner), (100, "AcDbEntity"), (8, "0"), (100, "AcDbBlockReference")] +
               ([(66, "1")] if follow else []) + [(2, "FB"), (10, "0.0"), (20, "0.0"), (30, "0.0")]]
        for i in range(n):
            ah = _fresh(rng, used)
            out.append([(0, "ATTRIB"), (5, ah), (330, h), (100, "AcDbEntity"), (8, "0"), (100, "AcDbText"), (10, "0.0"), (20, "0.0"), (30, "0.0"),
                        (40, "1.0"), (1, "v"), (100, "AcDbAttribute"), (2, f"T{i}"), (70, "0")])
        if follow:
            out.append([(0, "SEQEND"), (5, _fresh(rng, used)), (330, h), (100, "AcDbEntity"), (8, "0")])
        return out

    def polyline(owner, n):
        h = _fresh(rng, used)
        out = [[(0, "POLYLINE"), (5, h), (330, owner), (100, "AcDbEntity"), (8, "0"), (100, "AcDb2dPolyline"), (66, "1"), (10, "0.0"), (20, "0.0"), (30, "0.0")]]
        for i in range(n):
            out.append([(0, "VERTEX"), (5, _fresh(rng, used)), (330, h), (100, "AcDbEntity"), (8, "0"), (100, "AcDbVertex"), (100, "AcDb2dVertex"),
                        (10, f"{i}.0"), (20, "0.0"), (30, "0.0")])
        out.append([(0, "SEQEND"), (5, _fresh(rng, used)), (330, h), (100, "AcDbEntity"), (8, "0")])
        return out

    n = rng.randint(1, 9)
    for _ in range(n):
        k = rng.randrange(10)
        if section == "OBJECTS":
            if k < 8:
                recs.append(unknown(owner=rng.choice([base["fd"], base["root"], None])))
            else:
                h = _fresh(rng, used)
                recs.append([(0, "DICTIONARY"), (5, h), (330, base["fd"]), (100, "AcDbDictionary"), (281, "1")])
            continue
        if k < 5:
            owner = rng.choice([msp, msp, psp, None])
            flag = rng.choice([None, "none", "0", "1", "1"])
            recs.append(unknown(owner=owner, flag=flag))
        elif k == 5:
            o = rng.choice([msp, psp])
            recs.append(line(o, o == psp))
        elif k == 6:
            recs += insert(rng.choice([msp, psp]), True, rng.randint(0, 2))
        elif k == 7:
            recs += insert(msp, False, 0)
        elif k == 8:
            recs += polyline(rng.choice([msp, psp]), rng.randint(1, 3))
        else:
            if rng.random() < 0.3:
                # an unknown record between a POLYLINE and its SEQEND: the linker raises
                pl = polyline(msp, 2)
                pl.insert(2, unknown(owner=msp, flag="0"))
                recs += pl
                link_error = True
            else:
                recs.append(line(msp, False))
    handles = [handle_of.get(id(r), r[1][1] if len(r) > 1 and r[1][0] == 5 else None) for r in recs]
    return recs, alive, extra, (link_error, handles)


def _base_handle(r):
    """the handle tag of the base class outside the application-data groups"""
    depth = 0
    for c, v in r[1:]:
        if c == 102 and str(v).startswith("{") and not depth:
            depth = 1
        elif c == 102 and depth:
            depth = 0
        elif c in (100, 1001) or (c == 101 and v == "Embedded Object"):
            break
        elif c == 5 and not depth:
            return v
    return None


def _in_group(out):
    depth = 0
    for c, v in out:
        if c == 102 and str(v).startswith("{"):
            depth = 1
        elif c == 102 and depth:
            depth = 0
    return depth == 1


def _doc_cycle(ctx, base, ent_recs, obj_recs, extra_objs, hi_seed="F0000", blk_recs=None):
    """the real code on a whole file: base document with the ENTITIES body replaced and OBJECTS extended; ASCII stream API"""
    import ezdxf

    dxfparse = _import_dxfparse()
    tags = []
    for n, recs in base["sections"]:
        if n == "HEADER":
            hdr = [list(t) for t in recs[0][1:]]
            i = next(i for i, t in enumerate(hdr) if tuple(t) == (9, "$HANDSEED"))
            hdr[i + 1] = (5, hi_seed)
            tags += [(0, "SECTION"), (2, "HEADER")] + [tuple(t) for t in hdr] + [(0, "ENDSEC")]
            continue
        tags += [(0, "SECTION"), (2, n)]
        if n == "ENTITIES":
            body = ent_recs if ent_recs is not None else recs
        elif n == "OBJECTS":
            body = list(recs) + obj_recs + extra_objs
        elif n == "BLOCKS" and blk_recs is not None:
            body = blk_recs
        else:
            body = recs
        for r in body:
            tags += flat(r)
        tags.append((0, "ENDSEC"))
    tags.append((0, "EOF"))
    doc = ezdxf.read(io.StringIO(encode_ascii(tags)))
    out = io.StringIO()
    doc.write(out)
    secs, _ = dxfparse.split_file(dxfparse.parse_ascii(out.getvalue()))
    return dict(secs), tags


def _describe(recs, registered):
    """real output records -> the stand-in used by the driver: implemented records as (0,type),(5,handle), sub-entities nothing"""
    dxfparse = _import_dxfparse()
    out = []
    for r in recs:
        t = dxfparse.rec_type(r)
        if t in ("ATTRIB", "VERTEX", "SEQEND"):
            continue
        if t in registered and t not in STORAGE_TYPES:
            out += [(0, t), (5, next((v for c, v in r[1:] if c == 5), ""))]
        else:
            out += [(c, str(v)) for c, v in unflat(r)]
    return out


def correspond_document(ctx):
    """D1: ENTITIES and OBJECTS of whole files through the real ezdxf.read -> write vs entitiesPass / objectsPass"""
    from ezdxf.entities import factory
    from ezdxf.lldxf.const import DXFStructureError

    registered = set(factory.ENTITY_CLASSES)
    rng = ctx.rng("document")
    reqs, metas = [], []
    for i in range(ctx.n(220, 1500)):
        ver = VERSIONS[i % len(VERSIONS)]
        base = base_doc(ver)
        used = set()
        ent, alive1, extra1, (link_error, _) = gen_doc_records(rng, base, "ENTITIES", used)
        obj, alive2, extra2, (_, obj_handles) = gen_doc_records(rng, base, "OBJECTS", used)
        try:
            secs, tags_in = _doc_cycle(ctx, base, ent, obj, extra1 + extra2)
            impl_e = "ok " + enc_tags(_describe(secs.get("ENTITIES", []), registered))
            nbase = len(dict(base["sections"])["OBJECTS"])
            mine = set(obj_handles)
            dxfparse = _import_dxfparse()
            objs_out = [r for r in secs.get("OBJECTS", []) if _base_handle(r) in mine]
            impl_o = "ok " + enc_tags(_describe(objs_out, registered))
        except DXFStructureError as e:
            impl_e = impl_o = "err link" if "or SEQEND" in str(e) else "err " + str(e)[:40]
        ctx.hist("D1 record sections (whole files)", "link-error" if link_error else "ok")
        alive = alive1 + alive2
        reqs.append(f"ents|{cps(base['msp'])}|{cps(base['psp'])}|{','.join(cps(h) for h in alive)}|{enc_recs(ent)}")
        metas.append((impl_e, any(r[0][1] not in registered for r in ent)))
        if not link_error:
            reqs.append(f"objs|{','.join(cps(h) for h in alive)}|{enc_recs(obj)}")
            metas.append((impl_o, any(r[0][1] not in registered for r in obj)))
    outs = ctx.driver("C02", reqs, build=DRIVER_DEPS)
    for req, (impl, nontriv), model in zip(reqs, metas, outs):
        ctx.count("D1 record sections (whole files)", req, nontriv, sample={"request": req[:200], "impl": impl[:200], "model": model[:200]})
        if _canon_line(impl) != _canon_line(model):
            ctx.disagree("D1 record sections (whole files)", req[:3000], impl[:20000], model[:20000])
    ctx.cov["disagreements_checked"] += len(reqs)



def _compare(ctx, stream, reqs, metas):
    """requests through the driver, compared on canonical values; metas = [(impl line, nontrivial)]"""
    outs = ctx.driver("C02", reqs, build=DRIVER_DEPS)
    for req, (impl, nontriv), model in zip(reqs, metas, outs):
        ctx.count(stream, req, nontriv, sample={"request": req[:200], "impl": impl[:200], "model": model[:200]})
        if _canon_line(impl) != _canon_line(model):
            lim = 10 ** 7 if os.environ.get("C02_DEBUG") else 3000
            ctx.disagree(stream, req[:lim], impl[:lim], model[:lim])
    ctx.cov["disagreements_checked"] += len(reqs)


def gen_class_record(rng, wild: bool):
    typ = rng.choice(FOREIGN_TYPES[:5])
    std = [(1, typ), (2, rng.choice(["AcDb", "Acme"]) + typ.title()), (3, rng.choice(["AcmeApp|Version 1.0", "ObjectDBX Classes", "x", ""])),
           (90, str(rng.choice([0, 1, 1153, 4095, 32768]))), (91, str(rng.randint(0, 50))), (280, str(rng.randint(0, 1))), (281, str(rng.randint(0, 1)))]
    if not wild:
        if rng.random() < 0.3:
            del std[4]  # a R2000 entry has no instance count
        return [(0, "CLASS")] + std
    k = rng.randrange(8)
    tags = list(std)
    if k == 0:
        rng.shuffle(tags)
    elif k == 1:
        tags = [t for t in tags if rng.random() < 0.6]
    elif k == 2:
        tags.insert(rng.randint(0, len(tags)), (rng.choice([1, 2, 90, 91, 280]), rng.choice(["7", "1"])))
    elif k == 3:
        tags.insert(rng.randint(0, len(tags)), (rng.choice([4, 70, 40, 330, 5]), "3"))
    elif k == 4:
        tags[rng.randint(0, len(tags)):0] = [(102, "{ACME"), (1, "inside"), (90, "5"), (102, "}")]
    elif k == 5:
        tags.insert(rng.randint(0, len(tags)), (100, "AcDbMarker"))
    elif k == 6:
        tags.insert(rng.randint(0, len(tags)), (102, "{OPEN"))
    else:
        tags += [(1001, "ACAD"), (1000, "x")]
    return [(0, "CLASS")] + tags


def correspond_classes_full(ctx):
    """X5: DXFClass load -> export and ClassesSection load -> export (whole entries, both version classes)"""
    from ezdxf.entities import factory
    from ezdxf.lldxf.extendedtags import ExtendedTags
    from ezdxf.sections.classes import ClassesSection

    rng = ctx.rng("classes-full")
    reqs, metas = [], []

    def load(rec):
        return factory.load(ExtendedTags.from_text(to_text(rec)), None)

    # the inputs of class_entry_counterexamples (Props/C02.lean)
    for name, rec, ver, want in (
            ("class-foreign-content", _T(0, "CLASS", 1, "A", 2, "B", 3, "C", 4, "foreign", 90, "1", 90, "7", 102, "{ACME", 1, "x", 102, "}", 280, "0", 281, "1",
                                         1001, "ACAD", 1000, "x"), "AC1027", _T(0, "CLASS", 1, "A", 2, "B", 3, "C", 90, "7", 91, "0", 280, "0", 281, "1")),
            ("class-count-r2000", _T(0, "CLASS", 1, "A", 2, "B", 3, "C", 90, "1", 91, "5", 280, "0", 281, "1"), "AC1015",
             _T(0, "CLASS", 1, "A", 2, "B", 3, "C", 90, "1", 280, "0", 281, "1"))):
        col = CompiledCollector(ver)
        load(rec).export_dxf(col)
        ctx.count("E1 counterexample theorems on real code", name, True, sample={"theorem": "class_entry_counterexamples", "case": name, "impl": str(col.tags)})
        if col.tags != want:
            ctx.disagree("E1 counterexample theorems on real code", name, str(col.tags), str(want))
    ctx.cov["disagreements_checked"] += 2
    for i in range(ctx.n(1200, 8000)):
        rec = gen_class_record(rng, wild=i % 2 == 1)
        for ver in ("AC1015", "AC1027"):
            try:
                col = CompiledCollector(ver)
                load(rec).export_dxf(col)
                impl = "ok " + enc_tags(col.tags)
            except Exception:  # noqa
                impl = "none"
            reqs.append(f"class|{int(ver >= 'AC1018')}|{enc_tags(rec)}")
            metas.append((impl, len(rec) > 1))
        ctx.hist("X5 CLASS entries", "wild" if i % 2 else "standard")
    for i in range(ctx.n(500, 4000)):
        recs = [gen_class_record(rng, wild=rng.random() < 0.25) for _ in range(rng.randint(0, 6))]
        if rng.random() < 0.3 and recs:
            recs.insert(rng.randint(0, len(recs)), list(rng.choice(recs)))       # duplicate key: first wins
        if rng.random() < 0.2:
            recs.insert(rng.randint(0, len(recs)), [(0, "FOO"), (1, "not a class")])  # ignored
        ver = rng.choice(["AC1015", "AC1018", "AC1032"])
        try:
            sec = ClassesSection(None, iter([load([(0, "SECTION"), (2, "CLASSES")])] + [load(r) for r in recs]))
            col = CompiledCollector(ver)
            sec.export_dxf(col)
            assert col.tags[:2] == [(0, "SECTION"), (2, "CLASSES")] and col.tags[-1] == (0, "ENDSEC")
            impl = "ok " + enc_tags(col.tags[2:-1])
        except AssertionError:
            raise
        except Exception:  # noqa
            impl = "none"
        reqs.append(f"clsec|{int(ver >= 'AC1018')}|{enc_recs(recs)}")
        metas.append((impl, len(recs) > 1))
    # entries of the file that collide with the classes ezdxf registers at save time (same name, same or another C++ class name,
    # other application name / flags / proxy / entity values): add_required_classes must not touch them
    from ezdxf.sections.classes import CLASS_DEFINITIONS, REQUIRED_CLASSES
    req_names = sorted(set(REQUIRED_CLASSES["AC1015"]) | set(REQUIRED_CLASSES["AC1018"]))
    e = "required-class-does-not-replace"
    mine = _T(0, "CLASS", 1, "MATERIAL", 2, "AcDbMaterial", 3, "AcmeApp|1.0", 90, "7", 91, "12", 280, "1", 281, "1")
    sec = ClassesSection(None, iter([load([(0, "SECTION"), (2, "CLASSES")]), load(mine)]))
    sec.add_required_classes("AC1027")
    col = CompiledCollector("AC1027")
    sec.export_dxf(col)
    got = (col.tags[2:10], [t for t in col.tags if t == (1, "MATERIAL")])
    ctx.count("E1 counterexample theorems on real code", e, True, sample={"theorem": "required_class_does_not_replace", "impl": str(got)[:300]})
    if got != (mine, [(1, "MATERIAL")]):
        ctx.disagree("E1 counterexample theorems on real code", e, str(got), str((mine, [(1, "MATERIAL")])))
    ctx.cov["disagreements_checked"] += 1
    for i in range(ctx.n(400, 3000)):
        recs = []
        for _ in range(rng.randint(0, 5)):
            if rng.random() < 0.7:
                n = rng.choice(req_names + ["IMAGE", "WIPEOUT"])
                cpp = CLASS_DEFINITIONS[n][0] if rng.random() < 0.7 else "Acme" + n.title()
                r = [(0, "CLASS"), (1, n), (2, cpp), (3, rng.choice(["AcmeApp|Version 1.0", CLASS_DEFINITIONS[n][1], ""])),
                     (90, str(rng.choice([0, 7, CLASS_DEFINITIONS[n][2], 32768]))), (91, str(rng.randint(0, 50))),
                     (280, str(rng.randint(0, 1))), (281, str(rng.randint(0, 1)))]
                if rng.random() < 0.3:
                    del r[5]
            else:
                r = gen_class_record(rng, wild=rng.random() < 0.3)
            recs.append(r)
        ver = rng.choice(["AC1015", "AC1018", "AC1027"])
        try:
            sec = ClassesSection(None, iter([load([(0, "SECTION"), (2, "CLASSES")])] + [load(r) for r in recs]))
            sec.add_required_classes(ver)
            col = CompiledCollector(ver)
            sec.export_dxf(col)
            impl = "ok " + enc_tags(col.tags[2:-1])
        except Exception:  # noqa
            impl = "none"
        ctx.hist("X5 CLASS entries", "with-required-classes")
        reqs.append(f"clsecr|{int(ver >= 'AC1018')}|{enc_recs(recs)}")
        metas.append((impl, len(recs) > 0))
    _compare(ctx, "X5 CLASS entries", reqs, metas)


def correspond_header_full(ctx):
    """X6: HeaderSection load -> export: priority order, version window, unknown names, custom properties, value tags with the
    required group code and with another one (converted or, when the conversion fails, not written: fix 16b0d709b)"""
    from ezdxf.lldxf import types
    from ezdxf.lldxf.tags import Tags
    from ezdxf.sections.header import HeaderSection
    from ezdxf.sections.headervars import HEADER_VAR_MAP

    rng = ctx.rng("header-full")
    plain = [n for n, d in HEADER_VAR_MAP.items() if n != "$ACADVER"]
    by_window = {}
    for n in plain:
        by_window.setdefault((HEADER_VAR_MAP[n].mindxf, HEADER_VAR_MAP[n].maxdxf), []).append(n)

    def proper(n):
        c = HEADER_VAR_MAP[n].code
        t = types.TYPE_TABLE.get(c, str)
        return (c, rng.choice(["7", "0", "-3"]) if t is int else rng.choice(["2.5", "7.0"]) if t is float else rng.choice(["txt", "x y", ""]))

    reqs, metas = [], []
    for _ in range(ctx.n(900, 6000)):
        groups = [("$ACADVER", 1, "AC1015")]
        for _ in range(rng.randint(0, 10)):
            k = rng.randrange(10)
            if k < 5:
                n = rng.choice(by_window[rng.choice(sorted(by_window))])
            elif k < 6:
                n = rng.choice(["$ACMEVAR", "$FOREIGNSETTING", "$X"])
            elif k < 7:
                n = rng.choice(["$LASTSAVEDBY", "$HANDSEED", "$ACADVER", "$ACADMAINTVER", "$XCLIPFRAME"])
            else:
                n = rng.choice(["$CUSTOMPROPERTYTAG", "$CUSTOMPROPERTY"])
            if n in HEADER_VAR_MAP and HEADER_VAR_MAP[n].code != 10 and rng.random() < 0.4:
                groups.append((n,) + proper(n))          # the documented group code
            else:
                groups.append((n, 1, rng.choice(["a", "b", "", "x y", "42", "7", "2.5", "-3"])))   # a text tag: converted or dropped
        if rng.random() < 0.5:
            k = rng.randint(1, len(groups))
            pairs = []
            for _ in range(rng.randint(1, 3)):
                pairs += [("$CUSTOMPROPERTYTAG", 1, rng.choice(["K", "L", ""])), ("$CUSTOMPROPERTY", 1, rng.choice(["v", "w", ""]))]
            groups[k:k] = pairs
        if rng.random() < 0.3 and len(groups) > 2:
            groups.insert(rng.randint(1, len(groups)), rng.choice(groups[1:]))   # a repeated name: later value, first position
        text = "0\nSECTION\n2\nHEADER\n" + "".join(f"9\n{n}\n{c}\n{v}\n" for n, c, v in groups)
        h = HeaderSection.load(Tags.from_text(text))
        for ver in rng.sample(["AC1009", "AC1015", "AC1018", "AC1021", "AC1024", "AC1027", "AC1032"], 3):
            col = CompiledCollector(ver)
            h.export_dxf(col)
            body = col.tags[2:-1]
            assert col.tags[:2] == [(0, "SECTION"), (2, "HEADER")] and col.tags[-1] == (0, "ENDSEC")
            reqs.append(f"hdr|{int(ver[2:])}|{cps(ver)}|" + ";".join(f"{cps(a)}:{c}:{cps(b)}" for a, c, b in groups))
            metas.append(("ok " + enc_tags(body), len(groups) > 2))
            ctx.hist("X6 HEADER load/export", ver)
    _compare(ctx, "X6 HEADER load/export", reqs, metas)


def correspond_proxy_acds(ctx):
    """X7: ACAD_PROXY_ENTITY load -> export (proxy subclass with binary chunks verbatim); X8: ACDSDATA section load -> export"""
    from ezdxf.entities import factory
    from ezdxf.lldxf.extendedtags import ExtendedTags
    from ezdxf.lldxf.tags import Tags
    from ezdxf.sections.acdsdata import AcDsDataSection

    # E2: the inputs of document_level_counterexamples (Props/C02.lean) on the real code
    def e2(name, got, want):
        ctx.count("E1 counterexample theorems on real code", name, True, sample={"theorem": "document_level_counterexamples", "case": name, "impl": str(got)[:200]})
        if got != want:
            ctx.disagree("E1 counterexample theorems on real code", name, str(got), str(want))

    three = _T(0, "ACAD_PROXY_ENTITY", 5, "A", 330, "B", 100, "AcDbEntity", 8, "0", 100, "AcDbProxyEntity", 90, "498", 310, "CAFE", 100, "AcDbLater", 1, "third")
    e = factory.load(ExtendedTags.from_text(to_text(three)), None)
    e.post_load_hook(_StubDoc([]))
    col = CompiledCollector()
    e.export_dxf(col)
    e2("proxy-third-subclass", col.tags, three[:-2])
    ahead = _T(0, "SECTION", 2, "ACDSDATA", 70, "2", 71, "2")
    for name, recs, want in (("acds-no-records", [_T(0, "ACDSSCHEMA", 90, "0", 1, "AcDb3DSolid_ASM_Data")], []),
                             ("acds-stray-tags", [_T(0, "ACDSRECORD", 90, "0", 91, "5", 2, "AcDbDs::ID", 280, "10", 320, "2A")],
                              ahead + _T(0, "ACDSRECORD", 90, "0", 2, "AcDbDs::ID", 280, "10", 320, "2A") + [(0, "ENDSEC")])):
        sec = AcDsDataSection(None, iter([Tags.from_text(to_text(r)) for r in [ahead] + recs]))
        col = CompiledCollector()
        sec.export_dxf(col)
        e2(name, col.tags, want)
    base = base_doc("AC1027")
    try:
        _doc_cycle(ctx, base, [[(0, "POLYLINE"), (5, "F001"), (330, base["msp"]), (100, "AcDbEntity"), (8, "0"), (100, "AcDb2dPolyline"), (66, "1")],
                               [(0, "FOO"), (5, "F002"), (330, base["msp"])],
                               [(0, "SEQEND"), (5, "F003"), (330, "F001"), (100, "AcDbEntity"), (8, "0")]], [], [])
        e2("unknown-inside-polyline", "loaded", "DXFStructureError")
    except Exception as ex:  # noqa
        e2("unknown-inside-polyline", type(ex).__name__, "DXFStructureError")
    ctx.cov["disagreements_checked"] += 4
    rng = ctx.rng("proxy")
    reqs, metas = [], []
    for i in range(ctx.n(700, 5000)):
        tags, alive, _ = gen_entity(rng, "ordered")
        base = []
        for t in tags[1:]:
            if t[0] in (100, 1001) or t == (101, "Embedded Object"):
                break
            base.append(t)
        xd = tags[next((k for k, t in enumerate(tags) if t[0] == 1001), len(tags)):]
        data = "".join("%02X" % rng.randrange(256) for _ in range(rng.choice([4, 127, 130, 300])))
        chunks = [data[j:j + 254] for j in range(0, len(data), 254)]
        proxy = [(100, "AcDbProxyEntity"), (90, "498"), (91, str(rng.randint(500, 600))), (95, "33"), (70, "0"), (92, str(len(data) // 2))] + \
                [(310, c) for c in chunks] + [(93, str(rng.randint(0, 4096)))] + [(310, "AB" * rng.randint(1, 30))] + \
                [(c, hexh(rng)) for c in rng.sample([330, 340, 350, 360], rng.randint(0, 3))] + [(94, "0")]
        k = rng.randrange(6)
        subs = [(100, "AcDbEntity"), (8, "0")] + proxy
        if k == 0:
            subs += [(100, "AcDbLater"), (1, "dropped")]                         # a third subclass is not kept
        elif k == 1:
            subs += [(101, "Embedded Object"), (1, "dropped")]                   # embedded objects are not kept
        elif k == 2:
            subs = [(100, "AcDbEntity"), (8, "0")]                               # no proxy subclass
        ctx.hist("X7 ACAD_PROXY_ENTITY", ["third-subclass", "embedded", "no-proxy-subclass", "plain", "plain", "plain"][k])
        rec = [(0, "ACAD_PROXY_ENTITY")] + base + subs + xd
        try:
            e = factory.load(ExtendedTags.from_text(to_text(rec)), None)
            assert type(e).__name__ == "ACADProxyEntity"
            e.post_load_hook(_StubDoc(alive))
            col = CompiledCollector()
            e.export_dxf(col)
            impl = "ok " + enc_tags(col.tags)
        except AssertionError:
            raise
        except Exception as ex:  # noqa
            impl = f"err other:{type(ex).__name__}"
        reqs.append(f"proxy|{','.join(cps(h) for h in alive)}|{enc_tags(rec)}")
        metas.append((impl, True))
    _compare(ctx, "X7 ACAD_PROXY_ENTITY", reqs, metas)
    rng = ctx.rng("acds")
    reqs, metas = [], []
    for i in range(ctx.n(600, 4000)):
        head = [(0, "SECTION"), (2, "ACDSDATA"), (70, "2"), (71, str(rng.randint(1, 9)))]
        recs = []
        for _ in range(rng.randint(0, 5)):
            k = rng.randrange(8)
            if k < 2:
                recs.append([(0, "ACDSSCHEMA"), (90, str(rng.randint(0, 5))), (1, "AcDb3DSolid_ASM_Data"), (2, "AcDbDs::ID"), (280, "10"), (91, "8"),
                             (101, "ACDSRECORD"), (95, "0")])
            elif k < 6:
                data = "".join("%02X" % rng.randrange(256) for _ in range(rng.choice([1, 64, 127])))
                recs.append([(0, "ACDSRECORD"), (90, str(rng.randint(0, 3))), (2, "AcDbDs::ID"), (280, "10"), (320, hexh(rng)),
                             (2, "ASM_Data"), (280, "15"), (94, str(len(data))), (310, data), (310, data[::-1])])
            elif k == 6:
                # tags between the flags tag and the first (2, name) tag
                recs.append([(0, "ACDSRECORD"), (90, "0"), (91, "5"), (1, "stray"), (2, "AcDbDs::ID"), (280, "10"), (320, hexh(rng))])
            else:
                recs.append(rng.choice([[(0, "ACDSRECORD"), (90, "1")], [(0, "ACDSRECORD")], [(0, "ACMEDATA"), (1, "x"), (310, "00FF")]]))
        try:
            sec = AcDsDataSection(None, iter([Tags.from_text(to_text(r)) for r in [head] + recs]))
            col = CompiledCollector()
            sec.export_dxf(col)
            impl = "ok " + enc_tags(col.tags)
        except Exception:  # noqa
            impl = "none"
        ctx.hist("X8 ACDSDATA", "with-records" if any(r[0][1] == "ACDSRECORD" for r in recs) else "no-records")
        reqs.append("acds|" + enc_recs([head] + recs))
        metas.append((impl, len(recs) > 0))
    _compare(ctx, "X8 ACDSDATA", reqs, metas)



def correspond_blocks(ctx):
    """D2: the BLOCKS section of whole files through the real ezdxf.read -> write vs blocksPass"""
    from ezdxf.entities import factory
    from ezdxf.lldxf.const import DXFStructureError

    dxfparse = _import_dxfparse()
    registered = set(factory.ENTITY_CLASSES)
    rng = ctx.rng("blocks")
    reqs, metas = [], []
    for i in range(ctx.n(160, 1200)):
        ver = VERSIONS[i % len(VERSIONS)]
        base = base_doc(ver)
        secs = dict(base["sections"])
        # table order of the BLOCK_RECORD entries
        order, inside = [], False
        for r in secs["TABLES"]:
            if r[0] == (0, "TABLE"):
                inside = (2, "BLOCK_RECORD") in r
            elif r[0] == (0, "BLOCK_RECORD") and inside:
                order.append(next(v for c, v in r if c == 2))
        used, alive, extra, body = set(), [], [], []
        link_error = False
        for r in secs["BLOCKS"]:
            body.append([(c, str(v)) for c, v in r])
            if r[0] == (0, "BLOCK"):
                name = next(v for c, v in r if c == 2)
                if name in ("FB", "*Paper_Space0") and rng.random() < 0.8:
                    recs, al, ex, (le, _) = gen_doc_records(rng, base, "ENTITIES", used)
                    link_error = link_error or le
                    body += recs
                    alive += al
                    extra += ex
            elif r[0] == (0, "ENDBLK") and rng.random() < 0.15:
                # an entity between ENDBLK and the next BLOCK: ignored by BlocksSection.load
                recs, al, ex, _ = gen_doc_records(rng, base, "OBJECTS", used)
                body += recs[:1]
                extra += ex
                ctx.hist("D2 BLOCKS section (whole files)", "stray-entity")
        # the content of the base blocks (LINE in FB, in *Paper_Space0) stays in front of the generated records
        try:
            out, _ = _doc_cycle(ctx, base, None, [], extra, blk_recs=body)
            impl = "ok " + enc_tags(_describe(out.get("BLOCKS", []), registered))
        except DXFStructureError as e:
            impl = "err link" if "or SEQEND" in str(e) else "err " + str(e)[:40]
        ctx.hist("D2 BLOCKS section (whole files)", "link-error" if link_error else "ok")
        reqs.append(f"blocks|{','.join(cps(h) for h in alive)}|{','.join(cps(n) for n in order)}|{enc_recs(body)}")
        metas.append((impl, any(r[0][1] not in registered for r in body)))
    _compare(ctx, "D2 BLOCKS section (whole files)", reqs, metas)



def correspond_whole_file(ctx):
    """D3: whole files through the real ezdxf.read -> write vs loadSaveFile (the function file_passthrough is about): section
    order, BLOCKS / ENTITIES / OBJECTS content, unknown sections, EOF; HEADER / CLASSES / TABLES as one marker tag each"""
    import ezdxf
    from ezdxf.entities import factory
    from ezdxf.lldxf.const import DXFStructureError

    dxfparse = _import_dxfparse()
    registered = set(factory.ENTITY_CLASSES)
    rng = ctx.rng("whole-file")
    reqs, metas = [], []
    for i in range(ctx.n(90, 600)):
        ver = VERSIONS[i % len(VERSIONS)]
        base = base_doc(ver)
        secs = dict(base["sections"])
        order, inside = [], False
        for r in secs["TABLES"]:
            if r[0] == (0, "TABLE"):
                inside = (2, "BLOCK_RECORD") in r
            elif r[0] == (0, "BLOCK_RECORD") and inside:
                order.append(next(v for c, v in r if c == 2))
        used, alive, extra = set(), [], []
        ent, al, ex, (le1, _) = gen_doc_records(rng, base, "ENTITIES", used)
        alive += al
        extra += ex
        obj, al, ex, _ = gen_doc_records(rng, base, "OBJECTS", used)
        alive += al
        extra += ex
        blk, le2 = [], False
        for r in secs["BLOCKS"]:
            blk.append([(c, str(v)) for c, v in r])
            if r[0] == (0, "BLOCK") and next(v for c, v in r if c == 2) in ("FB", "*Paper_Space0") and rng.random() < 0.6:
                recs, al, ex, (le, _) = gen_doc_records(rng, base, "ENTITIES", used)
                le2 = le2 or le
                blk += recs
                alive += al
                extra += ex
        # unknown sections between and behind the managed ones
        unknown = []
        for n in rng.sample(["FOO", "ACME_DATA", "XYZSECTION", "THUMBNAILIMAGE"], rng.choice([0, 1, 2, 3])):
            recs = [[(0, "SECTION"), (2, n)] + [t for t in body_tags(rng, rng.randint(0, 3)) if t[0] not in (101, 102)]]
            for _ in range(rng.randint(0, 3)):
                recs.append([(0, rng.choice(["ACMEREC", "FOOITEM", "X"]))] + body_tags(rng, rng.randint(0, 6)))
            unknown.append((n, recs))
        pos = rng.choice(["end", "middle"])
        # foreign CLASS entries in front of / between the entries ezdxf.new() wrote, sometimes an ACDSDATA section
        cls_recs = [[(c, str(v)) for c, v in r] for r in secs.get("CLASSES", [])]
        seen = {(dict(r).get(1), dict(r).get(2)) for r in cls_recs}
        for _ in range(rng.randint(0, 3)):
            r = gen_class_record(rng, wild=False)
            if (9 < 10) and (ver >= "AC1018") != any(c == 91 for c, _ in r):
                r = [t for t in r if t[0] != 91] if ver < "AC1018" else r[:5] + [(91, "0")] + r[5:]
            if (dict(r).get(1), dict(r).get(2)) not in seen:
                seen.add((dict(r).get(1), dict(r).get(2)))
                cls_recs.insert(rng.randint(0, len(cls_recs)), r)
        acds = None
        if rng.random() < 0.35:
            acds = [[(0, "SECTION"), (2, "ACDSDATA"), (70, "2"), (71, "2")], [(0, "ACDSSCHEMA"), (90, "0"), (1, "AcDb3DSolid_ASM_Data")]]
            for _ in range(rng.randint(0, 2)):
                data = "".join("%02X" % rng.randrange(256) for _ in range(rng.choice([1, 64, 127])))
                acds.append([(0, "ACDSRECORD"), (90, "0"), (2, "AcDbDs::ID"), (280, "10"), (320, hexh(rng)), (2, "ASM_Data"), (280, "15"),
                             (94, str(len(data))), (310, data)])
        file_recs = []     # the records of the whole file as compiled tags
        for n, recs in base["sections"]:
            if n == "HEADER":
                hdr = [tuple(t) for t in recs[0][1:]]
                k = next(k for k, t in enumerate(hdr) if t == (9, "$HANDSEED"))
                hdr[k + 1] = (5, "F0000")
                hdr = unflat([(c, str(v)) for c, v in hdr])
                # foreign header content: custom properties (anywhere), an unknown variable (F24: not written)
                for _ in range(rng.randint(0, 3)):
                    kk = 2 * rng.randint(1, len(hdr) // 2)
                    hdr[kk:kk] = [(9, "$CUSTOMPROPERTYTAG"), (1, rng.choice(["Author", "K", "ä"])), (9, "$CUSTOMPROPERTY"), (1, rng.choice(["me", "", "x y"]))]
                if rng.random() < 0.3:
                    kk = 2 * rng.randint(1, len(hdr) // 2)
                    hdr[kk:kk] = [(9, "$ACMEVAR"), (70, "1")]
                if rng.random() < 0.3:
                    kk = next((q for q, t in enumerate(hdr) if t == (9, "$LASTSAVEDBY")), None)
                    if kk is not None:
                        del hdr[kk:kk + 2]
                file_recs.append([(0, "SECTION"), (2, "HEADER")] + hdr)
            else:
                file_recs.append([(0, "SECTION"), (2, n)])
                body = ent if n == "ENTITIES" else list(recs) + obj + extra if n == "OBJECTS" else blk if n == "BLOCKS" else \
                    cls_recs if n == "CLASSES" else recs
                file_recs += [[(c, str(v)) for c, v in r] for r in body]
            file_recs.append([(0, "ENDSEC")])
            if n == "OBJECTS" and acds is not None:
                file_recs += acds + [[(0, "ENDSEC")]]
            if pos == "middle" and n == "TABLES":
                for _, ur in unknown:
                    file_recs += ur + [[(0, "ENDSEC")]]
        if pos != "middle":
            for _, ur in unknown:
                file_recs += ur + [[(0, "ENDSEC")]]
        file_recs.append([(0, "EOF")])
        tags = [t for r in file_recs for t in flat(r)]
        try:
            doc = ezdxf.read(io.StringIO(encode_ascii(tags)))
            out = io.StringIO()
            doc.write(out)
            osecs, problems = dxfparse.split_file(dxfparse.parse_ascii(out.getvalue()))
            desc = []
            for n, recs in osecs:
                if n == "TABLES":
                    desc.append((0, n))
                elif n == "HEADER":
                    desc += [(0, "SECTION"), (2, n)] + [(c, str(v)) for r in recs for c, v in unflat(r) if (c, v) != (0, "<SECTION-TAGS>")] + [(0, "ENDSEC")]
                elif n == "CLASSES":
                    # the classes ezdxf registers itself at save time (`extra` of the model) are written behind the entries of the file
                    mine = [r for r in recs if (dict(r).get(1), dict(r).get(2)) in seen]
                    added = [r for r in recs if (dict(r).get(1), dict(r).get(2)) not in seen]
                    if recs[:len(mine)] != mine:
                        added = []   # not a suffix: keep everything, the comparison below reports it
                        mine = recs
                    ctx.hist("D3 whole files vs loadSaveFile", f"classes-added-by-ezdxf={len(added)}")
                    desc += [(0, "SECTION"), (2, n)] + [(c, str(v)) for r in mine for c, v in r] + [(0, "ENDSEC")]
                elif n in ("BLOCKS", "ENTITIES", "OBJECTS"):
                    desc += [(0, "SECTION"), (2, n)] + _describe(recs, registered) + [(0, "ENDSEC")]
                else:
                    desc += [(0, "SECTION"), (2, n)]
                    desc += [(c, str(v)) for r in recs for c, v in unflat(r) if (c, v) != (0, "<SECTION-TAGS>")]
                    desc.append((0, "ENDSEC"))
            desc.append((0, "EOF"))
            impl = "ok " + enc_tags(desc)
        except DXFStructureError as e:
            impl = "err link" if "or SEQEND" in str(e) else "err " + str(e)[:40]
        ctx.hist("D3 whole files vs loadSaveFile", "link-error" if (le1 or le2) else f"unknown-sections={len(unknown)}:{pos}")
        # the model sees the managed sections it does not interpret as a head record only
        short, skip = [], False
        for r in file_recs:
            if r[0] == (0, "SECTION"):
                skip = r[1][1] in ("TABLES",)
                short.append(r[:2] if skip else r)
            elif r[0][1] in ("ENDSEC", "EOF"):
                skip = False
                short.append(r)
            elif not skip:
                short.append(r)
        reqs.append(f"file|{int(ver[2:])}|{cps(base['msp'])}|{cps(base['psp'])}|{','.join(cps(h) for h in alive)}|{','.join(cps(n) for n in order)}|{enc_recs(short)}")
        metas.append((impl, True))
    # header variables ezdxf maintains itself (not foreign content): $HANDSEED grows with the handles drawn while loading
    mask = {"$HANDSEED"}

    def masked(line):
        ts = _canon_line(line)
        if isinstance(ts, str):
            return ts
        return [(c, "*") if k and ts[k - 1][0] == 9 and ts[k - 1][1] in mask else (c, v) for k, (c, v) in enumerate(ts)]

    outs = ctx.driver("C02", reqs, build=DRIVER_DEPS)
    for req, (impl, nontriv), model in zip(reqs, metas, outs):
        ctx.count("D3 whole files vs loadSaveFile", req, nontriv, sample={"request": req[:200], "impl": impl[:200], "model": model[:200]})
        if masked(impl) != masked(model):
            lim = 10 ** 7 if os.environ.get("C02_DEBUG") else 3000
            ctx.disagree("D3 whole files vs loadSaveFile", req[:lim], impl[:lim], model[:lim])
    ctx.cov["disagreements_checked"] += len(reqs)



def correspond_generic_hosts(ctx):
    """X9: every registered entity class with the generic load/export: a default instance (factory.new) decorated at tag level with
    application groups, extension dictionary, reactors and XDATA is loaded and exported by the real class; base class and XDATA part
    vs exportGeneric (the body between them is the business of the class, C01)"""
    from ezdxf.entities import factory
    from ezdxf.lldxf.extendedtags import ExtendedTags

    rng = ctx.rng("generic-hosts")
    dxfparse = _import_dxfparse()
    gen_types = _generic_types()
    bodies, skipped = {}, []
    for name in gen_types:
        try:
            e = factory.new(name)
            col = CompiledCollector()
            e.export_dxf(col)
            tags = col.tags
            i = next((k for k, t in enumerate(tags) if t[0] == 100), None)
            if i is None or tags[0] != (0, name):
                raise ValueError("no subclass marker")
            j = next((k for k in range(1, len(tags)) if tags[k][0] == 0), len(tags))   # sub-records written by a wrapper
            body = [t for t in tags[i:j] if t[0] != 1001]
            if any(c == 1001 for c, _ in tags[i:j]) or any(t == (101, "Embedded Object") for t in body):
                raise ValueError("default instance has XDATA / embedded object")
            # the undecorated record must survive the real load -> export without a document
            hc = 105 if name == "DIMSTYLE" else 5
            e2 = factory.load(ExtendedTags.from_text(to_text([(0, name), (hc, "A1"), (330, "B1")] + body)), None)
            e2.post_load_hook(_StubDoc([]))
            e2.export_dxf(CompiledCollector())
            bodies[name] = body
        except Exception as ex:  # noqa
            skipped.append(f"{name}:{type(ex).__name__}")
    ctx.note(f"X9: {len(bodies)} of {len(gen_types)} generic classes have a usable default instance; skipped: {' '.join(skipped)[:300]}")
    if len(bodies) < 45:
        raise RuntimeError(f"X9: only {len(bodies)} generic classes usable: {skipped[:10]}")
    # classes with a type cast at load time (`entity.cast()` -> shallow_copy): every variant of the flags tag that makes
    # factory.load return another class is a host of its own (POLYLINE -> Polyface / Polymesh)
    casts = 0
    for name in [n for n in list(bodies) if hasattr(factory.ENTITY_CLASSES[n], "cast")]:
        base_cls = type(factory.load(ExtendedTags.from_text(to_text([(0, name), (5, "A1"), (330, "B1")] + bodies[name])), None)).__name__
        for code in sorted({c for c, _ in bodies[name] if c in INT16}):
            for f in (1, 2, 4, 8, 16, 32, 64, 128):
                body = [(c, str(f)) if c == code else (c, v) for c, v in bodies[name]]
                try:
                    e2 = factory.load(ExtendedTags.from_text(to_text([(0, name), (5, "A1"), (330, "B1")] + body)), None)
                    e2.post_load_hook(_StubDoc([]))
                    e2.export_dxf(CompiledCollector())
                except Exception:  # noqa
                    continue
                if type(e2).__name__ != base_cls and f"{name}/{type(e2).__name__}" not in bodies:
                    bodies[f"{name}/{type(e2).__name__}"] = body
                    casts += 1
    ctx.note(f"X9: {casts} type-cast variants: " + " ".join(k for k in bodies if "/" in k))
    if casts < len([n for n in bodies if "/" not in n and hasattr(factory.ENTITY_CLASSES[n], "cast")]):
        raise RuntimeError("X9: a class with a cast method has no variant that triggers the cast")
    reqs, metas = [], []
    names = sorted(bodies)
    for i in range(ctx.n(4, 30) * len(names)):
        name = names[i % len(names)]
        tags, alive, _ = gen_entity(rng, "ordered" if i % 3 else "shuffled")
        base = []
        for t in tags[1:]:
            if t[0] in (100, 1001) or t == (101, "Embedded Object"):
                break
            base.append(t)
        if name.split("/")[0] == "DIMSTYLE":
            base = [(105, v) if (c == 5 and k == next((q for q, tt in enumerate(base) if tt[0] == 5), -1)) else (c, v) for k, (c, v) in enumerate(base)]
        xd = tags[next((k for k, t in enumerate(tags) if t[0] == 1001), len(tags)):]
        rec = [(0, name.split("/")[0])] + base + bodies[name] + xd
        try:
            e = factory.load(ExtendedTags.from_text(to_text(rec)), None)
            e.post_load_hook(_StubDoc(alive))
            col = CompiledCollector()
            e.export_dxf(col)
            out = col.tags
            j = next((k for k in range(1, len(out)) if out[k][0] == 0), len(out))
            out = out[:j]
            a = next((k for k, t in enumerate(out) if t[0] == 100), len(out))
            b = next((k for k, t in enumerate(out) if t[0] == 1001), len(out))
            impl = "ok " + enc_tags(out[:a]) + "#" + enc_tags(out[b:])
        except Exception as ex:  # noqa
            impl = f"err other:{type(ex).__name__}"
        ctx.hist("X9 generic entity classes", name)
        reqs.append(f"generic|{','.join(cps(h) for h in alive)}|{enc_tags(rec)}")
        metas.append((impl, True))
    outs = ctx.driver("C02", reqs, build=DRIVER_DEPS)
    for req, (impl, nontriv), model in zip(reqs, metas, outs):
        ctx.count("X9 generic entity classes", req, nontriv, sample={"request": req[:200], "impl": impl[:200], "model": model[:200]})
        ci = [_canon_line("ok " + p) for p in impl[3:].split("#")] if impl.startswith("ok ") else impl
        cm = [_canon_line("ok " + p) for p in model[3:].split("#")] if model.startswith("ok ") else model
        if ci != cm:
            ctx.disagree("X9 generic entity classes", req[:3000], impl[:3000], model[:3000])
    ctx.cov["disagreements_checked"] += len(reqs)


def _generic_types():
    """the generic classes as regenerated into Gen/StorageTables.lean (same classification)"""
    import re

    from runner import LEAN
    txt = (LEAN / "EzdxfVerif" / "Gen" / "StorageTables.lean").read_text()
    m = re.search(r"def genericTypes : List \(List Nat\) := \[(.*?)\]\ndef specialTypes", txt, re.S)
    return ["".join(chr(int(x)) for x in grp.split(",")) for grp in re.findall(r"\[([0-9, ]+)\]", m.group(1))]



def correspond_table_head(ctx):
    """X10: (0, TABLE) records with foreign base-class structures and XDATA through the real TableHead load -> export"""
    from ezdxf.entities import factory
    from ezdxf.lldxf.const import DXFStructureError
    from ezdxf.lldxf.extendedtags import ExtendedTags

    rng = ctx.rng("table-head")
    reqs, metas = [], []
    for i in range(ctx.n(700, 5000)):
        tags, alive, _ = gen_entity(rng, ["ordered", "shuffled", "malformed"][i % 3] if i % 7 else "malformed")
        base = []
        for t in tags[1:]:
            if t[0] in (100, 1001) or t == (101, "Embedded Object"):
                break
            base.append(t)
        xd = tags[next((k for k, t in enumerate(tags) if t[0] == 1001), len(tags)):]
        name = rng.choice(["LAYER", "LTYPE", "DIMSTYLE", "APPID", "ACME_TABLE", ""])
        k = rng.randrange(6)
        head = [(0, "TABLE"), (2, name)]
        if k == 0:
            head = [(0, "TABLE")]                                  # no name tag
        elif k == 1:
            base = base[:1] + [(2, "LATE")] + base[1:]              # a second name tag
        body = [(100, "AcDbSymbolTable"), (70, str(rng.randint(0, 9)))] + ([(100, "AcDbDimStyleTable")] if name == "DIMSTYLE" else [])
        if k == 2:
            body += [(71, "1"), (340, hexh(rng))]                   # the DIMSTYLE table of AutoCAD lists handles here: not kept
        rec = head + base + body + xd
        try:
            e = factory.load(ExtendedTags.from_text(to_text(rec)), None)
            assert type(e).__name__ == "TableHead"
            e.post_load_hook(_StubDoc(alive))
            col = CompiledCollector()
            e.export_dxf(col)
            impl = "ok " + enc_tags(col.tags)
        except DXFStructureError as ex:
            m = str(ex)
            impl = "err " + ("missingAppClose" if "closing" in m else "xdictError" if "XDICTIONARY" in m else "unexpectedTag")
        except AssertionError:
            impl = "err noType"
        except ValueError as ex:
            impl = "err " + ("badReactor" if "base 16" in str(ex) else "noName" if type(ex).__name__ == "DXFValueError" else "other:ValueError")
        except Exception as ex:  # noqa
            impl = f"err other:{type(ex).__name__}"
        ctx.hist("X10 TABLE heads", ["no-name", "two-names", "extra-body", "plain", "plain", "plain"][k])
        reqs.append(f"thead|{','.join(cps(h) for h in alive)}|{cps('0')}|{enc_tags(rec)}")
        metas.append((impl, True))
    _compare(ctx, "X10 TABLE heads", reqs, metas)



def correspond_dictionary(ctx):
    """X11: DICTIONARY entries (the map from names to foreign objects, e.g. extension dictionary -> XRECORD) through the real
    Dictionary load -> post_load_hook -> export"""
    from ezdxf.entities import factory
    from ezdxf.entities.dxfentity import DXFEntity
    from ezdxf.lldxf.extendedtags import ExtendedTags

    rng = ctx.rng("dictionary")
    reqs, metas = [], []
    # the inputs of dictionary_counterexamples (Props/C02.lean)
    for name, sub, want in (("dict-mixed-codes", _T(3, "A", 350, "1", 3, "B", 360, "2"), _T(3, "A", 360, "1", 3, "B", 360, "2")),
                            ("dict-repeated-name", _T(3, "A", 350, "1", 3, "B", 350, "2", 3, "A", 350, "3"), _T(3, "A", 350, "3", 3, "B", 350, "2")),
                            ("dict-handle-first", _T(350, "1", 3, "A", 3, "B", 3, "C", 350, "2"), _T(3, "A", 350, "1", 3, "C", 350, "2"))):
        e = factory.load(ExtendedTags.from_text(to_text([(0, "DICTIONARY"), (5, "A1"), (330, "B1"), (100, "AcDbDictionary")] + sub)), None)
        e.post_load_hook(_StubDoc([]))
        col = CompiledCollector()
        e.export_dxf(col)
        got = [t for t in col.tags if t[0] in (3, 350, 360)]
        ctx.count("E1 counterexample theorems on real code", name, True, sample={"theorem": "dictionary_counterexamples", "case": name, "impl": str(got)})
        if got != want:
            ctx.disagree("E1 counterexample theorems on real code", name, str(got), str(want))
    ctx.cov["disagreements_checked"] += 3
    keys = ["K1", "K2", "ACAD_GROUP", "FOREIGN_DATA", "", "k1"]
    handles = ["C1", "C2", "1F", "0", "", "ABCDEF"]
    for i in range(ctx.n(1500, 12000)):
        sub = []
        wellformed = i % 3 == 0
        if wellformed:
            code = rng.choice([350, 360])
            for k in rng.sample(keys[:4] + ["X", "Y"], rng.randint(0, 5)):
                sub += [(3, k), (code, rng.choice(handles[:3] + ["ABCDEF"]))]
            if rng.random() < 0.5:
                sub = [(280, str(rng.randint(0, 1))), (281, str(rng.randint(0, 5)))] + sub
        else:
            for _ in range(rng.randint(0, 10)):
                c = rng.choice([3, 3, 350, 350, 360, 280, 281, 1, 90, 330])
                v = rng.choice(keys) if c == 3 else rng.choice(handles) if c in (350, 360, 330) else str(rng.randint(0, 1)) if c in (280, 281, 90) else "x"
                sub.append((c, v))
        rec = [(0, "DICTIONARY"), (5, "A1"), (330, "B1"), (100, "AcDbDictionary")] + sub
        alive = rng.sample(handles[:3], rng.randint(0, 3))
        try:
            e = factory.load(ExtendedTags.from_text(to_text(rec)), None)
            assert type(e).__name__ == "Dictionary"
            sdoc = _StubDoc([])
            sdoc.entitydb = {h: DXFEntity.new(handle=h) for h in alive}   # real entity objects: export reads value.dxf.handle
            e.post_load_hook(sdoc)
            col = CompiledCollector()
            e.export_dxf(col)
            k = next(q for q, t in enumerate(col.tags) if t == (100, "AcDbDictionary"))
            impl = "ok " + enc_tags([t for t in col.tags[k:] if t[0] in (3, 350, 360)])
        except AssertionError:
            raise
        except Exception as ex:  # noqa
            impl = f"err other:{type(ex).__name__}"
        ctx.hist("X11 DICTIONARY entries", "pairs" if wellformed else "arbitrary")
        reqs.append("dict|" + enc_tags(sub))
        metas.append((impl, len(sub) > 1))
    _compare(ctx, "X11 DICTIONARY entries", reqs, metas)



def correspond_header_tags(ctx):
    """X6b: the HEADER section at tag level (header_validator, group_tags, value group codes, custom properties) incl. malformed
    tag sequences through the real HeaderSection.load + export_dxf vs headerSectionPass"""
    from ezdxf.lldxf.tags import Tags
    from ezdxf.sections.header import HeaderSection
    from ezdxf.sections.headervars import HEADER_VAR_MAP

    rng = ctx.rng("header-tags")
    plain = [n for n, d in HEADER_VAR_MAP.items() if d.code != 10]
    reqs, metas = [], []
    for i in range(ctx.n(700, 5000)):
        tags = [(9, "$ACADVER"), (1, "AC1015")]
        for _ in range(rng.randint(0, 8)):
            k = rng.randrange(12)
            if k < 6:
                n = rng.choice(plain)
                tags += [(9, n), (HEADER_VAR_MAP[n].code if rng.random() < 0.8 else 1, rng.choice(["1", "0", "7"]))]
            elif k < 8:
                tags += [(9, "$CUSTOMPROPERTYTAG"), (1, rng.choice(["K", ""])), (9, "$CUSTOMPROPERTY"), (1, rng.choice(["v", "x y"]))]
            elif k == 8:
                tags += [(9, rng.choice(["$ACMEVAR", "$X"])), (rng.choice([1, 70, 40]), "1")]
            elif k == 9:
                tags += [(9, rng.choice(["NODOLLAR", ""])), (1, "x")]          # DXFValueError of the validator
            elif k == 10:
                tags += [(rng.choice([1, 70, 0 + 3]), "$LTSCALE"), (40, "1.0")]  # a name tag with another group code
            else:
                tags += rng.choice([[(9, "$LTSCALE")], [(9, "$LTSCALE"), (9, "$ORTHOMODE"), (70, "1")], [(9, "$LTSCALE"), (40, "1.0"), (40, "2.0")]])
        ver = rng.choice(["AC1015", "AC1018", "AC1024", "AC1032"])
        try:
            h = HeaderSection.load(Tags.from_text("0\nSECTION\n2\nHEADER\n" + to_text(tags)))
            col = CompiledCollector(ver)
            h.export_dxf(col)
            impl = "ok " + enc_tags(col.tags)
        except Exception:  # noqa  (DXFStructureError, DXFValueError)
            impl = "none"
        ctx.hist("X6b HEADER at tag level", impl[:4].strip())
        reqs.append(f"hsec|{int(ver[2:])}|{enc_tags(tags)}")
        metas.append((impl, len(tags) > 2))
    _compare(ctx, "X6b HEADER at tag level", reqs, metas)


def correspond(ctx):
    import logging

    logging.getLogger("ezdxf").setLevel(logging.CRITICAL)
    correspond_entities(ctx)
    correspond_structure(ctx)
    correspond_header_classes(ctx)
    correspond_xrecord(ctx)
    correspond_document(ctx)
    correspond_blocks(ctx)
    correspond_whole_file(ctx)
    correspond_classes_full(ctx)
    correspond_header_full(ctx)
    correspond_header_tags(ctx)
    correspond_proxy_acds(ctx)
    correspond_generic_hosts(ctx)
    correspond_table_head(ctx)
    correspond_dictionary(ctx)


def replay(ctx, rep):
    """re-run the recorded failing inputs on the current code"""
    import logging
    import random

    logging.getLogger("ezdxf").setLevel(logging.CRITICAL)
    before = len(ctx.failures)
    for f in rep.get("failing_inputs", []):
        r = f["replay"]
        if r.get("op") == "file":
            run_file_case(ctx, 1, r["ver"], r["knobs"], r["fmt_in"], r["fmt_out"], r["seed"])
        elif r.get("op") == "entity":
            tags = [tuple(t) for t in r["tags"]]
            out1, r1 = impl_roundtrip(tags, r["alive"])
            spec = ctx.driver("C02", ["spec|" + ",".join(cps(h) for h in r["alive"]) + "|" + enc_tags(tags)])[0]
            flags, canon = spec.split("|", 1)
            if flags.startswith("1") and r1 != "ok " + canon:
                ctx.fail(f"storage/canon/{tags[:5]}", f"export(load t) != canon t: {r1[:200]}", r)
            if out1 is not None and impl_roundtrip(out1, r["alive"])[1] != r1:
                ctx.fail(f"storage/second-cycle/{tags[:5]}", "second cycle differs", r)
    bad = [f.key for f in ctx.failures[before:]]
    return (not bad, "; ".join(bad)[:600] or "all recorded failing inputs pass now")

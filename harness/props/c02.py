"""C02  Foreign and unknown content survives load -> save unchanged (DESIGN.md section 7, C02)."""
from __future__ import annotations

import ast
import io
import os
import textwrap

from leanfmt import cps, lean_list

ID = "C02"
LEAN_MODULES = ["EzdxfVerif.Props.C02"]
DRIVER_DEPS = ["EzdxfVerif.Model.Storage", "EzdxfVerif.Gen.StorageTables", "Drivers.Proto"]
RULE = (
    "correspondence X1: generated entity tag lists (well-formed in ezdxf's order, well-formed in shuffled base-class order, "
    "malformed: foreign base-class tags, duplicate XDATA appids / app-data keys, alternative closing tags, unresolved or "
    "malformed extension dictionary groups, non-hex reactors, invalid XDATA codes, missing handle/owner, embedded objects) "
    "are loaded by the real factory.load(ExtendedTags) + post_load_hook and exported by export_dxf into a TagCollector; the "
    "Lean model answers export(load t), export(load(export(load t))), EntityWF t, BaseOrdered t and canon t for the same line; "
    "non-trivial = at least one app-data group, XDATA group or second subclass. X2: record lists through the real "
    "load_dxf_structure + the stored-section filter of Drawing._load/_load_section_dict vs the model. X3: header custom "
    "property stacks and CLASS key lists vs the real HeaderSection / ClassesSection. distinct by hash of the request line. "
    "oracle: whole files R2000..R2018 (ASCII and binary in, ASCII and binary out) = ezdxf.new() output with foreign content "
    "spliced in at tag level, through ezdxf.readfile/read -> saveas/write, both files parsed by harness/dxfparse.py and compared "
    "tag for tag; every retained pointer must resolve to the same record type; second cycle must be a fixed point."
)
TRUSTED_BASE = [
    "hand translation of DXFTagStorage.load/export_dxf, DXFEntity.export_base_class/setup_app_data, DXFNamespace handle scan, AppData/"
    "Reactors/ExtensionDict/XData containers, load_dxf_structure and the stored-section path into Model/Storage.lean (validated by the "
    "correspondence streams, not proved); the order of the export steps is regenerated from the AST of the current source",
    "tag values are opaque strings in the model: typing of values by group code (tag_compiler/dxftag) and their text/binary encoding is C03",
    "Python dict keeps the position of the first insertion on overwrite; set() + sorted(key=int(x,16)) of reactor handles (ties between "
    "different spellings of one number are resolved in hash order by CPython and are excluded from the model)",
    "harness-owned DXF parser harness/dxfparse.py (shares no code with ezdxf)",
]
ASSUMPTIONS = [
    "int(x, 16) is modelled for [0-9A-Fa-f]+ only (no sign, whitespace, underscore, 0x prefix)",
    "options.filter_invalid_xdata_group_codes and options.load_proxy_graphics have their default value True",
    "the managed sections (HEADER..OBJECTS, ACDSDATA) are an opaque parameter of the document-level model; their content is the "
    "subject of C01/C04, the oracle here checks the foreign content inside them on the real code only",
]
OPEN = [
    "storage_idempotent is proved for EntityWF inputs in any base-class order; for malformed inputs the fixed point property is "
    "checked by the correspondence stream (model and code) only",
    "proxy graphic decoding, ACDSDATA record internals, CLASS attribute loading and header variable values are oracle-only",
]

SRC_ENTITY = "src/ezdxf/entities/dxfentity.py"
SRC_DOC = "src/ezdxf/document.py"
SRC_CONST = "src/ezdxf/lldxf/const.py"
SRC_TYPES = "src/ezdxf/lldxf/types.py"
SRC_SECT = "src/ezdxf/sections/entities.py"
SRC_HEADER = "src/ezdxf/sections/header.py"
SRCS = [SRC_ENTITY, SRC_DOC, SRC_CONST, SRC_TYPES, SRC_SECT, SRC_HEADER,
        "src/ezdxf/entities/appdata.py", "src/ezdxf/entities/xdata.py", "src/ezdxf/entities/xdict.py",
        "src/ezdxf/entities/dxfns.py", "src/ezdxf/lldxf/extendedtags.py", "src/ezdxf/lldxf/loader.py",
        "src/ezdxf/sections/classes.py", "src/ezdxf/lldxf/repair.py"]


# ------------------------------------------------------------------ regenerate: tables and export-order kernels from the source
def _func(tree: ast.AST, cls: str | None, name: str) -> ast.FunctionDef:
    for node in ast.walk(tree):
        if cls is None and isinstance(node, ast.FunctionDef) and node.name == name:
            return node
        if isinstance(node, ast.ClassDef) and node.name == cls:
            for sub in node.body:
                if isinstance(sub, ast.FunctionDef) and sub.name == name:
                    return sub
    raise ValueError(f"function {cls}.{name} not found")


def _body(fn: ast.FunctionDef) -> list[ast.stmt]:
    body = list(fn.body)
    if body and isinstance(body[0], ast.Expr) and isinstance(body[0].value, ast.Constant) and isinstance(body[0].value.value, str):
        body = body[1:]
    return body


def _tokens(stmts, table: dict[str, str], where: str) -> list[str]:
    """map every statement (normalised by ast.unparse) to a token of the model; anything unknown aborts the translation"""
    out = []
    for st in stmts:
        txt = ast.unparse(st)
        if txt not in table:
            raise ValueError(f"{where}: statement outside the translated subset: {txt!r}")
        tok = table[txt]
        if tok:
            out.append(tok)
    return out


BASE_STMTS = {
    "tagwriter.write_tag2(_handle_code, self.dxf.handle)": "handle",
    "if self.appdata:\n    self.appdata.export_dxf(tagwriter)": "appdata",
    "if self.has_extension_dict:\n    self.extension_dict.export_dxf(tagwriter)": "xdict",
    "if self.reactors:\n    self.reactors.export_dxf(tagwriter)": "reactors",
    "tagwriter.write_tag2(const.OWNER_CODE, self.dxf.get('owner', '0'))": "owner",
}
ENTITY_STMTS = {
    "if tagwriter.dxfversion < self.MIN_DXF_VERSION_FOR_EXPORT:\n    return": "",
    "if not self.preprocess_export(tagwriter):\n    return": "",
    "self.export_base_class(tagwriter)": "base",
    "self.export_entity(tagwriter)": "entity",
    "self.export_xdata(tagwriter)": "xdata",
}
STORAGE_STMTS = {
    "for subclass in self.xtags.subclasses[1:]:\n    tagwriter.write_tags(subclass)": "subclasses",
    "if self.embedded_objects:\n    for tags in self.embedded_objects:\n        tagwriter.write_tags(tags)": "embedded",
}
SECTION_STMTS = {
    "dxfversion = tagwriter.dxfversion": "",
    "self.header.export_dxf(tagwriter)": "header",
    "if dxfversion > DXF12:\n    self.classes.export_dxf(tagwriter)": "classes",
    "self.tables.export_dxf(tagwriter)": "tables",
    "self.blocks.export_dxf(tagwriter)": "blocks",
    "self.entities.export_dxf(tagwriter)": "entities",
    "if dxfversion > DXF12:\n    self.objects.export_dxf(tagwriter)": "objects",
    "if self.acdsdata.is_valid:\n    self.acdsdata.export_dxf(tagwriter)": "acdsdata",
    "for section in self.stored_sections:\n    section.export_dxf(tagwriter)": "stored",
    "tagwriter.write_tag2(0, 'EOF')": "eof",
}


def _nats(s: str) -> str:
    return lean_list(str(ord(c)) for c in s)


def regenerate(ctx):
    for s in SRCS:
        ctx.src(s)
    ent = ast.parse(ctx.src(SRC_ENTITY))
    doc = ast.parse(ctx.src(SRC_DOC))
    from ezdxf.lldxf import const, types

    # --- DXFEntity.export_base_class: first statement writes (0, DXFTYPE); the R2000+ branch lists the base-class parts in order
    fn = _body(_func(ent, "DXFEntity", "export_base_class"))
    txt = [ast.unparse(s) for s in fn]
    if txt[:3] != ["dxftype = self.DXFTYPE", "_handle_code = 105 if dxftype == 'DIMSTYLE' else 5",
                   "tagwriter.write_tag2(const.STRUCTURE_MARKER, dxftype)"] or len(fn) != 4 or not isinstance(fn[3], ast.If):
        raise ValueError("export_base_class: prologue outside the translated subset: " + repr(txt[:4]))
    if ast.unparse(fn[3].test) != "tagwriter.dxfversion >= const.DXF2000":
        raise ValueError("export_base_class: version test changed: " + ast.unparse(fn[3].test))
    base_order = _tokens(fn[3].body, BASE_STMTS, "export_base_class")
    entity_order = _tokens(_body(_func(ent, "DXFEntity", "export_dxf")), ENTITY_STMTS, "DXFEntity.export_dxf")
    storage_order = _tokens(_body(_func(ent, "DXFTagStorage", "export_entity")), STORAGE_STMTS, "DXFTagStorage.export_entity")
    xd = [ast.unparse(s) for s in _body(_func(ent, "DXFEntity", "export_xdata"))]
    if xd != ["if self.xdata:\n    self.xdata.export_dxf(tagwriter)"]:
        raise ValueError("export_xdata outside the translated subset: " + repr(xd))
    section_order = _tokens(_body(_func(doc, "Drawing", "export_sections")), SECTION_STMTS, "Drawing.export_sections")
    # --- Drawing._load: sections deleted before loading
    deleted = []
    for st in _body(_func(doc, "Drawing", "_load")):
        for node in ast.walk(st):
            if isinstance(node, ast.Delete):
                for tgt in node.targets:
                    if (isinstance(tgt, ast.Subscript) and ast.unparse(tgt.value) == "sections"
                            and isinstance(tgt.slice, ast.Constant) and isinstance(tgt.slice.value, str)):
                        deleted.append(tgt.slice.value)
                    else:
                        raise ValueError("Drawing._load: del statement outside the translated subset: " + ast.unparse(node))
    # --- StoredSection.export_dxf
    sect = ast.parse(ctx.src(SRC_SECT))
    st = [ast.unparse(s) for s in _body(_func(sect, "StoredSection", "export_dxf"))]
    if st != ["for entity in self.entities:\n    tagwriter.write_tags(entity)", "tagwriter.write_str('  0\\nENDSEC\\n')"]:
        raise ValueError("StoredSection.export_dxf outside the translated subset: " + repr(st))
    # --- HeaderSection.export_dxf: where the custom properties are written
    hdr = ast.parse(ctx.src(SRC_HEADER))
    anchor = []
    for node in ast.walk(_func(hdr, "HeaderSection", "export_dxf")):
        if isinstance(node, ast.If) and "self.custom_vars.write(tagwriter)" in ast.unparse(node):
            anchor.append(ast.unparse(node.test))
    if anchor != ["name == '$LASTSAVEDBY'"]:
        raise ValueError("HeaderSection.export_dxf: custom property anchor changed: " + repr(anchor))

    def enum(name, ctors):
        return f"inductive {name} where\n" + "".join(f"  | {c}\n" for c in ctors) + "  deriving Repr, DecidableEq\n"

    ptr = sorted(c for c in range(0, 1100) if types.is_pointer_code(c))
    hnd = sorted(types.HANDLE_CODES)
    text = f"""
namespace EzdxfVerif.Gen.StorageTables

/-- parts written by `DXFEntity.export_base_class` after the (0, DXFTYPE) tag (DXF R2000+ branch) -/
{enum("BasePart", ["handle", "appdata", "xdict", "reactors", "owner"])}
/-- steps of `DXFEntity.export_dxf` -/
{enum("EntityPart", ["base", "entity", "xdata"])}
/-- steps of `DXFTagStorage.export_entity` -/
{enum("StoragePart", ["subclasses", "embedded"])}
/-- steps of `Drawing.export_sections` -/
{enum("SectionPart", ["header", "classes", "tables", "blocks", "entities", "objects", "acdsdata", "stored", "eof"])}
/-- statement order of the current source (AST of entities/dxfentity.py, document.py) -/
def baseOrder : List BasePart := {lean_list("." + t for t in base_order)}
def entityOrder : List EntityPart := {lean_list("." + t for t in entity_order)}
def storageOrder : List StoragePart := {lean_list("." + t for t in storage_order)}
def sectionOrder : List SectionPart := {lean_list("." + t for t in section_order)}

/-- `types.VALID_XDATA_GROUP_CODES` -/
def validXdataCodes : List Nat := {lean_list(str(c) for c in sorted(types.VALID_XDATA_GROUP_CODES))}
/-- every code 0..1099 with `types.is_pointer_code`, and `types.HANDLE_CODES` -/
def pointerCodes : List Nat := {lean_list(str(c) for c in ptr)}
def handleCodes : List Nat := {lean_list(str(c) for c in hnd)}
/-- `const.MANAGED_SECTIONS` (sorted) and the sections `Drawing._load` deletes -/
def managedSections : List (List Nat) := {lean_list((_nats(s) for s in sorted(const.MANAGED_SECTIONS)), per_line=1)}
def deletedSections : List (List Nat) := {lean_list((_nats(s) for s in deleted), per_line=1)}

def acadReactors : List Nat := {_nats(const.ACAD_REACTORS)}
def acadXDictionary : List Nat := {_nats(const.ACAD_XDICTIONARY)}
def appDataMarker : Nat := {const.APP_DATA_MARKER}
def ownerCode : Nat := {const.OWNER_CODE}
def reactorHandleCode : Nat := {const.REACTOR_HANDLE_CODE}
def xdictHandleCode : Nat := {const.XDICT_HANDLE_CODE}
def xdataMarker : Nat := {const.XDATA_MARKER}
def subclassMarker : Nat := {const.SUBCLASS_MARKER}
def structureMarker : Nat := {const.STRUCTURE_MARKER}

end EzdxfVerif.Gen.StorageTables
"""
    ctx.write_gen("StorageTables", text, SRCS)


# ------------------------------------------------------------------ compiled-tag level (one entity): generators
# A compiled tag is (code, text): text of a point = "x,y[,z]" (repr of the floats), of a binary chunk = upper-case hex,
# everything else the canonical text of the typed value.  This is the granularity of ExtendedTags and of the Lean model.
STR_CODES = [1, 2, 3, 4, 6, 7, 8, 9, 300, 301, 302, 305, 309, 410, 411, 430, 431, 470, 471, 1000, 1003]
HANDLE_PTR = [320, 321, 330, 331, 335, 340, 341, 345, 350, 355, 360, 365, 369, 390, 395, 399, 480, 481]
INT16 = [60, 62, 66, 70, 71, 79, 170, 175, 270, 280, 289, 370, 380, 400, 409]
INT32 = [90, 91, 95, 99, 420, 429, 440, 450, 459]
INT64 = [160, 165, 169]
BOOL = [290, 291, 299]
FLOATS = [39, 40, 41, 48, 50, 59, 140, 145, 149, 460, 469]
POINTS = [10, 11, 12, 13, 14, 15, 16, 17, 18, 110, 111, 112, 210, 211, 212, 213]
BINARY = [310, 311, 315, 319]
XD_STR, XD_HANDLE, XD_BIN, XD_POINT, XD_FLOAT, XD_I16, XD_I32 = [1000, 1003], [1005], [1004], [1010, 1011, 1012, 1013], [1040, 1041, 1042], [1070], [1071]
FOREIGN_TYPES = ["FOO", "ACME_WIDGET", "XYZOBJ", "AECC_THING", "ACAD_PROXY_OBJECT", "MYOBJ", "DIMSTYLE_X"]
WORDS = ["", "a", "AcDbFoo", "x y", "{", "}", "{A", "A}", "Embedded Object", "100", "ä€", "\\U+20AC", "^J", "%%c", "0", "None", " lead", "trail ", ";:|,/"]
SUBCLASS_NAMES = ["AcDbEntity", "AcDbFoo", "AcDbProxyEntity", "AcDbProxyObject", "AcmeWidget", "AcDbBar", "X"]
APPIDS = ["ACAD", "APPA", "APPB", "APPC", "EZDXF", "ACME", "A"]
GROUP_NAMES = ["{APPA", "{ACME", "{A", "{", "{ACAD_FOO", "{APPB"]


def fl(rng) -> str:
    k = rng.randrange(8)
    if k == 0:
        return repr(float(rng.randint(-5, 5)))
    if k == 1:
        return repr(rng.choice([1e-300, 1e300, -0.0, 1 / 3, 2.5e-5, 1e16, 123456789.125, 5e-324]))
    return repr(round(rng.uniform(-1000, 1000), rng.randint(0, 12)))


def hexh(rng, lo=1, hi=0xFFFFF) -> str:
    return "%X" % rng.randint(lo, hi)


def value_for(rng, code: int) -> str:
    if code in POINTS or code in XD_POINT:
        return ",".join(fl(rng) for _ in range(rng.choice([2, 3, 3])))
    if code in BINARY or code in XD_BIN:
        n = rng.choice([0, 1, 2, 5, 127]) if rng.random() < 0.3 else rng.randint(1, 20)
        return "".join("%02X" % rng.randrange(256) for _ in range(n)) if n else "00"
    if code in HANDLE_PTR or code in XD_HANDLE or code in (5, 105):
        return hexh(rng)
    if code in INT16 or code in XD_I16:
        return str(rng.choice([0, 1, -1, 7, 32767, -32768, rng.randint(-999, 999)]))
    if code in INT32 or code in XD_I32:
        return str(rng.choice([0, 1, -1, 2 ** 31 - 1, -2 ** 31, rng.randint(-10 ** 6, 10 ** 6)]))
    if code in INT64:
        return str(rng.choice([0, -1, 2 ** 63 - 1, -2 ** 63, 2 ** 40 + 3, rng.randint(-10 ** 12, 10 ** 12)]))
    if code in BOOL:
        return str(rng.randint(0, 1))
    if code in FLOATS or code in XD_FLOAT:
        return fl(rng)
    w = rng.choice(WORDS) if rng.random() < 0.5 else "".join(rng.choice("abcXYZ019 _-.{}") for _ in range(rng.randint(1, 12))).strip() or "w"
    return w


BODY_CODES = STR_CODES[:-2] + HANDLE_PTR + INT16 + INT32 + INT64 + BOOL + FLOATS + POINTS + BINARY + [5, 102, 101, 105]


def body_tags(rng, n, codes=BODY_CODES):
    out = []
    for _ in range(n):
        c = rng.choice(codes)
        v = value_for(rng, c)
        if c == 101 and v == "Embedded Object":
            v = "Embedded"
        if c == 102:
            v = rng.choice(["{X", "}", "X}", "plain"])
        out.append((c, v))
    return out


def xdata_group(rng, appid, depth=2, invalid=False):
    out = [(1001, appid)]
    for _ in range(rng.randint(0, 6)):
        k = rng.randrange(9)
        if k == 0 and depth:
            out.append((1002, "{"))
            out += xdata_group(rng, "", depth - 1)[1:]
            out.append((1002, "}"))
        else:
            c = rng.choice(XD_STR + XD_HANDLE + XD_BIN + XD_POINT + XD_FLOAT + XD_I16 + XD_I32)
            out.append((c, value_for(rng, c)))
    if invalid:
        for _ in range(rng.randint(1, 3)):
            c = rng.choice([1, 40, 70, 330, 1072, 1006, 1020, 1050, 999 + 1])
            out.insert(rng.randint(1, len(out)), (c, "7" if c != 1 else "bad"))
    return out


def app_group(rng, name, close="}"):
    inner = [t for t in body_tags(rng, rng.randint(0, 4)) if t[0] not in (102, 101)]
    return [(102, name)] + inner + [(102, close)]


def reactors_group(rng, n=None, sort=True, handles=None):
    hs = handles if handles is not None else sorted({hexh(rng) for _ in range(n if n is not None else rng.randint(1, 4))}, key=lambda x: int(x, 16))
    if not sort:
        rng.shuffle(hs)
    return [(102, "{ACAD_REACTORS")] + [(330, h) for h in hs] + [(102, "}")]


def gen_entity(rng, kind: str):
    """-> (compiled tags, alive handles, expected class 'wf-ordered' | 'wf' | 'malformed')"""
    typ = rng.choice(FOREIGN_TYPES)
    handle, owner = hexh(rng), hexh(rng)
    alive = []
    items = []  # list of (stage, tags)
    names = rng.sample(GROUP_NAMES, rng.choice([0, 0, 1, 1, 2, 3]))
    for n in names:
        items.append((1, app_group(rng, n)))
    if rng.random() < 0.5:
        xh = hexh(rng)
        alive.append(xh)
        items.append((2, [(102, "{ACAD_XDICTIONARY"), (360, xh), (102, "}")]))
    if rng.random() < 0.5:
        items.append((3, reactors_group(rng)))
    items = [(0, [(5, handle)])] + items + [(4, [(330, owner)])]
    subs = []
    for i in range(rng.choice([0, 1, 1, 2, 2, 3])):
        subs.append([(100, rng.choice(SUBCLASS_NAMES))] + body_tags(rng, rng.randint(0, 7)))
    emb = []
    if rng.random() < 0.25:
        emb = [(101, "Embedded Object")] + [t for t in body_tags(rng, rng.randint(0, 5)) if t[0] != 101]
    xd = []
    for a in rng.sample(APPIDS, rng.choice([0, 0, 1, 1, 2, 3])):
        xd += xdata_group(rng, a)
    cls = "wf-ordered"
    if kind == "shuffled":
        rng.shuffle(items)
        for i, (st, g) in enumerate(items):
            if st == 3:
                g2 = reactors_group(rng, sort=False, handles=[v for c, v in g[1:-1]])
                items[i] = (3, g2)
        cls = "wf"
    if kind == "malformed":
        cls = "malformed"
        k = rng.randrange(16)
        if k == 0:  # foreign base-class tags
            for _ in range(rng.randint(1, 3)):
                items.insert(rng.randint(1, len(items)), (9, body_tags(rng, 1, [1, 2, 40, 70, 90, 10, 310, 340, 105, 101])))
        elif k == 1:  # duplicate XDATA appid
            a = rng.choice(APPIDS)
            xd = xdata_group(rng, a) + xdata_group(rng, rng.choice(APPIDS)) + xdata_group(rng, a) + xd
        elif k == 2:  # duplicate application data key
            n = rng.choice(GROUP_NAMES)
            items.insert(1, (1, app_group(rng, n)))
            items.insert(rng.randint(1, len(items) - 1), (1, app_group(rng, n)))
        elif k == 3:  # alternative closing tag
            n = rng.choice(GROUP_NAMES + ["{ACAD_XDICTIONARY", "{ACAD_REACTORS"])
            if n == "{ACAD_XDICTIONARY":
                items.insert(1, (2, [(102, n), (360, alive[0] if alive else hexh(rng)), (102, n[1:] + "}")]))
            elif n == "{ACAD_REACTORS":
                items.insert(1, (3, [(102, n), (330, hexh(rng)), (102, n[1:] + "}")]))
            else:
                items.insert(1, (1, app_group(rng, n, close=n[1:] + "}")))
        elif k == 4:  # extension dictionary that does not resolve
            items.insert(1, (2, [(102, "{ACAD_XDICTIONARY"), (360, "DEAD"), (102, "}")]))
        elif k == 5:  # malformed extension dictionary group
            g = rng.choice([[(102, "{ACAD_XDICTIONARY"), (102, "}")],
                            [(102, "{ACAD_XDICTIONARY"), (360, "1"), (360, "2"), (102, "}")],
                            [(102, "{ACAD_XDICTIONARY"), (330, "1"), (102, "}")]])
            items.insert(1, (2, g))
        elif k == 6:  # reactors: not hex / empty / duplicates / other codes
            g = rng.choice([[(102, "{ACAD_REACTORS"), (330, "XYZ"), (102, "}")],
                            [(102, "{ACAD_REACTORS"), (102, "}")],
                            [(102, "{ACAD_REACTORS"), (330, "1F"), (330, "A"), (330, "1F"), (102, "}")],
                            [(102, "{ACAD_REACTORS"), (331, "2B"), (330, "2A"), (102, "}")],
                            [(102, "{ACAD_REACTORS"), (330, ""), (102, "}")]])
            items = [it for it in items if it[0] != 3]
            items.insert(1, (3, g))
        elif k == 7:  # two reactors groups / two xdict groups
            items.insert(1, (3, reactors_group(rng)))
            items.insert(1, (3, reactors_group(rng)))
        elif k == 8:  # invalid XDATA group codes
            xd = xdata_group(rng, "BADX", invalid=True) + xd
        elif k == 9:  # missing handle / owner, doubled handle / owner
            m = rng.randrange(5)
            if m == 0:
                items = [it for it in items if it[0] != 0]
            elif m == 1:
                items = [it for it in items if it[0] != 4]
            elif m == 2:
                items.insert(rng.randint(0, len(items)), (0, [(5, hexh(rng))]))
            elif m == 3:
                items.insert(rng.randint(0, len(items)), (4, [(330, hexh(rng))]))
            else:
                items = [(0, [(5, "")])] + [it for it in items if it[0] != 0]
                rng.shuffle(items)
        elif k == 10:  # unclosed group
            items.insert(rng.randint(0, len(items)), (1, [(102, "{OPEN"), (1, "x")]))
        elif k == 11:  # tags after the XDATA / between embedded object and XDATA
            xd = xd + [(1, "late"), (100, "Late")]
        elif k == 12:  # group marker that is no group
            items.insert(rng.randint(1, len(items)), (9, [(102, rng.choice(["}", "X}", "plain"]))]))
        elif k == 13:  # everything shuffled, several exclusions at once
            items.insert(1, (1, app_group(rng, "{A", close="A}")))
            items.insert(1, (9, [(1, "foreign")]))
            rng.shuffle(items)
        elif k == 14:  # no base class at all / subclass first
            items = []
        else:  # DIMSTYLE-like handle code in a foreign type
            items.insert(1, (9, [(105, hexh(rng))]))
    tags = [(0, typ)]
    for _, g in items:
        tags += g
    for s in subs:
        tags += s
    tags += emb + xd
    return tags, alive, cls


def to_text(ctags) -> str:
    out = []
    for c, v in ctags:
        if c in POINTS or c in XD_POINT:
            for i, x in enumerate(v.split(",")):
                out.append(f"{c + 10 * i}\n{x}\n")
        else:
            out.append(f"{c}\n{v}\n")
    return "".join(out)


def enc_tags(ctags) -> str:
    return ";".join(f"{c}:{cps(v)}" for c, v in ctags)


class CompiledCollector:
    """harness-owned tag writer: records what DXFEntity.export_dxf writes, at compiled-tag granularity"""

    write_handles = True
    force_optional = False

    def __init__(self, dxfversion="AC1027"):
        self.dxfversion = dxfversion
        self.tags = []

    @staticmethod
    def conv(code, value):
        if isinstance(value, bytes):
            return code, value.hex().upper()
        if isinstance(value, tuple):
            return code, ",".join(repr(float(x)) for x in value)
        return code, str(value)

    def write_tag(self, tag):
        self.tags.append(self.conv(tag.code, tag.value))

    def write_tag2(self, code, value):
        self.tags.append(self.conv(int(code), value))

    def write_tags(self, tags):
        for t in tags:
            self.write_tag(t)

    def write_str(self, s):
        lines = s.split("\n")
        for i in range(0, len(lines) - 1, 2):
            self.tags.append((int(lines[i]), lines[i + 1]))

    def write_vertex(self, code, vertex):
        self.tags.append(self.conv(code, tuple(vertex)))


class _StubEntity:
    is_alive = True

    def __init__(self, h):
        self.dxf = type("D", (), {"handle": h})()


class _StubDoc:
    def __init__(self, alive):
        self.entitydb = {h: _StubEntity(h) for h in alive}


def impl_roundtrip(ctags, alive):
    """the real code: ExtendedTags -> factory.load (DXFTagStorage) -> post_load_hook -> export_dxf"""
    from ezdxf.entities import factory
    from ezdxf.lldxf.const import DXFStructureError
    from ezdxf.lldxf.extendedtags import ExtendedTags

    try:
        xt = ExtendedTags.from_text(to_text(ctags))
        e = factory.load(xt, None)
        if type(e).__name__ != "DXFTagStorage":
            return None, "err other:known-type"
        e.post_load_hook(_StubDoc(alive))
        col = CompiledCollector()
        e.export_dxf(col)
        return col.tags, "ok " + enc_tags(col.tags)
    except DXFStructureError as ex:
        m = str(ex)
        k = "missingAppClose" if "closing" in m else "xdictError" if "XDICTIONARY" in m else "unexpectedTag"
        return None, "err " + k
    except IndexError:
        return None, "err noType"
    except ValueError as ex:
        return None, "err " + ("badReactor" if "base 16" in str(ex) else "other:ValueError")
    except Exception as ex:  # noqa
        return None, f"err other:{type(ex).__name__}"


def entity_cases(ctx):
    rng = ctx.rng("entities")
    n = ctx.n(1500, 15000)
    for kind, count in (("ordered", n), ("shuffled", n), ("malformed", 2 * n)):
        for _ in range(count):
            tags, alive, cls = gen_entity(rng, kind)
            yield kind, tags, alive, cls
    # fixed corner cases
    for tags, alive in FIXED_ENTITIES:
        yield "fixed", tags, alive, "fixed"


FIXED_ENTITIES = [
    ([(0, "FOO")], []),
    ([(0, "FOO"), (5, "A"), (330, "B")], []),
    ([(0, "FOO"), (5, "A"), (5, "B"), (330, "C"), (330, "D"), (100, "X")], []),
    ([(0, "FOO"), (330, "C"), (5, "A"), (330, "D"), (5, "B"), (100, "X")], []),
    ([(0, "FOO"), (5, ""), (330, "C"), (5, "B")], []),
    ([(0, "FOO"), (330, ""), (5, "B"), (330, "C")], []),
    ([(0, "FOO"), (5, "A"), (330, "B"), (1001, "A"), (1000, "x"), (1001, "B"), (1000, "y"), (1001, "A"), (1000, "z")], []),
    ([(0, "FOO"), (5, "A"), (102, "{A"), (1, "x"), (102, "A}"), (330, "B"), (100, "X")], []),
    ([(0, "FOO"), (5, "A"), (102, "{ACAD_XDICTIONARY"), (360, "CC"), (102, "}"), (330, "B")], ["CC"]),
    ([(0, "FOO"), (5, "A"), (102, "{ACAD_XDICTIONARY"), (360, "CC"), (102, "}"), (330, "B")], []),
    ([(0, "FOO"), (5, "A"), (330, "B"), (1, "foreign"), (100, "X")], []),
    ([(0, "FOO"), (5, "A"), (330, "B"), (100, "X"), (1, "x"), (101, "Embedded Object"), (1, "y"), (1001, "A"), (1000, "x")], []),
    ([(0, "FOO"), (5, "A"), (102, "{ACAD_REACTORS"), (330, "1F"), (330, "A"), (330, "10"), (102, "}"), (330, "B")], []),
    ([(0, "DIMSTYLE_X"), (105, "A"), (330, "B")], []),
    ([(100, "X"), (1, "y")], []),
    ([(0, "FOO"), (5, "A"), (330, "B"), (102, "{OPEN")], []),
]


def correspond_entities(ctx):
    cases, spec_lines, spec_meta = [], [], []
    for kind, tags, alive, cls in entity_cases(ctx):
        ctx.hist("X1 tag storage", kind)
        req = f"rt|{','.join(cps(h) for h in alive)}|{enc_tags(tags)}"
        out1, r1 = impl_roundtrip(tags, alive)
        r2 = impl_roundtrip(out1, alive)[1] if out1 is not None else "-"
        ctx.hist("X1 tag storage", "result:" + r1.split(" ")[0] + ("" if r1.startswith("ok") else ":" + r1[4:]))
        nontriv = any(c in (102, 1001) for c, _ in tags) or sum(1 for c, _ in tags if c == 100) > 1
        cases.append((req, r1 + "|" + r2, nontriv))
        spec_lines.append("spec" + req[2:])
        spec_meta.append((kind, cls, tags, alive, out1, r1, r2))
    ctx.correspond("X1 tag storage", "C02", cases, build=DRIVER_DEPS)
    # the specification (EntityWF / canon / ordered) evaluated by the Lean driver, checked against the REAL output
    outs = ctx.driver("C02", spec_lines)
    nwf = nord = 0
    for line, (kind, cls, tags, alive, out1, r1, r2) in zip(outs, spec_meta):
        flags, canon = line.split("|", 1)
        wf, ordered = flags.split(" ")
        ctx.count("S1 spec on real code", line, wf == "1")
        ctx.hist("S1 spec on real code", f"{kind}:wf={wf},ordered={ordered}")
        rep = {"op": "entity", "tags": tags, "alive": alive}
        if kind in ("ordered", "shuffled") and wf != "1":
            raise ValueError(f"generator/spec mismatch: {kind} entity is not EntityWF: {tags}")
        if kind == "ordered" and ordered != "1":
            raise ValueError(f"generator/spec mismatch: ordered entity is not BaseOrdered: {tags}")
        if wf == "1":
            nwf += 1
            if r1 != "ok " + canon:
                ctx.fail(f"storage/canon/{tags[:5]}", f"EntityWF input, but export(load t) != canon t: {tags} -> {r1[:300]}", rep)
            if ordered == "1":
                nord += 1
                if r1 != "ok " + enc_tags(tags):
                    ctx.fail(f"storage/identity/{tags[:5]}", f"well-formed ordered entity changed by load->save: {tags} -> {r1[:300]}", rep)
            # pointers kept
            ptr = lambda ts: sorted((c, v) for c, v in ts if is_pointer(c))
            if out1 is not None and ptr(out1) != ptr(tags):
                ctx.fail(f"storage/pointers/{tags[:5]}", f"pointer tags changed: {ptr(tags)} -> {ptr(out1)}", rep)
        # second cycle is a fixed point for every input the code accepts
        if out1 is not None and r2 != r1:
            ctx.fail(f"storage/second-cycle/{tags[:5]}", f"second load->save differs: {r1[:200]} vs {r2[:200]}", rep)
    ctx.note(f"S1: {nwf} EntityWF inputs ({nord} in ezdxf's order) checked against canon on the real code")


def is_pointer(code: int) -> bool:
    from ezdxf.lldxf import types

    return types.is_pointer_code(code) or code in types.HANDLE_CODES

"""C04  Every written file is well-formed and referentially closed (DESIGN.md section 7, C04)."""
from __future__ import annotations

import io
import random
import re
import signal

import dxfparse
from gen.dochist import Runner, gen_history, gen_rich, hx
from props import c04_version

ID = "C04"
LEAN_MODULES = ["EzdxfVerif.Props.C04"]
DRIVER_DEPS = ["EzdxfVerif.Model.Doc", "EzdxfVerif.Model.Audit", "Drivers.Proto"]
RULE = (
    "regenerate: Gen/DocVersionTables.lean from the live registry and the AST (MIN_DXF_VERSION_FOR_EXPORT of all registered "
    "types, HEADER_VAR_MAP ranges and priorities, CLASS_DEFINITIONS, REQUIRED_CLASSES, the companion-class blocks of "
    "add_required_classes, the version guard of the custom-property fall-back, presence of the three export gates). "
    "correspondence X1: after generated API histories (all 29 model operations incl. linked parents, explode, audit, "
    "table entries, groups; R2000..R2018) the REAL written file is parsed by the harness-owned parser and its skeleton "
    "(per BLOCK_RECORD in table order the entity handles between BLOCK and ENDBLK; the ENTITIES handles in order; per "
    "GROUP object its member handles; $HANDSEED) is compared with the Lean writeFile of the model state reached by the "
    "same history. correspondence X2: documents with many entity/object types x 7 versions: header variable names in "
    "file order, custom properties written or not, CLASS names, entity types that pass the gate vs the Lean version "
    "model. oracle: rich histories (linked entities, attribs, groups, extension dictionaries, XDATA, reactors, explode, "
    "copies, audit, save+reload) x 7 DXF versions x {ASCII, binary}: harness-owned structural validator (sections/tables "
    "complete and ordered, unique handles < $HANDSEED, owners/reactors/xdict/dictionary entries/layout<->block-record "
    "links/SEQEND/block references resolve, required table and CLASS entries, version gates for entity types and "
    "header variables) + no dead entity written + every live linked entity written exactly once; O3: every named object "
    "kind x {delete, rename, remove} through every case variant of its name, then write + validate; O4: independent "
    "table of type / header-variable ages on files of all versions; O5 guarded block deletion x nested block references; "
    "O6 page_setup / reset_viewports sequences (LAYOUT pointers resolve); O7 table entries of every kind created in R12, "
    "reloaded, version raised (owner of every table entry = its table head); O8 EntityDB.reset_handle around the $HANDSEED "
    "boundary; O9 arrow blocks created by the export; in every rich history the BLOCKS/ENTITIES records of the first export "
    "equal those of a later export. non-trivial = history with at least one mutation "
    "besides creation; distinct by hash of the history seed."
)
TRUSTED_BASE = [
    "harness/dxfparse.py (independent ASCII/binary DXF reader and validator, ~400 lines)",
    "the model covers the handle/ownership skeleton of the file (Model/Doc.lean writeFile: BLOCKS, ENTITIES, GROUP members, $HANDSEED) and the version gates (Model/DocVersion.lean); tag-level content of records, tables and objects is validated on the real output only",
    "version tables are regenerated from ezdxf itself; the independent part is the hand-written age table of ~45 types / header variables in harness/props/c04_version.py (theorems independent_min_respected / independent_hdr_respected)",
    "preprocess_export() of individual entity classes may drop an entity that passes the version gate (empty MESH, ACIS entities without data): such types are not compared in X2",
]
ASSUMPTIONS = ["histories stay within documented use (add_entity only for unlinked entities, safe block deletion, no removal of layers or required table entries in use)",
               "block references only in layouts (an INSERT inside its own block is a cyclic definition)"]
OPEN = ["dictionary entries other than GROUP members are not in the model (validated by dxfparse on real files)",
        "owner tag of sub-entities, reactors, extension dictionaries, dictionary entries, LAYOUT<->BLOCK_RECORD links, SEQEND presence: validated by dxfparse on real files, not proved on the model",
        "required table entries: proved present after save+reload (required_entries_after_reload) and kept by every history that does not remove one of them (required_entries_kept); root dictionary entries are oracle only",
        "version gate of individual TAGS inside an entity (dxfns._export_group_codes) is C01's schema model, here oracle only",
        "the order of the CLASS entries of the types in use follows the iteration order of a Python set (not deterministic across runs; compared as sets)"]

VERSIONS = {"R12": "AC1009", "R2000": "AC1015", "R2004": "AC1018", "R2007": "AC1021", "R2010": "AC1024",
            "R2013": "AC1027", "R2018": "AC1032"}


def tables():
    from ezdxf.entities import factory
    from ezdxf.sections.headervars import HEADER_VAR_MAP
    from ezdxf.sections import classes

    minv = {t: getattr(c, "MIN_DXF_VERSION_FOR_EXPORT", "AC1009") for t, c in factory.ENTITY_CLASSES.items()}
    hmin = {n: v.mindxf for n, v in HEADER_VAR_MAP.items()}
    # custom drawing properties exist since AutoCAD 2004 (independent of ezdxf's own table)
    hmin.setdefault("$CUSTOMPROPERTYTAG", "AC1018")
    hmin.setdefault("$CUSTOMPROPERTY", "AC1018")
    req = dict(classes.REQ_R2004) if isinstance(classes.REQ_R2004, dict) else {n: 1 for n in classes.REQ_R2004}
    # CLASS entries are demanded only for types ezdxf itself declares as requiring one and that are not built in
    return minv, hmin, {}


def skeleton(tags):
    """(blocks: [(br_handle, [entity handles])], entities: [handles], handseed) from a parsed real file"""
    sections, problems = dxfparse.split_file(tags)
    sec = dict(sections)
    br_by_name = {}
    order = []
    body = sec["TABLES"]
    i = 0
    intable = None
    for r in body:
        t = dxfparse.rec_type(r)
        if t == "TABLE":
            intable = r[1][1]
        elif t == "BLOCK_RECORD" and intable == "BLOCK_RECORD":
            name = next(v for c, v in r if c == 2)
            br_by_name[name.lower()] = int(dxfparse.rec_handle(r), 16)
            order.append(name.lower())
    blocks = []
    cur = None
    for r in sec["BLOCKS"]:
        t = dxfparse.rec_type(r)
        if t == "BLOCK":
            name = next(v for c, v in r if c == 2)
            cur = (br_by_name[name.lower()], [])
            blocks.append(cur)
        elif t == "ENDBLK":
            cur = None
        elif t not in ("VERTEX", "ATTRIB", "SEQEND") and cur is not None:
            cur[1].append(int(dxfparse.rec_handle(r), 16))
    ents = [int(dxfparse.rec_handle(r), 16) for r in sec["ENTITIES"] if dxfparse.rec_type(r) not in ("VERTEX", "ATTRIB", "SEQEND")]
    hv = None
    pre = [t for r in sec["HEADER"] for t in r if t[0] != 0]
    for j, (c, v) in enumerate(pre):
        if c == 9 and v == "$HANDSEED":
            hv = int(pre[j + 1][1], 16)
    groups = []
    for r in sec.get("OBJECTS", []):
        if dxfparse.rec_type(r) == "GROUP":
            groups.append((int(dxfparse.rec_handle(r), 16), [int(v, 16) for c, v in r if c == 340]))
    return blocks, ents, hv, sorted(groups)


def regenerate(ctx):
    # Gen/DocVersionTables.lean: entity min versions, header variable ranges, class tables, gate guards (live registry + AST)
    c04_version.regenerate(ctx)


def layout_pointer_problems(tags):
    """every handle stored in a LAYOUT object (330 owner / block record, 331 last active viewport, 333 shade plot,
    345/346 UCS) resolves to an object present in the file"""
    recs = dxfparse.records(tags)
    handles = set()
    for r in recs:
        h = dxfparse.rec_handle(r)
        if h:
            handles.add(h.upper())
    out = []
    for r in recs:
        if dxfparse.rec_type(r) != "LAYOUT":
            continue
        me = dxfparse.rec_handle(r)
        for c, v in r:
            if c in (330, 331, 333, 345, 346) and v not in ("0", "") and v.upper() not in handles:
                out.append(f"LAYOUT #{me} in OBJECTS: pointer ({c}) {v} not in file")
    return out


def table_owner_problems(tags, version):
    """R2000+: the owner (330) of every table entry is the handle of the TABLE head it is written under"""
    if version <= "AC1009":
        return []
    sections, _ = dxfparse.split_file(tags)
    out = []
    head = None
    for r in dict(sections).get("TABLES", []):
        t = dxfparse.rec_type(r)
        if t == "TABLE":
            head = dxfparse.rec_handle(r)
        elif t == "ENDTAB":
            head = None
        elif head is not None:
            owner = next((v for c, v in r if c == 330), None)
            if owner is None or owner.upper() != head.upper():
                name = next((v for c, v in r if c == 2), "?")
                out.append(f"{t} '{name}' #{dxfparse.rec_handle(r)} in TABLES: owner {owner} is not its table head {head}")
    return out


def correspond(ctx):
    c04_version.correspond(ctx)
    rng = ctx.rng("c04")
    cases = []
    for i in range(ctx.n(200, 3000)):
        seed = rng.randrange(1 << 30)
        length = rng.choice([5, 10, 20, 30])
        version = rng.choice(["R2000", "R2004", "R2007", "R2010", "R2013", "R2018"])
        hr = random.Random(seed)
        r = Runner(version)
        choose = gen_history(hr, length, misuse=False)
        lines = [(r.init_line(), None)]
        mutated = False
        for _ in range(length):
            op = choose(r)
            if op[0] in ("delblock",) and not op[2]:
                op = ("delblock", op[1], True)
            if op[0] == "renblock":
                continue
            req, out = r.apply(op)
            mutated = mutated or op[0] not in ("add", "ins")
            lines.append((req, None))
        s = io.StringIO()
        r.doc.write(s)
        blocks, ents, seed_after, groups = skeleton(dxfparse.parse_ascii(s.getvalue()))
        impl = " ".join(f"{k}:{','.join(map(str, hs))}" for k, hs in blocks) + ";" + ",".join(map(str, ents)) + \
            ";" + " ".join(f"{g}:{','.join(map(str, ms))}" for g, ms in groups)
        for req, _ in lines:
            cases.append((req, None, False))
        cases.append(("dump", (impl, seed_after), mutated))
        ctx.hist("X1 written skeleton", version)
    # directed histories (shared with C05): wrong-layout requests, deletion of the highest handles before / between saves
    from props.c05 import directed_histories, resolve
    for hist in directed_histories():
        for version in ("R2000", "R2018"):
            r = Runner(version)
            cases.append((r.init_line(), None, False))
            for op in hist:
                op = resolve(r, op)
                if op is None:
                    continue
                req, out = r.apply(op)
                cases.append((req, None, False))
            s = io.StringIO()
            r.doc.write(s)
            blocks, ents, seed_after, groups = skeleton(dxfparse.parse_ascii(s.getvalue()))
            impl = " ".join(f"{k}:{','.join(map(str, hs))}" for k, hs in blocks) + ";" + ",".join(map(str, ents)) + \
                ";" + " ".join(f"{g}:{','.join(map(str, ms))}" for g, ms in groups)
            cases.append(("dump", (impl, seed_after), True))
            ctx.hist("X1 written skeleton", "directed")
    # only the dump lines are compared (the per-step observables are C05's stream)
    outs = ctx.driver("C05", [c[0] for c in cases], build=DRIVER_DEPS)
    n = 0
    for (req, impl, nontriv), model in zip(cases, outs):
        if impl is None:
            continue
        n += 1
        impl, seed_after = impl
        ctx.count("X1 written skeleton", (n, impl), nontriv, sample={"impl": impl[:300], "model": model[:300]})
        mbody, _, mseed = model.rpartition(";")
        # writing may itself allocate handles (required objects), so the written $HANDSEED is >= the model's
        if impl != mbody or seed_after is None or seed_after < int(mseed):
            ctx.disagree("X1 written skeleton", req, f"{impl};{seed_after}", model)
    ctx.cov["disagreements_checked"] += n


def write_and_check(ctx, r: Runner, fmt: str, rep: dict, tabs):
    minv, hmin, req = tabs
    doc = r.doc
    version = VERSIONS[r.version]
    if fmt == "ascii":
        s = io.StringIO()
        doc.write(s, fmt="asc")
        tags = dxfparse.parse_ascii(s.getvalue())
    else:
        b = io.BytesIO()
        doc.write(b, fmt="bin")
        tags = dxfparse.parse_binary(b.getvalue())
    problems = dxfparse.check_file(tags, version, minv, req, hmin) + layout_pointer_problems(tags) + table_owner_problems(tags, version)
    # F20: the extension dictionary of an entity that was unlinked (and is gone after a reload) stays in OBJECTS
    unlinked_xd = {"%X" % h for h, e in r.ents.items()
                   if (not e.is_alive) or (e.dxf.owner is None and e.has_extension_dict)}
    for p in problems[:5]:
        kind = p.split(":")[0].split("#")[0].strip()[:40]
        m = re.search(r"DICTIONARY #\w+ in OBJECTS: owner (\w+) not in file", p)
        if m and m.group(1) in unlinked_xd:
            ctx.fail(f"unlinked-entity-xdict/{r.version}/{fmt}", f"{r.version} {fmt}: {p} (the owner is an entity that was unlinked from its layout)", rep)
            continue
        if re.search(r": reactor \w+ not in file", p):
            ctx.fail(f"dangling-reactor/{r.version}/{fmt}", f"{r.version} {fmt}: {p}", rep)
            continue
        ctx.fail(f"file/{r.version}/{fmt}/{kind}", f"{r.version} {fmt}: {p}", rep)
    # dead entities must not be written, live linked ones exactly once
    if version > "AC1009":
        handles = [dxfparse.rec_handle(x) for x in dxfparse.records(tags) if x[0][1] not in ("SECTION", "ENDSEC", "EOF", "TABLE", "ENDTAB", "CLASS")]
        count = {}
        for h in handles:
            if h:
                count[h] = count.get(h, 0) + 1
        for h, e in r.ents.items():
            key = "%X" % h
            if not e.is_alive:
                if count.get(key):
                    # a handle may be legitimately re-issued only after reload (never: handles are never reused)
                    ctx.fail(f"dead-written/{r.version}/{fmt}", f"{r.version} {fmt}: destroyed entity #{key} is in the file", rep)
            elif e.dxf.owner is not None and e.get_layout() is not None:
                if count.get(key, 0) != 1:
                    ctx.fail(f"live-count/{r.version}/{fmt}", f"{r.version} {fmt}: live linked entity #{key} written {count.get(key, 0)} times", rep)


class _Timeout(Exception):
    pass


def _on_alarm(*a):
    raise _Timeout()


def probe_xdict_replace(ctx, tabs):
    """F19: replacing an entry of a hard-owner extension dictionary orphans the old entry"""
    import ezdxf

    r = Runner("R2010")
    msp = r.doc.modelspace()
    e = msp.add_line((0, 0), (1, 1))
    xd = e.new_extension_dict()
    xd.add_xrecord("K")
    xd.add_xrecord("K")
    msp.delete_entity(e)
    s = io.StringIO()
    r.doc.write(s)
    problems = dxfparse.check_file(dxfparse.parse_ascii(s.getvalue()), "AC1024", *[tabs[0], tabs[2], tabs[1]])
    ctx.count("O2 probes", "xdict-replace", True)
    for p in problems:
        ctx.fail("xdict-replace-orphan/R2010", f"add_xrecord twice on one key, then delete the owner entity: {p}", {"op": "probe-xdict-replace"})


def variants(name):
    return list(dict.fromkeys([name, name.upper(), name.lower(), name.swapcase()]))


def case_variant_sweep(ctx, tabs):
    """O3: every named object kind x {delete, rename} addressed through every case variant of its name (all name
    lookups of the API are case-insensitive, some of the underlying dictionaries are not), then write + validate"""
    todo = []
    for v in variants("Details"):
        todo.append(("layout-delete", v, lambda d, v=v: (d.layouts.new("Details"), d.layouts.delete(v))))
        todo.append(("layout-rename", v, lambda d, v=v: (d.layouts.new("Details"), d.layouts.rename(v, "Plan"))))
        todo.append(("layout-rename-back", v, lambda d, v=v: (d.layouts.new("Details"), d.layouts.rename(v, "Plan"), d.layouts.rename("PLAN", "Details"))))
        todo.append(("layout-activate", v, lambda d, v=v: (d.layouts.new("Details"), d.layouts.set_active_layout(v), d.layouts.delete(v))))
    for v in variants("Blk"):
        todo.append(("block-delete", v, lambda d, v=v: (d.blocks.new("Blk"), d.blocks.delete_block(v))))
        todo.append(("block-rename", v, lambda d, v=v: (d.blocks.new("Blk").add_line((0, 0), (1, 1)), d.blocks.rename_block(v, "Blk2"))))
        todo.append(("block-insert", v, lambda d, v=v: (d.blocks.new("Blk").add_line((0, 0), (1, 1)), d.modelspace().add_blockref(v, (0, 0)))))
    for v in variants("LayerX"):
        todo.append(("layer-remove", v, lambda d, v=v: (d.layers.add("LayerX"), d.layers.remove(v))))
    for tn in ("linetypes", "styles", "dimstyles", "appids", "ucs", "views"):
        for v in variants("Entry"):
            def f(d, v=v, tn=tn):
                t = getattr(d, tn)
                t.add("Entry", pattern=[0.2, 0.1, -0.1]) if tn == "linetypes" else (t.add("Entry", font="a.ttf") if tn == "styles" else t.add("Entry"))
                t.remove(v)
            todo.append((f"{tn}-remove", v, f))
    for cn in ("groups", "materials", "mline_styles", "mleader_styles"):
        for v in variants("Named"):
            todo.append((f"{cn}-delete", v, lambda d, v=v, cn=cn: (getattr(d, cn).new("Named"), getattr(d, cn).delete(v))))
    for version in VERSIONS:
        for what, v, f in todo:
            if version == "R12" and not (what.startswith("block") or what.startswith("layer") or what.split("-")[0] in ("linetypes", "styles", "dimstyles", "appids", "ucs", "views")):
                continue
            r = Runner(version)
            rep = {"op": "case-variant", "what": what, "name": v, "version": version}
            try:
                f(r.doc)
            except Exception as e:  # noqa  (a documented rejection is fine; the document must still be writable)
                ctx.hist("O3 case variants", "rejected:" + type(e).__name__)
            ctx.count("O3 case variants", (what, v, version), True)
            for fmt in ("ascii",):
                try:
                    write_and_check(ctx, r, fmt, rep, tabs)
                except Exception as e:  # noqa
                    ctx.fail(f"write-raised/{version}/{fmt}/{type(e).__name__}", f"{version} {what}({v!r}): writing raised {type(e).__name__}: {e}", rep)


def nested_block_sweep(ctx, tabs):
    """O5: guarded block deletion x block references at every nesting position (layouts, inside another block, two
    levels deep) x every spelling of the name, then write + validate (block references must resolve)"""
    import ezdxf

    for version in VERSIONS:
        for where in ("msp", "psp", "outer", "deep"):
            if version == "R12" and where == "psp":
                continue
            for how in ("delete_block", "delete_all_blocks", "purge"):
                for spell in ("INNER", "inner"):
                    r = Runner(version)
                    doc = r.doc
                    inner = doc.blocks.new("Inner")
                    r.track(inner.add_line((0, 0), (1, 1)))
                    outer = doc.blocks.new("Outer")
                    mid = doc.blocks.new("Mid")
                    if where == "msp":
                        r.track(doc.modelspace().add_blockref(spell, (0, 0)))
                    elif where == "psp":
                        r.track(doc.layout("Layout1").add_blockref(spell, (0, 0)))
                    elif where == "outer":
                        r.track(outer.add_blockref(spell, (0, 0)))
                        r.track(doc.modelspace().add_blockref("OUTER", (0, 0)))
                    else:
                        r.track(mid.add_blockref(spell, (0, 0)))
                        r.track(outer.add_blockref("mid", (0, 0)))
                        r.track(doc.modelspace().add_blockref("Outer", (0, 0)))
                    rep = {"op": "nested-blocks", "where": where, "how": how, "version": version}
                    try:
                        if how == "delete_block":
                            for n in ("INNER", "Mid", "outer", "inner"):
                                try:
                                    doc.blocks.delete_block(n, safe=True)
                                except ezdxf.DXFBlockInUseError:
                                    pass
                                except ezdxf.DXFKeyError:
                                    pass
                        elif how == "delete_all_blocks":
                            doc.blocks.delete_all_blocks()
                        else:
                            doc.blocks.purge() if hasattr(doc.blocks, "purge") else None
                    except Exception as e:  # noqa
                        ctx.fail(f"block-delete-raised/{version}/{how}/{type(e).__name__}", f"{version} {how} with a reference in {where}: {type(e).__name__}: {e}", rep)
                    ctx.count("O5 nested block references", (version, where, how, spell), True)
                    try:
                        write_and_check(ctx, r, "ascii", rep, tabs)
                    except Exception as e:  # noqa
                        ctx.fail(f"write-raised/{version}/ascii/{type(e).__name__}", f"{version} {how} ({where}): writing raised {type(e).__name__}: {e}", rep)


def layout_setup_sweep(ctx, tabs):
    """O6: paperspace layout management that creates and destroys viewports (page_setup, reset_viewports, repeated,
    across save+reload, after rename / activate / delete of other layouts), then write + validate"""
    import ezdxf

    recipes = {
        "setup": lambda d: d.layout("Layout1").page_setup(),
        "setup-twice": lambda d: (d.layout("Layout1").page_setup(size=(297, 210)), d.layout("Layout1").page_setup(size=(420, 297))),
        "setup-reset": lambda d: (d.layout("Layout1").page_setup(), d.layout("Layout1").reset_viewports()),
        "reset-twice": lambda d: (d.layout("Layout1").reset_viewports(), d.layout("Layout1").reset_viewports()),
        "new-setup-twice": lambda d: (d.layouts.new("L2").page_setup(), d.layouts.get("l2").page_setup(size=(100, 100))),
        "setup-rename-setup": lambda d: (d.layout("Layout1").page_setup(), d.layouts.rename("Layout1", "Renamed"), d.layouts.get("RENAMED").page_setup()),
        "setup-activate-setup": lambda d: (d.layouts.new("L2").page_setup(), d.layouts.set_active_layout("L2"), d.layout("Layout1").page_setup(), d.layouts.get("L2").page_setup()),
        "add-viewport-reset": lambda d: (d.layout("Layout1").add_viewport((5, 5), (4, 4), (0, 0), 10), d.layout("Layout1").reset_viewports()),
    }
    for version in VERSIONS:
        if version == "R12":
            continue
        for name, f in recipes.items():
            for reload_between in (False, True):
                r = Runner(version)
                rep = {"op": "layout-setup", "recipe": name, "reload": reload_between, "version": version}
                try:
                    f(r.doc)
                    if reload_between:
                        s = io.StringIO()
                        r.doc.write(s)
                        r.doc = ezdxf.read(io.StringIO(s.getvalue()))
                        if name == "setup-rename-setup":
                            r.doc.layouts.get("renamed").page_setup(size=(100, 100))
                        elif name.startswith("new-") or "activate" in name:
                            r.doc.layout("Layout1").page_setup()
                            r.doc.layouts.get("L2").page_setup(size=(50, 50))
                        else:
                            f(r.doc)
                except Exception as e:  # noqa
                    ctx.fail(f"layout-setup-raised/{version}/{name}/{type(e).__name__}", f"{version} {name}: {type(e).__name__}: {e}", rep)
                    continue
                ctx.count("O6 layout setup", (version, name, reload_between), True)
                try:
                    write_and_check(ctx, r, "ascii", rep, tabs)
                except Exception as e:  # noqa
                    ctx.fail(f"write-raised/{version}/ascii/{type(e).__name__}", f"{version} {name}: writing raised {type(e).__name__}: {e}", rep)


def probe_viewport_delete(ctx, tabs):
    """known finding: deleting the main VIEWPORT of a paperspace layout through layout.delete_entity() leaves its
    handle in LAYOUT.viewport_handle (331)"""
    r = Runner("R2010")
    lay = r.doc.layout("Layout1")
    lay.page_setup()
    for e in list(lay.query("VIEWPORT")):
        lay.delete_entity(e)
    s = io.StringIO()
    r.doc.write(s)
    ctx.count("O2 probes", "viewport-delete", True)
    for p in layout_pointer_problems(dxfparse.parse_ascii(s.getvalue())):
        ctx.fail("layout-viewport-deleted/R2010", f"page_setup(), then delete_entity() of every VIEWPORT: {p}", {"op": "probe-viewport-delete"})


def version_raise_sweep(ctx, tabs):
    """O7: entries of EVERY table kind (incl. shape-file text styles, layers, block records) created in an R12 document,
    saved as R12 (no owner tags, no OBJECTS), reloaded, the version raised through doc.dxfversion, saved: the owner handles,
    required objects and all other guarantees of the newer version must hold"""
    import ezdxf

    for target in ("R2000", "R2004", "R2010", "R2018"):
        for via_reload in (True, False):
            doc = ezdxf.new("R12")
            doc.layers.add("L1")
            doc.linetypes.add("LT1", pattern=[0.2, 0.1, -0.1])
            doc.styles.add("S1", font="arial.ttf")
            doc.styles.add_shx("ltypeshp.shx")
            doc.styles.add_shx("other.shx")
            doc.dimstyles.add("D1")
            doc.appids.add("APP1")
            doc.ucs.add("U1")
            doc.views.add("V1")
            blk = doc.blocks.new("B1")
            blk.add_line((0, 0), (1, 1))
            msp = doc.modelspace()
            msp.add_blockref("B1", (0, 0)).add_attrib("T", "v")
            msp.add_polyline2d([(0, 0), (1, 0)])
            msp.add_text("t", dxfattribs={"style": "S1"})
            if via_reload:
                s = io.StringIO()
                doc.write(s)
                doc = ezdxf.read(io.StringIO(s.getvalue()))
            rep = {"op": "version-raise", "target": target, "via_reload": via_reload}
            try:
                doc.dxfversion = target
            except Exception as e:  # noqa
                ctx.hist("O7 version raise", "rejected:" + type(e).__name__)
                continue
            r = Runner.__new__(Runner)
            r.doc, r.version, r.ents, r.order, r.subs = doc, target, {}, [], {}
            ctx.count("O7 version raise", (target, via_reload), True)
            try:
                write_and_check(ctx, r, "ascii", rep, tabs)
                # and once more after a reload of the raised file
                s = io.StringIO()
                doc.write(s)
                r.doc = ezdxf.read(io.StringIO(s.getvalue()))
                write_and_check(ctx, r, "ascii", rep, tabs)
            except Exception as e:  # noqa
                ctx.fail(f"write-raised/{target}/ascii/{type(e).__name__}", f"R12 document raised to {target}: writing raised {type(e).__name__}: {e}", rep)


def arrow_sweep(ctx, tabs):
    """O9: objects that the export itself has to create: the blocks of the ACAD arrows named in DIMSTYLE entries
    (dimblk, dimblk1, dimblk2, dimldrblk) and in dimension overrides - all handles must still be below $HANDSEED"""
    from ezdxf.render.arrows import ARROWS

    names = sorted(n for n in ARROWS.__all_arrows__ if ARROWS.is_acad_arrow(n) and n)
    for version in VERSIONS:
        for i, attr in enumerate(("dimblk", "dimblk1", "dimblk2", "dimldrblk")):
            for j in range(3):
                r = Runner(version)
                doc = r.doc
                st = doc.dimstyles.new("DS")
                picked = [names[(i * 7 + j * 3 + k) % len(names)] for k in range(2)]
                st.dxf.set(attr, picked[0])
                if attr != "dimldrblk":
                    st.dxf.set("dimldrblk", picked[1])
                r.track(doc.modelspace().add_line((0, 0), (1, 1)))
                rep = {"op": "arrows", "version": version, "attr": attr, "names": picked}
                ctx.count("O9 export-created objects", (version, attr, j), True)
                try:
                    write_and_check(ctx, r, "ascii", rep, tabs)
                except Exception as e:  # noqa
                    ctx.fail(f"write-raised/{version}/ascii/{type(e).__name__}", f"{version} DIMSTYLE {attr}={picked}: writing raised {type(e).__name__}: {e}", rep)


def reset_handle_sweep(ctx, tabs):
    """O8: EntityDB.reset_handle(entity, H) for H around the next handle (= $HANDSEED of the last export: -1, 0, +1, +2,
    +16), new and reloaded documents, no other handle allocated before the next save: every handle < $HANDSEED, unique"""
    import ezdxf

    for version in VERSIONS:
        for reloaded in (False, True):
            for offset in (-1, 0, 1, 2, 16):
                r = Runner(version)
                e = r.doc.modelspace().add_line((0, 0), (1, 1))
                r.track(e)
                s = io.StringIO()
                r.doc.write(s)
                if reloaded:
                    r.doc = ezdxf.read(io.StringIO(s.getvalue()))
                    e = r.doc.entitydb.get(e.dxf.handle)
                    r.ents = {hx(e.dxf.handle): e}
                    r.order = [hx(e.dxf.handle)]
                    s = io.StringIO()
                    r.doc.write(s)   # a later export creates no new objects
                nxt = int(str(r.doc.entitydb.handles), 16)
                new = "%X" % (nxt + offset)
                rep = {"op": "reset-handle", "version": version, "offset": offset, "reloaded": reloaded}
                if new in r.doc.entitydb:
                    continue
                ok = r.doc.entitydb.reset_handle(e, new)
                r.ents = {hx(e.dxf.handle): e}
                r.order = [hx(e.dxf.handle)]
                ctx.count("O8 reset_handle", (version, reloaded, offset), True)
                try:
                    write_and_check(ctx, r, "ascii", rep, tabs)
                except Exception as ex:  # noqa
                    ctx.fail(f"write-raised/{version}/ascii/{type(ex).__name__}", f"{version} reset_handle(+{offset}): writing raised {type(ex).__name__}: {ex}", rep)


def oracle(ctx):
    signal.signal(signal.SIGALRM, _on_alarm)
    rng = ctx.rng("oracle")
    tabs = tables()
    probe_xdict_replace(ctx, tabs)
    probe_viewport_delete(ctx, tabs)
    case_variant_sweep(ctx, tabs)
    nested_block_sweep(ctx, tabs)
    layout_setup_sweep(ctx, tabs)
    version_raise_sweep(ctx, tabs)
    reset_handle_sweep(ctx, tabs)
    arrow_sweep(ctx, tabs)
    c04_version.oracle(ctx)
    for i in range(ctx.n(300, 4000)):
        seed = rng.randrange(1 << 30)
        version = list(VERSIONS)[i % 7]
        length = rng.choice([8, 16, 30])
        run_rich(ctx, seed, version, length, tabs)


def entity_records(doc):
    s = io.StringIO()
    doc.write(s)
    sections, _ = dxfparse.split_file(dxfparse.parse_ascii(s.getvalue()))
    sec = dict(sections)
    def mask(t):   # the ezdxf time stamp of R12 files lives in the XDATA of the modelspace BLOCK
        return (t[0], "<time>") if t[0] == 1000 and re.match(r"^\d[\w.]* @ \d{4}-\d\d-\d\dT", str(t[1])) else t

    return [tuple(mask(t) for t in rec) for name in ("BLOCKS", "ENTITIES") for rec in sec.get(name, [])]


def run_rich(ctx, seed, version, length, tabs):
    import ezdxf

    hr = random.Random(seed)
    r = Runner(version)
    choose = gen_rich(hr)
    rep = {"op": "rich-history", "seed": seed, "version": version, "length": length}
    ops = []
    for i in range(length):
        op = choose(r)
        if version == "R12" and op[0] in ("newlayout", "dellayout", "renlayout", "activate", "reload"):
            continue  # R12 has no layout objects; reload of R12 is covered by C01
        if op[0] == "reactor":
            continue  # a hand-made reactor to an entity that is deleted later dangles by construction
        signal.alarm(5)
        try:
            r.apply(op)
        except _Timeout:
            ctx.note(f"watchdog: {version} history {seed} step {i} {op[0]} did not finish in 5 s; history skipped")
            ctx.hist("O1 rich history", "watchdog-skip")
            return
        finally:
            signal.alarm(0)
        ops.append(op[0])
    ctx.count("O1 rich history", (seed, version), any(o not in ("add", "ins") for o in ops))
    for o in ops:
        ctx.hist("O1 rich history", o)
    # writing must not change what is written next: the records of BLOCKS and ENTITIES of the FIRST export (taken before
    # any other export) are compared with those of a later export (export-time repairs such as clearing a group change the
    # reactors of graphical entities: they have to happen before the first section is written)
    first = None
    try:
        first = entity_records(r.doc)
    except Exception:  # noqa  (reported by write_and_check below)
        pass
    for fmt in ("ascii", "binary"):
        try:
            write_and_check(ctx, r, fmt, rep, tabs)
        except Exception as e:  # noqa
            if "All entities have to be in the same layout" in str(e):
                ctx.fail(f"group-multi-layout/{version}/{fmt}", f"{version} {fmt}: writing raised {type(e).__name__}: {e}", rep)
                return
            ctx.fail(f"write-raised/{version}/{fmt}/{type(e).__name__}", f"{version} {fmt}: writing raised {type(e).__name__}: {e}", rep)
    if first is not None:
        try:
            again = entity_records(r.doc)
            if again != first:
                diff = next((a for a, b in zip(first, again) if a != b), None)
                what = f"{dxfparse.rec_type(diff)} #{dxfparse.rec_handle(diff)}" if diff else "number of records"
                ctx.fail(f"export-mutates-document/{version}", f"{version}: BLOCKS/ENTITIES of the first export differ from the next export ({what})", rep)
        except Exception:  # noqa
            pass
    # the written file must load strictly
    try:
        s = io.StringIO()
        r.doc.write(s)
        s.seek(0)
        ezdxf.read(s)
    except Exception as e:  # noqa
        ctx.fail(f"reload-raised/{version}/{type(e).__name__}", f"{version}: strict reload raised {type(e).__name__}: {e}", rep)


def replay(ctx, rep):
    n0 = len(ctx.failures)
    tabs = tables()
    for f in rep.get("failing_inputs", []):
        r = f["replay"]
        if r.get("op") == "rich-history":
            run_rich(ctx, r["seed"], r["version"], r["length"], tabs)
        elif r.get("op") == "case-variant":
            case_variant_sweep(ctx, tabs)
        elif r.get("op") == "nested-blocks":
            nested_block_sweep(ctx, tabs)
        elif r.get("op") == "layout-setup":
            layout_setup_sweep(ctx, tabs)
        elif r.get("op") == "version-raise":
            version_raise_sweep(ctx, tabs)
        elif r.get("op") == "reset-handle":
            reset_handle_sweep(ctx, tabs)
        elif r.get("op") == "arrows":
            arrow_sweep(ctx, tabs)
    bad = ctx.failures[n0:]
    return (not bad, "; ".join(x.key for x in bad) or "recorded histories pass now")

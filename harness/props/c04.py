"""C04  Every written file is well-formed and referentially closed (DESIGN.md section 7, C04)."""
from __future__ import annotations

import io
import random
import re
import signal

import dxfparse
from gen.dochist import Runner, gen_history, gen_rich, hx

ID = "C04"
LEAN_MODULES = ["EzdxfVerif.Props.C04"]
DRIVER_DEPS = ["EzdxfVerif.Model.Doc", "Drivers.Proto"]
RULE = (
    "correspondence: after generated API histories (model operations, R2000..R2018) the REAL written file is parsed by "
    "the harness-owned parser and its skeleton (per BLOCK_RECORD in table order the entity handles between BLOCK and "
    "ENDBLK; the ENTITIES handles in order; $HANDSEED) is compared with the Lean writeFile of the model state reached "
    "by the same history. oracle: rich histories (linked entities, attribs, groups, extension dictionaries, XDATA, "
    "reactors, explode, copies, audit, save+reload) x 7 DXF versions x {ASCII, binary}: harness-owned structural "
    "validator (sections/tables complete and ordered, unique handles < $HANDSEED, owners/reactors/xdict/dictionary "
    "entries/layout<->block-record links/SEQEND/block references resolve, required table and CLASS entries, version "
    "gates for entity types and header variables) + no dead entity written + every live linked entity written exactly "
    "once. non-trivial = history with at least one mutation besides creation; distinct by hash of the history seed."
)
TRUSTED_BASE = [
    "harness/dxfparse.py (independent ASCII/binary DXF reader and validator, ~400 lines)",
    "the model covers the handle/ownership skeleton of the file (Model/Doc.lean writeFile); tag-level content of records, tables and objects is validated on the real output only",
    "version tables (MIN_DXF_VERSION_FOR_EXPORT, header variable mindxf, REQUIRED_CLASSES) are read from ezdxf itself",
]
ASSUMPTIONS = ["histories stay within documented use (add_entity only for unlinked entities, safe block deletion, no removal of layers in use)"]
OPEN = ["ownership consistency (owner tag = containing block record) is checked by the oracle on real files, not proved on the model"]

VERSIONS = {"R12": "AC1009", "R2000": "AC1015", "R2004": "AC1018", "R2007": "AC1021", "R2010": "AC1024",
            "R2013": "AC1027", "R2018": "AC1032"}


def tables():
    from ezdxf.entities import factory
    from ezdxf.sections.headervars import HEADER_VAR_MAP
    from ezdxf.sections import classes

    minv = {t: getattr(c, "MIN_DXF_VERSION_FOR_EXPORT", "AC1009") for t, c in factory.ENTITY_CLASSES.items()}
    hmin = {n: v.mindxf for n, v in HEADER_VAR_MAP.items()}
    # custom drawing properties exist since AutoCAD 2004 (independent of ezdxf's own table)
    hmin.setdefault("$CUSTOMPROPERTYTAG", "AC1018")
    hmin.setdefault("$CUSTOMPROPERTY", "AC1018")
    req = dict(classes.REQ_R2004) if isinstance(classes.REQ_R2004, dict) else {n: 1 for n in classes.REQ_R2004}
    # CLASS entries are demanded only for types ezdxf itself declares as requiring one and that are not built in
    return minv, hmin, {}


def skeleton(tags):
    """(blocks: [(br_handle, [entity handles])], entities: [handles], handseed) from a parsed real file"""
    sections, problems = dxfparse.split_file(tags)
    sec = dict(sections)
    br_by_name = {}
    order = []
    body = sec["TABLES"]
    i = 0
    intable = None
    for r in body:
        t = dxfparse.rec_type(r)
        if t == "TABLE":
            intable = r[1][1]
        elif t == "BLOCK_RECORD" and intable == "BLOCK_RECORD":
            name = next(v for c, v in r if c == 2)
            br_by_name[name.lower()] = int(dxfparse.rec_handle(r), 16)
            order.append(name.lower())
    blocks = []
    cur = None
    for r in sec["BLOCKS"]:
        t = dxfparse.rec_type(r)
        if t == "BLOCK":
            name = next(v for c, v in r if c == 2)
            cur = (br_by_name[name.lower()], [])
            blocks.append(cur)
        elif t == "ENDBLK":
            cur = None
        elif t not in ("VERTEX", "ATTRIB", "SEQEND") and cur is not None:
            cur[1].append(int(dxfparse.rec_handle(r), 16))
    ents = [int(dxfparse.rec_handle(r), 16) for r in sec["ENTITIES"] if dxfparse.rec_type(r) not in ("VERTEX", "ATTRIB", "SEQEND")]
    hv = None
    pre = [t for r in sec["HEADER"] for t in r if t[0] != 0]
    for j, (c, v) in enumerate(pre):
        if c == 9 and v == "$HANDSEED":
            hv = int(pre[j + 1][1], 16)
    return blocks, ents, hv


def correspond(ctx):
    rng = ctx.rng("c04")
    cases = []
    for i in range(ctx.n(200, 3000)):
        seed = rng.randrange(1 << 30)
        length = rng.choice([5, 10, 20, 30])
        version = rng.choice(["R2000", "R2004", "R2007", "R2010", "R2013", "R2018"])
        hr = random.Random(seed)
        r = Runner(version)
        choose = gen_history(hr, length, misuse=False)
        lines = [(r.init_line(), None)]
        mutated = False
        for _ in range(length):
            op = choose(r)
            if op[0] in ("delblock",) and not op[2]:
                op = ("delblock", op[1], True)
            if op[0] == "renblock":
                continue
            req, out = r.apply(op)
            mutated = mutated or op[0] not in ("add", "ins")
            lines.append((req, None))
        s = io.StringIO()
        r.doc.write(s)
        blocks, ents, seed_after = skeleton(dxfparse.parse_ascii(s.getvalue()))
        impl = " ".join(f"{k}:{','.join(map(str, hs))}" for k, hs in blocks) + ";" + ",".join(map(str, ents))
        for req, _ in lines:
            cases.append((req, None, False))
        cases.append(("dump", (impl, seed_after), mutated))
        ctx.hist("X1 written skeleton", version)
    # only the dump lines are compared (the per-step observables are C05's stream)
    outs = ctx.driver("C05", [c[0] for c in cases], build=DRIVER_DEPS)
    n = 0
    for (req, impl, nontriv), model in zip(cases, outs):
        if impl is None:
            continue
        n += 1
        impl, seed_after = impl
        ctx.count("X1 written skeleton", (n, impl), nontriv, sample={"impl": impl[:300], "model": model[:300]})
        mbody, _, mseed = model.rpartition(";")
        # writing may itself allocate handles (required objects), so the written $HANDSEED is >= the model's
        if impl != mbody or seed_after is None or seed_after < int(mseed):
            ctx.disagree("X1 written skeleton", req, f"{impl};{seed_after}", model)
    ctx.cov["disagreements_checked"] += n


def write_and_check(ctx, r: Runner, fmt: str, rep: dict, tabs):
    minv, hmin, req = tabs
    doc = r.doc
    version = VERSIONS[r.version]
    if fmt == "ascii":
        s = io.StringIO()
        doc.write(s, fmt="asc")
        tags = dxfparse.parse_ascii(s.getvalue())
    else:
        b = io.BytesIO()
        doc.write(b, fmt="bin")
        tags = dxfparse.parse_binary(b.getvalue())
    problems = dxfparse.check_file(tags, version, minv, req, hmin)
    # F20: the extension dictionary of an entity that was unlinked (and is gone after a reload) stays in OBJECTS
    unlinked_xd = {"%X" % h for h, e in r.ents.items()
                   if (not e.is_alive) or (e.dxf.owner is None and e.has_extension_dict)}
    for p in problems[:5]:
        kind = p.split(":")[0].split("#")[0].strip()[:40]
        m = re.search(r"DICTIONARY #\w+ in OBJECTS: owner (\w+) not in file", p)
        if m and m.group(1) in unlinked_xd:
            ctx.fail(f"unlinked-entity-xdict/{r.version}/{fmt}", f"{r.version} {fmt}: {p} (the owner is an entity that was unlinked from its layout)", rep)
            continue
        if re.search(r": reactor \w+ not in file", p):
            ctx.fail(f"dangling-reactor/{r.version}/{fmt}", f"{r.version} {fmt}: {p}", rep)
            continue
        ctx.fail(f"file/{r.version}/{fmt}/{kind}", f"{r.version} {fmt}: {p}", rep)
    # dead entities must not be written, live linked ones exactly once
    if version > "AC1009":
        handles = [dxfparse.rec_handle(x) for x in dxfparse.records(tags) if x[0][1] not in ("SECTION", "ENDSEC", "EOF", "TABLE", "ENDTAB", "CLASS")]
        count = {}
        for h in handles:
            if h:
                count[h] = count.get(h, 0) + 1
        for h, e in r.ents.items():
            key = "%X" % h
            if not e.is_alive:
                if count.get(key):
                    # a handle may be legitimately re-issued only after reload (never: handles are never reused)
                    ctx.fail(f"dead-written/{r.version}/{fmt}", f"{r.version} {fmt}: destroyed entity #{key} is in the file", rep)
            elif e.dxf.owner is not None and e.get_layout() is not None:
                if count.get(key, 0) != 1:
                    ctx.fail(f"live-count/{r.version}/{fmt}", f"{r.version} {fmt}: live linked entity #{key} written {count.get(key, 0)} times", rep)


class _Timeout(Exception):
    pass


def _on_alarm(*a):
    raise _Timeout()


def probe_xdict_replace(ctx, tabs):
    """F19: replacing an entry of a hard-owner extension dictionary orphans the old entry"""
    import ezdxf

    r = Runner("R2010")
    msp = r.doc.modelspace()
    e = msp.add_line((0, 0), (1, 1))
    xd = e.new_extension_dict()
    xd.add_xrecord("K")
    xd.add_xrecord("K")
    msp.delete_entity(e)
    s = io.StringIO()
    r.doc.write(s)
    problems = dxfparse.check_file(dxfparse.parse_ascii(s.getvalue()), "AC1024", *[tabs[0], tabs[2], tabs[1]])
    ctx.count("O2 probes", "xdict-replace", True)
    for p in problems:
        ctx.fail("xdict-replace-orphan/R2010", f"add_xrecord twice on one key, then delete the owner entity: {p}", {"op": "probe-xdict-replace"})


def oracle(ctx):
    signal.signal(signal.SIGALRM, _on_alarm)
    rng = ctx.rng("oracle")
    tabs = tables()
    probe_xdict_replace(ctx, tabs)
    for i in range(ctx.n(300, 4000)):
        seed = rng.randrange(1 << 30)
        version = list(VERSIONS)[i % 7]
        length = rng.choice([8, 16, 30])
        run_rich(ctx, seed, version, length, tabs)


def run_rich(ctx, seed, version, length, tabs):
    import ezdxf

    hr = random.Random(seed)
    r = Runner(version)
    choose = gen_rich(hr)
    rep = {"op": "rich-history", "seed": seed, "version": version, "length": length}
    ops = []
    for i in range(length):
        op = choose(r)
        if version == "R12" and op[0] in ("newlayout", "dellayout", "renlayout", "activate", "reload"):
            continue  # R12 has no layout objects; reload of R12 is covered by C01
        if op[0] == "reactor":
            continue  # a hand-made reactor to an entity that is deleted later dangles by construction
        signal.alarm(5)
        try:
            r.apply(op)
        except _Timeout:
            ctx.note(f"watchdog: {version} history {seed} step {i} {op[0]} did not finish in 5 s; history skipped")
            ctx.hist("O1 rich history", "watchdog-skip")
            return
        finally:
            signal.alarm(0)
        ops.append(op[0])
    ctx.count("O1 rich history", (seed, version), any(o not in ("add", "ins") for o in ops))
    for o in ops:
        ctx.hist("O1 rich history", o)
    for fmt in ("ascii", "binary"):
        try:
            write_and_check(ctx, r, fmt, rep, tabs)
        except Exception as e:  # noqa
            if "All entities have to be in the same layout" in str(e):
                ctx.fail(f"group-multi-layout/{version}/{fmt}", f"{version} {fmt}: writing raised {type(e).__name__}: {e}", rep)
                return
            ctx.fail(f"write-raised/{version}/{fmt}/{type(e).__name__}", f"{version} {fmt}: writing raised {type(e).__name__}: {e}", rep)
    # the written file must load strictly
    try:
        s = io.StringIO()
        r.doc.write(s)
        s.seek(0)
        ezdxf.read(s)
    except Exception as e:  # noqa
        ctx.fail(f"reload-raised/{version}/{type(e).__name__}", f"{version}: strict reload raised {type(e).__name__}: {e}", rep)


def replay(ctx, rep):
    n0 = len(ctx.failures)
    tabs = tables()
    for f in rep.get("failing_inputs", []):
        r = f["replay"]
        if r.get("op") == "rich-history":
            run_rich(ctx, r["seed"], r["version"], r["length"], tabs)
    bad = ctx.failures[n0:]
    return (not bad, "; ".join(x.key for x in bad) or "recorded histories pass now")

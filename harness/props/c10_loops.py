"""C10, session 3: the loops of the accelerated twins (B-spline Basis/Evaluator, line type renderer, clockwise test of
construct / np_support, banded LU).

regenerate_loops(ctx) cuts every arithmetic statement and every test out of the loops of BOTH twins
(harness/translate/py2lean_c10.py), translates the cuts with the unchanged py2lean into
Gen/TwinLoopsPy.lean / Gen/TwinLoopsPyx.lean, and compares what remains of each function (the loop skeleton) with the
pinned text the hand written skeletons of Model/TwinLoops.lean were written for (harness/props/c10_skeletons.json).
For the banded LU both twins are the same loop nest: their skeletons are compared with each other, text for text.
"""
from __future__ import annotations

import ast
import copy
import os

HERE = os.path.dirname(os.path.abspath(__file__))
PINNED = os.path.join(HERE, "c10_skeletons.json")

PY = {"bspline": "src/ezdxf/math/_bspline.py", "linetypes": "src/ezdxf/render/_linetypes.py", "construct": "src/ezdxf/math/_construct.py",
      "vector": "src/ezdxf/math/_vector.py", "linalg": "src/ezdxf/math/linalg.py"}
PYX = {"bspline": "src/ezdxf/acc/bspline.pyx", "linetypes": "src/ezdxf/acc/linetypes.pyx", "construct": "src/ezdxf/acc/construct.pyx",
       "vector": "src/ezdxf/acc/vector.pyx", "np_support": "src/ezdxf/acc/np_support.pyx"}
PXD = ["src/ezdxf/acc/vector.pxd", "src/ezdxf/acc/constants.h"]

R, V3, V2, B = "rat", "v3", "v2", "bool"


def _bisect_path() -> str:
    import bisect
    return bisect.__file__


def build(ctx, twin: str):
    """-> (defs: [LeanDef], skeletons: {key: text}, sources: [path])"""
    from translate.py2lean_c10 import Cut, Program

    pyx = twin == "pyx"
    SRC = PYX if pyx else PY
    stdlib = _bisect_path()
    read = lambda p: open(p).read() if p.startswith("/") else ctx.src(p)
    prog = Program(read)
    prog.link("ezdxf.math", [SRC["vector"]])
    prog.link("ezdxf.math._vector", [SRC["vector"]])
    defs, skel = [], {}

    def done(c: "Cut", key=None):
        skel[(key or f"{c.path}::{c.qualname}")] = c.skeleton()

    # ------------------------------------------------------------------------------------------ Basis.find_span
    c = Cut(prog, SRC["bspline"], "Basis.find_span")
    defs.append(c.kernel("fsSpecial", c.node(ast.If, "u >= knots[count]").test, [("u", R), ("k_count", R)], scalar={"knots[count]": "k_count"}))
    defs.append(c.kernel("fsBack", c.loop("while span > p and knots[span] >= knots[count]").test,
                         [("span", R), ("p", R), ("k_span", R), ("k_count", R)], scalar={"knots[span]": "k_span", "knots[count]": "k_count"}))
    defs.append(c.kernel("fsUseBisect", c.node(ast.If, "knots[p] == 0.0").test, [("k_p", R)], scalar={"knots[p]": "k_p"}))
    defs.append(c.kernel("fsLinear", c.loop("while knots[span] <= u and span < count").test,
                         [("k_span", R), ("u", R), ("span", R), ("count", R)], scalar={"knots[span]": "k_span"}))
    done(c)
    # bisect_right: hand rolled in bspline.pyx, Lib/bisect.py for the pure Python twin (the C accelerator _bisect is trusted to
    # be that function)
    if pyx:
        c = Cut(prog, SRC["bspline"], "bisect_right")
        defs.append(c.kernel("bisectLess", c.node(ast.If, "x < a[mid]").test, [("x", R), ("a_mid", R)], scalar={"a[mid]": "a_mid"}))
        done(c)
    else:
        c = Cut(prog, stdlib, "bisect_right")
        loop = c.loop("while lo < hi")
        defs.append(c.kernel("bisectLess", c.node(ast.If, "x < a[mid]", within=loop).test, [("x", R), ("a_mid", R)], scalar={"a[mid]": "a_mid"}))
        fn = ast.FunctionDef(name="bisect_right_keyless_loop", args=ast.arguments(posonlyargs=[], args=[], kwonlyargs=[], kw_defaults=[], defaults=[]),
                             body=[loop], decorator_list=[], type_params=[])
        c.fn = ast.fix_missing_locations(fn)
        done(c, "Lib/bisect.py::bisect_right[key is None]")

    # ------------------------------------------------------------------------------------------ Basis.basis_funcs
    c = Cut(prog, SRC["bspline"], "Basis.basis_funcs")
    if pyx:
        defs.append(c.kernel("bfIndex", c.stmts("i1 = span + 1 - j", 2), [("span", R), ("j", R)], returns=["i1"]))
        kcell = "knots[i1]"
    else:
        defs.append(c.kernel("bfIndex", c.node(ast.Call, "max(0, span + 1 - j)"), [("span", R), ("j", R)]))
        kcell = "knots[KERNEL_bfIndex]"  # (printed after the cut above) - the cell is named by its source text:
        kcell = "knots[max(0, span + 1 - j)]"
    defs.append(c.kernel("bfLeft", c.node(ast.Assign, "left[j] =").value, [("u", R), ("k_i", R)], scalar={kcell: "k_i"}))
    defs.append(c.kernel("bfRight", c.node(ast.Assign, "right[j] =").value, [("u", R), ("k_sj", R)], scalar={"knots[span + j]": "k_sj"}))
    defs.append(c.kernel("bfInner", c.loop("for r in range(j)").body, [("N_r", R), ("right_r1", R), ("left_jr", R), ("saved", R)],
                         returns=["N_r", "saved"], scalar={"N[r]": "N_r", "right[r + 1]": "right_r1", "left[j - r]": "left_jr"}))
    done(c)

    # ------------------------------------------------------------------------------------------ Basis.span_weighting
    c = Cut(prog, SRC["bspline"], "Basis.span_weighting")
    defs.append(c.kernel("swProduct", c.node(ast.BinOp, "nb * w"), [("nb", R), ("w", R)]))
    defs.append(c.kernel("swQuot", c.node(ast.BinOp, "p / s"), [("p", R), ("s", R)]))
    defs.append(c.kernel("swTest", (c.node(ast.If, "s != 0") if pyx else c.node(ast.IfExp, "s == 0.0")).test, [("s", R)]))
    done(c)
    c = Cut(prog, SRC["bspline"], "Basis.basis_vector")
    done(c)

    # ------------------------------------------------------------------------------------------ Basis.basis_funcs_derivatives (A2.3)
    c = Cut(prog, SRC["bspline"], "Basis.basis_funcs_derivatives")
    if pyx:
        defs.append(c.kernel("bdIndex", c.stmts("i1 = span + 1 - j", 2), [("span", R), ("j", R)], returns=["i1"]))
        kcell = "knots[i1]"
    else:
        defs.append(c.kernel("bdIndex", c.node(ast.Call, "max(0, span + 1 - j)"), [("span", R), ("j", R)]))
        kcell = "knots[max(0, span + 1 - j)]"
    defs.append(c.kernel("bdLeft", c.node(ast.Assign, "left[j] =").value, [("u", R), ("k_i", R)], scalar={kcell: "k_i"}))
    defs.append(c.kernel("bdRight", c.node(ast.Assign, "right[j] =").value, [("u", R), ("k_sj", R)], scalar={"knots[span + j]": "k_sj"}))
    defs.append(c.kernel("bdInner", c.loop("for r in range(j)").body, [("right_r1", R), ("left_jr", R), ("ndu_rj1", R), ("saved", R)],
                         returns=["ndu_jr", "ndu_rj", "saved"],
                         scalar={"ndu[j][r]": "ndu_jr", "right[r + 1]": "right_r1", "left[j - r]": "left_jr", "ndu[r][j - 1]": "ndu_rj1", "ndu[r][j]": "ndu_rj"}))
    done(c)

    # ------------------------------------------------------------------------------------------ Evaluator.point / derivative
    c = Cut(prog, SRC["bspline"], "Evaluator.point")
    defs.append(c.kernel("epSnap", c.node(ast.If, "isclose(u, basis.max_t").test, [("u", R), ("max_t", R)], scalar={"basis.max_t": "max_t"}))
    cells = {"N[i]": "n_i", "control_points[span - p + i]": "cp"}
    if pyx:
        defs.append(c.kernel("epAccum", c.loop("for i in range(p + 1)").body, [("v3_sum", V3, "acc"), ("n_i", R), ("cp", V3)], returns=["v3_sum"], scalar=cells))
    else:
        defs.append(c.kernel("epTerm", c.node(ast.BinOp, "N[i] * control_points[span - p + i]"), [("n_i", R), ("cp", V3)], scalar=cells))
    done(c)

    c = Cut(prog, SRC["bspline"], "Evaluator.derivative")
    defs.append(c.kernel("edSnap", c.node(ast.If, "isclose(u, basis.max_t").test, [("u", R), ("max_t", R)], scalar={"basis.max_t": "max_t"}))
    if pyx:
        rat = c.node(ast.If, "basis.is_rational")
        l1 = c.loop("for j in range(p + 1)", 0, within=rat)
        defs.append(c.kernel("edWeight", c.node(ast.Assign, "bas_func_weight = basis_funcs_ders[k][j] * weights[i]", within=l1).value, [("d_kj", R), ("w_i", R)],
                             scalar={"basis_funcs_ders[k][j]": "d_kj", "weights[i]": "w_i"}))
        defs.append(c.kernel("edAccV", c.stmts("cpoint = control_points[i]", 4, within=l1), [("v3_sum", V3, "acc"), ("cp", V3), ("bas_func_weight", R, "bw")],
                             returns=["v3_sum"], scalar={"control_points[i]": "cp"}))
        defs.append(c.kernel("edAccW", c.stmts("wder += bas_func_weight", 1, within=l1), [("wder", R), ("bas_func_weight", R, "bw")], returns=["wder"]))
        l2 = c.loop("for j in range(1, k + 1)", 0, within=rat)
        defs.append(c.kernel("edSub", l2.body, [("v3_sum", V3, "acc"), ("binom", R), ("wd_j", R), ("ck", V3)], returns=["v3_sum"],
                             scalar={"binomial_coefficient(k, j)": "binom", "wders[j]": "wd_j", "CK[k - j]": "ck"}))
        defs.append(c.kernel("edDiv", c.node(ast.BinOp, "v3_sum / wders[0]"), [("v3_sum", V3, "acc"), ("wd_0", R)], scalar={"wders[0]": "wd_0"}))
        l3 = c.loop("for j in range(p + 1)", 1)
        defs.append(c.kernel("edAccum", l3.body, [("v3_sum", V3, "acc"), ("d_kj", R), ("cp", V3)], returns=["v3_sum"],
                             scalar={"basis_funcs_ders[k][j]": "d_kj", "control_points[span - p + j]": "cp"}))
    else:
        l1 = c.loop("for j in range(p + 1)")
        defs.append(c.kernel("edWeight", c.node(ast.Assign, "bas_func_weight = basis_funcs_ders[k][j] * weights[index]", within=l1).value, [("d_kj", R), ("w_i", R)],
                             scalar={"basis_funcs_ders[k][j]": "d_kj", "weights[index]": "w_i"}))
        defs.append(c.kernel("edAccV", c.stmts("v += control_points[index] * bas_func_weight", 1, within=l1), [("v", V3, "acc"), ("cp", V3), ("bas_func_weight", R, "bw")],
                             returns=["v"], scalar={"control_points[index]": "cp"}))
        defs.append(c.kernel("edAccW", c.stmts("wder += bas_func_weight", 1, within=l1), [("wder", R), ("bas_func_weight", R, "bw")], returns=["wder"]))
        l2 = c.loop("for i in range(1, k + 1)")
        defs.append(c.kernel("edSub", l2.body, [("v", V3, "acc"), ("binom", R), ("wd_j", R), ("ck", V3)], returns=["v"],
                             scalar={"binomial_coefficient(k, i)": "binom", "wders[i]": "wd_j", "CK[k - i]": "ck"}))
        defs.append(c.kernel("edDiv", c.node(ast.BinOp, "v / wders[0]"), [("v", V3, "acc"), ("wd_0", R)], scalar={"wders[0]": "wd_0"}))
        defs.append(c.kernel("edTerm", c.node(ast.BinOp, "basis_funcs_ders[k][j] * control_points[span - p + j]"), [("d_kj", R), ("cp", V3)],
                             scalar={"basis_funcs_ders[k][j]": "d_kj", "control_points[span - p + j]": "cp"}))
    done(c)

    # ------------------------------------------------------------------------------------------ _LineTypeRenderer
    LT = "_LineTypeRenderer"
    cdl = "self.current_dash_length" if pyx else "self._current_dash_length"
    c = Cut(prog, SRC["linetypes"], LT + "._render_dashes")
    defs.append(c.kernel("rdFits", c.test("length <= " + cdl), [("length", R), ("cdl", R)], scalar={cdl: "cdl"}))
    defs.append(c.kernel("rdRemain", c.stmts(cdl + " -= length", 1), [("cdl", R), ("length", R)], returns=["cdl"], scalar={cdl: "cdl"}))
    defs.append(c.kernel("rdCycleTest", c.test(cdl + " < ABS_TOL"), [("cdl", R)], scalar={cdl: "cdl"}))
    lp = c.loop("while length > " + cdl)
    defs.append(c.kernel("rdMore", lp.test, [("length", R), ("cdl", R)], scalar={cdl: "cdl"}))
    defs.append(c.kernel("rdLess", c.stmts("length -= " + cdl, 1, within=lp), [("length", R), ("cdl", R)], returns=["length"], scalar={cdl: "cdl"}))
    defs.append(c.kernel("rdRest", c.test("length > 0.0"), [("length", R)]))
    done(c)
    c = Cut(prog, SRC["linetypes"], LT + "._cycle_dashes")
    done(c)
    c = Cut(prog, SRC["linetypes"], LT + ".__init__")
    done(c)
    c = Cut(prog, SRC["linetypes"], LT + ".line_segment")
    s0, e0 = ("v3_start", "v3_end") if pyx else ("_start", "_end")
    test = c.node(ast.If, "isclose").test
    defs.append(c.kernel("lsSame", test.values[1], [(s0, V3, "a"), (e0, V3, "b")]))
    first = "segment_vec = v3_sub(v3_end, v3_start)" if pyx else "segment_vec = _end - _start"
    defs.append(c.kernel("lsLength", c.stmts(first, 2), [(s0, V3, "a"), (e0, V3, "b")], returns=["segment_length"]))
    defs.append(c.kernel("lsDir", c.stmts(first, 3), [(s0, V3, "a"), (e0, V3, "b")], returns=["segment_dir"]))
    lp = c.loop("for (is_dash, dash_length) in dashes") if pyx else c.loop("for (is_dash, dash_length) in self._render_dashes(segment_length)")
    step = c.node(ast.Assign, e0 + " =", within=lp).value
    defs.append(c.kernel("lsStep", step, [(s0, V3, "a"), ("segment_dir", V3, "dir"), ("dash_length", R, "mag")]))
    done(c)

    # ------------------------------------------------------------------------------------------ has_clockwise_orientation
    c = Cut(prog, SRC["construct"], "has_clockwise_orientation")
    if pyx:
        defs.append(c.kernel("cwClosed", c.node(ast.Call, "v2_isclose(p1, p2"), [("p1", V2, "a"), ("p2", V2, "b")]))
        defs.append(c.kernel("cwAccum", c.stmts("s += (p2.x - p1.x) * (p2.y + p1.y)", 1), [("s", R), ("p1", V2, "a"), ("p2", V2, "b")], returns=["s"]))
        defs.append(c.kernel("cwSign", c.node(ast.Compare, "s > 0.0"), [("s", R)]))
    else:
        defs.append(c.kernel("cwClosed", c.node(ast.Call, "vertices[0].isclose(vertices[-1])"), [("p1", V2, "a"), ("p2", V2, "b")],
                             scalar={"vertices[0]": "p1", "vertices[-1]": "p2"}))
        defs.append(c.kernel("cwTerm", c.node(ast.BinOp, "(p2.x - p1.x) * (p2.y + p1.y)"), [("p1", V2, "a"), ("p2", V2, "b")]))
        cmp_ = c.node(ast.Compare, "> 0.0")
        defs.append(c.kernel("cwSign", cmp_, [("s", R)], scalar={ast.unparse(cmp_.left): "s"}, keep=True))
    done(c)
    if pyx:
        c = Cut(prog, SRC["np_support"], "_has_clockwise_orientation")
        defs.append(c.kernel("npCloseX", c.node(ast.Assign, "x_is_close =").value, [("p1x", R), ("p2x", R)]))
        defs.append(c.kernel("npCloseY", c.node(ast.Assign, "y_is_close =").value, [("p1y", R), ("p2y", R)]))
        defs.append(c.kernel("npAccum", c.stmts("s += (p2x - p1x) * (p2y + p1y)", 1), [("s", R), ("p1x", R), ("p1y", R), ("p2x", R), ("p2y", R)], returns=["s"]))
        defs.append(c.kernel("npSign", c.node(ast.Compare, "s > 0.0"), [("s", R)]))
        done(c)
        c = Cut(prog, SRC["np_support"], "has_clockwise_orientation")
        done(c)
    return defs, skel, prog


# ================================================================================================ Gen text
def _inst(twin: str) -> str:
    """instantiation of the skeletons of Model/TwinLoops.lean with the kernels of one twin (fixed text)"""
    pyx = twin == "pyx"
    V = "VectorPyx" if pyx else "VectorPy"
    t = """
/-! ## the loop skeletons of Model/TwinLoops.lean instantiated with the kernels above -/
def findSpanK : TwinLoops.FindSpanK := ⟨fsSpecial, fsBack, fsUseBisect, fsLinear, bisectLess⟩
def bisectRight := TwinLoops.bisectRight bisectLess
def findSpan := TwinLoops.findSpan findSpanK
def basisFuncsK : TwinLoops.BasisFuncsK := ⟨bfIndex, bfLeft, bfRight, bfInner⟩
def basisFuncsN := TwinLoops.basisFuncsN basisFuncsK
def spanWeightK : TwinLoops.SpanWeightK := ⟨swProduct, swQuot, swTest⟩
def spanWeighting := TwinLoops.spanWeighting@TW@ spanWeightK
def basisFuncs := TwinLoops.basisFuncs basisFuncsK spanWeighting
def basisVector := TwinLoops.basisVector TwinLoops.basisVector@TW@ findSpan basisFuncs
def pointSum := @POINTSUM@
def evalPoint := TwinLoops.evalPoint epSnap findSpan basisFuncs pointSum
def renderK : TwinLoops.RenderK := ⟨rdFits, rdRemain, rdCycleTest, rdMore, rdLess, rdRest⟩
/-- `_render_dashes(length)` from state `st`, as (state, [(is_dash, length)]) -/
def renderDashes (dashes : List Rat) (fuel : Nat) (length : Rat) (st : TwinLoops.LtState) : Option (TwinLoops.LtState × List (Bool × Rat)) :=
  @RENDER@
def lineSegK : TwinLoops.LineSegK := ⟨lsSame, lsLength, lsDir, lsStep⟩
def lineSegment (dashes : List Rat) (fuel : Nat) := TwinLoops.lineSegment lineSegK dashes (renderDashes dashes fuel)
def clockwise := @CW@
"""
    t = t.replace("@TW@", "Pyx" if pyx else "Py")
    t = t.replace("@POINTSUM@", "TwinLoops.pointSumPyx epAccum" if pyx else f"TwinLoops.pointSumPy epTerm {V}.v3add")
    # both twins record the pair (is_dash, length): a generator in Python, a list of tuples in Cython (fix of D15; before it the Cython
    # twin stored `length if is_dash else -length` and read the flag back from the sign bit, see TwinLoops.emitPyx / decodePyx)
    t = t.replace("@RENDER@", "TwinLoops.renderDashes renderK dashes TwinLoops.emitPy fuel length (st, [])")
    t = t.replace("@CW@", "TwinLoops.cwPyx cwClosed cwAccum cwSign" if pyx else "TwinLoops.cwPy cwClosed cwTerm cwSign")
    t += """def derivK : TwinLoops.DerivK := ⟨edWeight, edAccV, edAccW, edSub, edDiv⟩
/-- `Evaluator.derivative(u, n)` with the table of basis function derivatives (A2.3) as parameter `dersFn` -/
def evalDerivative (binom : Nat → Nat → Rat) (dersFn : Int → Rat → Nat → Except PyErr (List (List Rat))) :=
  TwinLoops.evalDerivative edSnap findSpan dersFn (TwinLoops.derivRational derivK binom) (TwinLoops.derivPlain @PLAIN@)
"""
    t = t.replace("@PLAIN@", "(TwinLoops.pointSumPyx edAccum)" if pyx else f"(TwinLoops.pointSumPy edTerm {V}.v3add)")
    if pyx:
        t += "def clockwiseNp := TwinLoops.cwNp npCloseX npCloseY npAccum npSign\n"
    return t


def factorial_table(prog) -> str:
    """`cdef double[19] FACTORIAL = [...]` of bspline.pyx -> Lean list"""
    from fractions import Fraction as Fr
    from translate.py2lean import Unsupported
    node = prog.module(PYX["bspline"]).assigns.get("FACTORIAL")
    if isinstance(node, ast.Call) and ast.unparse(node.func) == "__c_array_copy__" and len(node.args) == 1:
        node = node.args[0]  # pyxprep's form of a C array initialiser
    if not isinstance(node, (ast.List, ast.Tuple)) or not all(isinstance(e, ast.Constant) for e in node.elts):
        raise Unsupported("bspline.pyx: FACTORIAL table not found")
    vals = [Fr(e.value) for e in node.elts]
    return ("/-- the table `FACTORIAL` of bspline.pyx (binomial_coefficient) -/\ndef factorialTable : List Rat := ["
            + ", ".join(str(v.numerator) if v.denominator == 1 else f"({v.numerator} : Rat) / {v.denominator}" for v in vals) + "]\n")


class _Unfloat(ast.NodeTransformer):
    """`float(x)` -> `x`: the pure Python twin converts numpy scalars to Python floats before dividing (so that a zero divisor
    raises ZeroDivisionError as the C division of the Cython twin does); the value is the same double"""

    def visit_Call(self, node):
        self.generic_visit(node)
        if isinstance(node.func, ast.Name) and node.func.id == "float" and len(node.args) == 1 and not node.keywords:
            return node.args[0]
        return node


def _loop_nest_text(fn: ast.FunctionDef, start: str) -> str:
    """normal form of the statements of `fn` from the first statement printing as `start` on (annotations, pass, return dropped)"""
    out, on = [], False
    for st in fn.body:
        if isinstance(st, ast.AnnAssign) and st.value is not None:
            st = ast.Assign(targets=[st.target], value=st.value)
            ast.fix_missing_locations(st)
        st = _Unfloat().visit(copy.deepcopy(st))
        txt = ast.unparse(st)
        if txt.split("\n")[0].strip() == start:
            on = True
        if on and not isinstance(st, (ast.Pass, ast.Return)) and not (isinstance(st, ast.Assign) and ast.unparse(st.targets[0]) in ("al", "au")):
            out.append(txt)
    return "\n".join(out)


def lu_identity(ctx) -> list:
    """banded LU: `_lu_decompose` / `_solve_vector_banded_matrix` of math/linalg.py and the `_cext` functions of np_support.pyx
    must be the same loop nest, text for text (after the C declarations are removed).  -> list of problems"""
    from translate.py2lean_c10 import Program
    from translate.py2lean import find_function
    prog = Program(ctx.src)
    py, cx = prog.module(PY["linalg"]), prog.module(PYX["np_support"])
    out = []
    for fpy, fcx, start in (("_lu_decompose", "_lu_decompose_cext", "mm = m1 + m2 + 1"),
                            ("_solve_vector_banded_matrix", "_solve_vector_banded_matrix_cext", "mm = m1 + m2 + 1")):
        a = _loop_nest_text(find_function(py, fpy).node, start)
        b = _loop_nest_text(find_function(cx, fcx).node, start)
        if not a or a != b:
            import difflib
            d = "\n".join(list(difflib.unified_diff(a.split("\n"), b.split("\n"), fpy, fcx, lineterm="", n=0))[:20])
            out.append(f"{fpy} (linalg.py) and {fcx} (np_support.pyx) are no longer the same loop nest:\n{d}")
    return out


# the rest of A2.3 (the loops over the function index r and the derivative order k with the alternating rows of `a`, the
# scaling loop) is the SAME text in both twins up to these rewrites, each of which preserves the meaning:
DERIV_REWRITES = [
    # (what, python form, cython form) - the cython form is rewritten to the python form before the comparison
    ("three statement swap through a temporary that is not used elsewhere", "s1, s2 = (s2, s1)", "t = s1\ns1 = s2\ns2 = t"),
    ("clamp n to the degree", "n = min(n, p)", "if n > p:\n    n = p"),
    ("the scaling factor is the C double `rr` (initialised from the int p) / the Python float `r = float(p)`", "r = float(p)", "rr = p"),
    ("same, uses", "derivatives[k][j] *= r", "derivatives[k][j] *= rr"),
    ("same, update", "r *= p - k", "rr *= p - k"),
    ("attribute name of the order", "order = self._order", "order = self.order"),
    ("arrays filled with 1.0 / 0.0: Python lists of `order` cells, C arrays of MAX_SPLINE_ORDER cells of which the loops touch the first `order`",
     "left = [1.0] * order\nright = [1.0] * order\nndu = [[1.0] * order for _ in range(order)]",
     "reset_double_array(left, order, 1.0)\nreset_double_array(right, order, 1.0)\nreset_double_array(ndu, MAX_SPLINE_ORDER * MAX_SPLINE_ORDER, 1.0)"),
    ("same", "derivatives = [[0.0] * order for _ in range(order)]", "reset_double_array(derivatives, MAX_SPLINE_ORDER * MAX_SPLINE_ORDER, 0.0)"),
    ("same", "a = [[1.0] * order, [1.0] * order]", "reset_double_array(a, 2 * MAX_SPLINE_ORDER, 1.0)"),
    ("the clamped index is computed by KERNEL_bdIndex inside the subscript (Python) / in two statements before it (Cython)", "", "KERNEL_bdIndex\n"),
    ("rows 0..n of the first `order` columns: a slice of the list of lists / copied cell by cell out of the C array",
     "return derivatives[:n + 1]",
     "result = []\nfor k in range(0, n + 1):\n    row = []\n    result.append(row)\n    for j in range(order):\n        row.append(derivatives[k][j])\nreturn result"),
]


def _dedent_lines(text: str) -> list:
    return [ln.strip() for ln in text.split("\n")]


def deriv_identity(skeletons: dict) -> list:
    a = skeletons.get(PY["bspline"] + "::Basis.basis_funcs_derivatives")
    b = skeletons.get(PYX["bspline"] + "::Basis.basis_funcs_derivatives")
    if a is None or b is None:
        return ["basis_funcs_derivatives: skeleton missing"]
    # compare the indentation-free line sequences (the block structure is fixed by the pinned skeletons themselves)
    la, lb = "\n".join(_dedent_lines(a)), "\n".join(_dedent_lines(b))
    for what, pyform, cxform in DERIV_REWRITES:
        cx = "\n".join(_dedent_lines(cxform))
        if cx not in lb:
            return [f"basis_funcs_derivatives (Cython): expected text not found ({what}): {cxform!r}"]
        lb = lb.replace(cx, "\n".join(_dedent_lines(pyform)), 1)
    la = [x for x in la.split("\n") if x]
    lb = [x for x in lb.split("\n") if x]
    if la != lb:
        import difflib
        d = "\n".join(list(difflib.unified_diff(la, lb, "python", "cython after the declared rewrites", lineterm="", n=0))[:20])
        return ["Basis.basis_funcs_derivatives: the two twins are no longer the same loops up to the declared rewrites:\n" + d]
    return []


# ================================================================================================ earcut: text identity
EARCUT_PY, EARCUT_PYX = "src/ezdxf/math/_mapbox_earcut.py", "src/ezdxf/acc/mapbox_earcut.pyx"
# token level rewrites applied to the Cython text (C library names of the same IEEE operations, the `equals` method that
# stands for Node.__eq__, a parameter renamed because `by` is a Cython keyword)
EARCUT_TOKENS = [(r"([A-Za-z_][\w.]*)\.equals\(([^()]+)\)", r"\1 == \2"), (r"\bfmin\(", "min("), (r"\bfmax\(", "max("), (r"\bfabs\(", "abs("),
                 (r"\bINFINITY\b", "math.inf"), (r"\bby_\b", "by")]
# functions that are NOT the same text after the token rewrites; their unified diff is pinned (any change of it is reported)
EARCUT_DIFFERENT = {
    "is_ear": "local copies ax..cy and 3-argument min/max (Python) vs nested fmin/fmax on the attributes (Cython)",
    "is_ear_hashed": "same as is_ear",
    "signed_area": "Cython keeps prev/point coordinates in C doubles (the term itself is proved equal in C19: signedAreaTerm)",
    "earcut": "order of the setup statements; `if not exterior` / `if holes` vs `len(holes) > 0`",
    "eliminate_holes": "sort key: lambda (x, y) vs module function node_key",
    "find_hole_bridge": "place of the initialisation `m = None`",
    "remove_node": "`if p.prev_z:` (a Node is always truthy) vs `is not None`",
    "z_order": "bit operations: outside pyxprep, lines blanked before the comparison (z-order hashing only orders the search)",
}


def earcut_identity(ctx) -> tuple:
    """-> (problems, {key: pinned text}) : every top level function of the two earcut modules must be the same text after
    EARCUT_TOKENS, except the ones listed in EARCUT_DIFFERENT whose diff is pinned"""
    import difflib
    import re
    from translate import pyxprep
    from translate.py2lean_c10 import Cut
    text = ctx.src(EARCUT_PYX)
    lines = []
    for ln in text.split("\n"):
        if re.search(r"[^a-z]&[^&]|<<|\| \(", ln) and "=" in ln and not ln.strip().startswith("#"):
            lines.append(" " * (len(ln) - len(ln.lstrip())) + "pass")  # z_order's bit operations
        else:
            lines.append(ln)
    try:
        cx = ast.parse(pyxprep.preprocess("\n".join(lines)))
    except (pyxprep.PyxError, SyntaxError) as e:
        return [f"{EARCUT_PYX}: pre-pass failed: {e}"], {}
    py = ast.parse(ctx.src(EARCUT_PY))

    def norm(fn, tokens=False):
        c = Cut.__new__(Cut)
        c.fn, c.kernels = fn, []
        t = "\n".join(ln for ln in c.skeleton().split("\n") if not re.fullmatch(r"\s*\w+: \w+", ln))
        if tokens:
            for a, b in EARCUT_TOKENS:
                t = re.sub(a, b, t)
        return t

    fa = {n.name: n for n in py.body if isinstance(n, ast.FunctionDef)}
    fb = {n.name: n for n in cx.body if isinstance(n, ast.FunctionDef)}
    problems, pins, same = [], {}, []
    for k in sorted(set(fa) | set(fb)):
        if k not in fa or k not in fb:
            if k != "node_key":
                problems.append(f"earcut: function {k} exists only in the {'Python' if k in fa else 'Cython'} twin")
            continue
        a, b = norm(fa[k]), norm(fb[k], tokens=True)
        if a == b:
            same.append(k)
        elif k in EARCUT_DIFFERENT:
            pins[f"earcut-diff::{k}"] = "\n".join(difflib.unified_diff(a.split("\n"), b.split("\n"), "python", "cython", lineterm="", n=0))
        else:
            d = "\n".join(list(difflib.unified_diff(a.split("\n"), b.split("\n"), "python", "cython", lineterm="", n=0))[:16])
            problems.append(f"earcut: {k} is no longer the same text in both twins:\n{d}")
    # the rewrite `a.equals(b)` -> `a == b` is justified by the bodies of Node.equals (Cython) and Node.__eq__ (Python) being the same text
    def method(tree, cls, name):
        for n in tree.body:
            if isinstance(n, ast.ClassDef) and n.name == cls:
                for m in n.body:
                    if isinstance(m, ast.FunctionDef) and m.name == name:
                        return "\n".join(ast.unparse(st) for st in m.body if not isinstance(st, ast.Pass))
        return None
    eq_py, eq_cx = method(py, "Node", "__eq__"), method(cx, "Node", "equals")
    if eq_py is None or eq_py != eq_cx:
        problems.append(f"earcut: Node.__eq__ (Python) and Node.equals (Cython) differ: {eq_py!r} / {eq_cx!r}")
    pins["earcut-same"] = " ".join(same)
    return problems, pins


def regenerate_loops(ctx, pin: bool = False):
    """-> (skeletons, problems); problems = [(suspect, one-line summary + diff)], suspect = 'Class.method' / 'module.function' name that
    the differential oracle uses to search for a concrete failing input.  Nothing is raised for a changed pinned text: a broken
    obligation is reported together with the result of that search (props/c10.py)."""
    from translate.py2lean import lean_file, Unsupported
    from translate.py2lean_c10 import check_skeletons
    skeletons, problems = {}, []
    for twin, suffix in (("py", "Py"), ("pyx", "Pyx")):
        try:
            defs, skel, prog = build(ctx, twin)
        except Unsupported as e:  # a cut no longer finds its statements: the function changed
            msg = str(e)
            problems.append((_suspect_of(msg), f"cut failed in the {twin} twin (source changed): {msg}"))
            continue
        skeletons.update(skel)
        srcs = sorted(set((PYX if twin == "pyx" else PY).values())) + (PXD if twin == "pyx" else [])
        extra = "".join(d.sqrt_wrapper() + "\n" for d in defs if d.sqrt_params) + _inst(twin) + (factorial_table(prog) if twin == "pyx" else "")
        text = lean_file(f"EzdxfVerif.Gen.TwinLoops{suffix}", defs,
                         imports=("EzdxfVerif.Model.Rat3", "EzdxfVerif.Model.TwinLoops", f"EzdxfVerif.Gen.Vector{suffix}"),
                         opens=("EzdxfVerif.Rat3", "EzdxfVerif"), extra=extra)
        ctx.write_gen(f"TwinLoops{suffix}", text, srcs)
    eproblems, epins = earcut_identity(ctx)
    skeletons.update(epins)
    if len([1 for _, m in problems if m.startswith("cut failed")]) == 0 or pin:
        texts = check_skeletons(skeletons, PINNED, write=pin)
    else:  # compare only what could be built
        texts = [t for t in check_skeletons(skeletons, PINNED) if not t.endswith("no longer cut")]
    texts += eproblems + lu_identity(ctx) + deriv_identity(skeletons)
    problems += [(_suspect_of(t), t) for t in texts]
    return skeletons, problems


def _suspect_of(msg: str) -> str:
    """name of the API function a problem text is about (used to pick the targeted search)"""
    import re
    head = msg.split("\n")[0]
    m = re.search(r"::([A-Za-z_][\w.]*)", head) or re.search(r"\.pyx?: ([A-Za-z_][\w.]*)", head) or re.search(r"earcut-diff::(\w+)", head) \
        or re.search(r"earcut: (\w+) ", head) or re.search(r"^(_?\w+) \(", head)
    name = m.group(1) if m else head[:60]
    if "earcut" in head:
        return "mapbox_earcut." + name.split(".")[-1]
    return name


# ================================================================================================ correspondence X3
def _fr(x):
    from props import c11
    return c11.fr(x)


def _frs(xs):
    from props import c11
    return c11.frs(xs)


def impl_loop(im, k: str, a: list) -> str:
    """one loop level function on the real code (`im` = props.c10.Impl of one twin)"""
    import numpy as np
    from fractions import Fraction as Fr
    from props import c11
    pl = c11.parse_list
    f = lambda s: float(Fr(s))
    try:
        if k == "findSpan":
            knots, order, count = pl(a[0]), int(a[1]), int(a[2])
            return f"ok {im.Basis(knots, order, count).find_span(f(a[3]))}"
        if k == "basisFuncs":
            knots, w, order = pl(a[0]), pl(a[1]), int(a[2])
            b = im.Basis(knots, order, len(knots) - order, w or None)
            return c11._ok(b.basis_funcs(int(a[3]), f(a[4])))
        if k == "basisVector":
            knots, w, order, count = pl(a[0]), pl(a[1]), int(a[2]), int(a[3])
            return c11._ok(im.Basis(knots, order, count, w or None).basis_vector(f(a[4])))
        if k == "evalPoint":
            knots, w, order = pl(a[0]), pl(a[1]), int(a[2])
            cps = [im.V3(*pl(s)) for s in a[3].split(";")]
            b = im.Basis(knots, order, len(cps), w or None)
            return c11._ok(im.Evaluator(b, cps).point(f(a[4])))
        if k == "evalDerivative":
            knots, w, order = pl(a[0]), pl(a[1]), int(a[2])
            cps = [im.V3(*pl(s)) for s in a[3].split(";")]
            b = im.Basis(knots, order, len(cps), w or None)
            r = im.Evaluator(b, cps).derivative(f(a[4]), int(a[5]))
            return c11._ok([c for v in r for c in v], f"{len(r)};")
        if k == "lineSegments":
            r = im.LTR(pl(a[0]))
            counts, vals = [], []
            for seg in a[1].split(";"):
                s, e = seg.split(">")
                out = list(r.line_segment(im.V3(*pl(s)), im.V3(*pl(e))))
                counts.append(len(out))
                vals += [c for p, q in out for c in list(p) + list(q)]
            return c11._ok(vals, ",".join(map(str, counts)) + ";")
        if k == "clockwise":
            return "ok " + c11._b(im.construct.has_clockwise_orientation([im.V2(*pl(s)) for s in a[0].split(";")] if a[0] else []))
        if k == "clockwiseNp":
            from ezdxf.acc import np_support
            arr = np.array([pl(s) for s in a[0].split(";")] if a[0] else [], dtype=np.float64).reshape(-1, 2)
            return "ok " + c11._b(np_support.has_clockwise_orientation(arr))
        raise KeyError(k)
    except ZeroDivisionError:
        return "err ZeroDivisionError"
    except (TypeError, ValueError, IndexError) as e:
        return "err " + type(e).__name__


def _dy(r, den=4, lo=-8, hi=8):
    from fractions import Fraction as Fr
    return Fr(r.randint(lo * den, hi * den), den)


def loop_cases(ctx, twin: str, im=None):
    """yield (mode, kernel, args, tol, nontrivial); all inputs dyadic"""
    from fractions import Fraction as Fr
    r = ctx.rng(f"loops/{twin}")
    tol = "rel:1/1099511627776:1"  # 2^-40 relative to max(|value|, 1)
    for _ in range(ctx.n(120, 1500)):
        order = r.choice([2, 3, 4, 4, 5, 6])
        count = r.randint(max(order, 2), order + 5)
        n = order + count
        kind = r.choice(["clamped", "clamped", "uniform", "shifted", "weird", "negative"])
        if kind == "clamped":
            inner = sorted(_dy(r, 4, 0, 4) if r.random() < 0.6 else Fr(r.choice([1, 2, 2, 3])) for _ in range(n - 2 * order))
            knots = [Fr(0)] * order + inner + [Fr(4)] * order
        elif kind == "uniform":
            knots = [Fr(i) for i in range(n)]
        elif kind == "shifted":
            knots = [Fr(i) + Fr(5, 2) for i in range(n)]
        elif kind == "negative":
            knots = sorted(_dy(r, 2, -6, 0) for _ in range(n))
        else:
            knots = sorted(Fr(r.choice([0, 1, 1, 2, 3])) for _ in range(n))
        lo, hi = knots[order - 1], knots[count]
        us = [lo, hi, (lo + hi) / 2, knots[r.randrange(n)], lo + (hi - lo) * Fr(r.randint(0, 64), 64), lo - 1, hi + Fr(1, 2), knots[0], knots[-1]]
        u = r.choice(us)
        ks = _frs(knots)
        yield "x", "findSpan", [ks, str(order), str(count), _fr(u)], None, lo <= u <= hi
        weights = [] if r.random() < 0.6 else [Fr(r.choice([1, 2, 3, 1, 1])) / r.choice([1, 2, 4]) for _ in range(count)]
        if r.random() < 0.15 and weights:
            weights = [w * r.choice([1, -1]) for w in weights]  # the weighted sum may vanish: the zero branch of span_weighting
        ws = _frs(weights)
        # any span whose cells exist (also spans that do not contain u: the loop is the same)
        span = r.randint(order - 1, count - 1)
        yield "t", "basisFuncs", [ks, ws, str(order), str(span), _fr(u)], tol, True
        yield "t", "basisVector", [ks, ws, str(order), str(count), _fr(u)], tol, lo <= u <= hi
        cps = [tuple(_dy(r, 4) for _ in range(3)) for _ in range(count)]
        if u != knots[-1] and abs(u - knots[-1]) < Fr(1, 1000):
            continue
        yield "t", "evalPoint", [ks, ws, str(order), ";".join(_frs(p) for p in cps), _fr(u)], "rel:1/1099511627776:8", lo <= u <= hi
        # Evaluator.derivative: the table of basis function derivatives comes from the twin under test (A2.3 is not modelled in Lean)
        n_der = r.choice([1, 2, 3])
        try:
            b = im.Basis([float(x) for x in knots], order, count, [float(x) for x in weights] or None)
            uu = float(u)
            table = b.basis_funcs_derivatives(b.find_span(uu), uu, n_der)
        except (ZeroDivisionError, IndexError, ValueError):
            continue
        ders = ";".join(_frs(Fr(x) for x in row) for row in table)
        yield "t", "evalDerivative", [ks, ws, str(order), ";".join(_frs(p) for p in cps), _fr(u), str(n_der), ders], "rel:1/68719476736:64", lo <= u <= hi
    for _ in range(ctx.n(150, 2000)):
        m = r.choice([0, 1, 2, 2, 3, 4, 4, 5, 6])
        dashes = [Fr(r.choice([0, 1, 2, 3, 4, 6, 8]), 8) if i % 2 == 0 else Fr(r.choice([1, 2, 4, 0, 3]), 8) for i in range(m)]
        if m >= 2 and sum(dashes) < Fr(1, 8):
            continue
        segs, p = [], (Fr(0), Fr(0), Fr(0))
        for _ in range(r.randint(1, 4)):
            ax = r.randrange(3)
            step = r.choice([Fr(r.randint(0, 40), 8), sum(dashes) * r.randint(0, 3) if dashes else Fr(1), dashes[r.randrange(m)] if m else Fr(1, 2)])
            step *= r.choice([1, 1, -1])
            q = tuple(p[i] + (step if i == ax else 0) for i in range(3))
            segs.append(_frs(p) + ">" + _frs(q))
            p = q
        yield "x", "lineSegments", [_frs(dashes), ";".join(segs)], None, m >= 2
    for _ in range(ctx.n(150, 2000)):
        m = r.choice([0, 2, 3, 3, 4, 5, 6, 8, 12])
        pts = [(_dy(r, 2, -6, 6), _dy(r, 2, -6, 6)) for _ in range(m)]
        c = r.random()
        if m >= 3 and c < 0.3:
            pts.append(pts[0])  # closed
        elif m >= 3 and c < 0.4:
            dx, dy = _dy(r, 2, -2, 2), _dy(r, 2, -2, 2)
            pts = [(i * dx, i * dy) for i in range(m)]  # zero area
        arg = ";".join(_frs(p) for p in pts)
        yield "x", "clockwise", [arg], None, m >= 3
        if twin == "pyx" and m > 0:
            yield "x", "clockwiseNp", [arg], None, m >= 3


def correspond_loops(ctx, Impl, twins, driver_deps):
    exact, tolerant = [], []
    for t in twins:
        im = Impl(t)
        for mode, k, a, tol, nt in loop_cases(ctx, t, im):
            val = impl_loop(im, k, a)
            ctx.hist("X3/X4 loops by kernel", f"{t}:{k}")
            if val.startswith("err"):
                ctx.hist("X3/X4 loops by kernel", "result:" + val)
            if mode == "x":
                exact.append((f"x|{t}|{k}|" + "|".join(a), val, nt))
            else:
                tolerant.append((f"t|{t}|{k}|" + "|".join(a) + f"|{val}|{tol}", "agree", nt))
    ctx.correspond("X3 loops (skeleton + translated bodies vs both twins), exact", "C10", exact, build=driver_deps)
    ctx.correspond("X4 loops (skeleton + translated bodies vs both twins), tolerant", "C10", tolerant, build=driver_deps)

"""C10, session 3: the loops of the accelerated twins (B-spline Basis/Evaluator, line type renderer, clockwise test of
construct / np_support, banded LU).

regenerate_loops(ctx) cuts every arithmetic statement and every test out of the loops of BOTH twins
(harness/translate/py2lean_c10.py), translates the cuts with the unchanged py2lean into
Gen/TwinLoopsPy.lean / Gen/TwinLoopsPyx.lean, and compares what remains of each function (the loop skeleton) with the
pinned text the hand written skeletons of Model/TwinLoops.lean were written for (harness/props/c10_skeletons.json).
For the banded LU both twins are the same loop nest: their skeletons are compared with each other, text for text.
"""
from __future__ import annotations

import ast
import copy
import os

HERE = os.path.dirname(os.path.abspath(__file__))
PINNED = os.path.join(HERE, "c10_skeletons.json")

PY = {"bspline": "src/ezdxf/math/_bspline.py", "linetypes": "src/ezdxf/render/_linetypes.py", "construct": "src/ezdxf/math/_construct.py",
      "vector": "src/ezdxf/math/_vector.py", "linalg": "src/ezdxf/math/linalg.py"}
PYX = {"bspline": "src/ezdxf/acc/bspline.pyx", "linetypes": "src/ezdxf/acc/linetypes.pyx", "construct": "src/ezdxf/acc/construct.pyx",
       "vector": "src/ezdxf/acc/vector.pyx", "np_support": "src/ezdxf/acc/np_support.pyx"}
PXD = ["src/ezdxf/acc/vector.pxd", "src/ezdxf/acc/constants.h"]

R, V3, V2, B = "rat", "v3", "v2", "bool"


def _bisect_path() -> str:
    import bisect
    return bisect.__file__


def build(ctx, twin: str):
    """-> (defs: [LeanDef], skeletons: {key: text}, sources: [path])"""
    from translate.py2lean_c10 import Cut, Program

    pyx = twin == "pyx"
    SRC = PYX if pyx else PY
    stdlib = _bisect_path()
    def read(p):
        if p.startswith("/"):
            return open(p).read()
        return earcut_pyx_text(ctx) if p == EARCUT_PYX else ctx.src(p)
    prog = Program(read)
    prog.link("ezdxf.math", [SRC["vector"], "src/ezdxf/acc/matrix44.pyx" if pyx else "src/ezdxf/math/_matrix44.py"])
    prog.link("ezdxf.math._vector", [SRC["vector"]])
    defs, skel = [], {}

    def done(c: "Cut", key=None):
        skel[(key or f"{c.path}::{c.qualname}")] = c.skeleton()

    # ------------------------------------------------------------------------------------------ Basis.find_span
    c = Cut(prog, SRC["bspline"], "Basis.find_span")
    defs.append(c.kernel("fsSpecial", c.node(ast.If, "u >= knots[count]").test, [("u", R), ("k_count", R)], scalar={"knots[count]": "k_count"}))
    defs.append(c.kernel("fsBack", c.loop("while span > p and knots[span] >= knots[count]").test,
                         [("span", R), ("p", R), ("k_span", R), ("k_count", R)], scalar={"knots[span]": "k_span", "knots[count]": "k_count"}))
    defs.append(c.kernel("fsUseBisect", c.node(ast.If, "knots[p] == 0.0").test, [("k_p", R)], scalar={"knots[p]": "k_p"}))
    defs.append(c.kernel("fsLinear", c.loop("while knots[span] <= u and span < count").test,
                         [("k_span", R), ("u", R), ("span", R), ("count", R)], scalar={"knots[span]": "k_span"}))
    done(c)
    # bisect_right: hand rolled in bspline.pyx, Lib/bisect.py for the pure Python twin (the C accelerator _bisect is trusted to
    # be that function)
    if pyx:
        c = Cut(prog, SRC["bspline"], "bisect_right")
        defs.append(c.kernel("bisectLess", c.node(ast.If, "x < a[mid]").test, [("x", R), ("a_mid", R)], scalar={"a[mid]": "a_mid"}))
        done(c)
    else:
        c = Cut(prog, stdlib, "bisect_right")
        loop = c.loop("while lo < hi")
        defs.append(c.kernel("bisectLess", c.node(ast.If, "x < a[mid]", within=loop).test, [("x", R), ("a_mid", R)], scalar={"a[mid]": "a_mid"}))
        fn = ast.FunctionDef(name="bisect_right_keyless_loop", args=ast.arguments(posonlyargs=[], args=[], kwonlyargs=[], kw_defaults=[], defaults=[]),
                             body=[loop], decorator_list=[], type_params=[])
        c.fn = ast.fix_missing_locations(fn)
        done(c, "Lib/bisect.py::bisect_right[key is None]")

    # ------------------------------------------------------------------------------------------ Basis.basis_funcs
    c = Cut(prog, SRC["bspline"], "Basis.basis_funcs")
    if pyx:
        defs.append(c.kernel("bfIndex", c.stmts("i1 = span + 1 - j", 2), [("span", R), ("j", R)], returns=["i1"]))
        kcell = "knots[i1]"
    else:
        defs.append(c.kernel("bfIndex", c.node(ast.Call, "max(0, span + 1 - j)"), [("span", R), ("j", R)]))
        kcell = "knots[KERNEL_bfIndex]"  # (printed after the cut above) - the cell is named by its source text:
        kcell = "knots[max(0, span + 1 - j)]"
    defs.append(c.kernel("bfLeft", c.node(ast.Assign, "left[j] =").value, [("u", R), ("k_i", R)], scalar={kcell: "k_i"}))
    defs.append(c.kernel("bfRight", c.node(ast.Assign, "right[j] =").value, [("u", R), ("k_sj", R)], scalar={"knots[span + j]": "k_sj"}))
    defs.append(c.kernel("bfInner", c.loop("for r in range(j)").body, [("N_r", R), ("right_r1", R), ("left_jr", R), ("saved", R)],
                         returns=["N_r", "saved"], scalar={"N[r]": "N_r", "right[r + 1]": "right_r1", "left[j - r]": "left_jr"}))
    done(c)

    # ------------------------------------------------------------------------------------------ Basis.span_weighting
    c = Cut(prog, SRC["bspline"], "Basis.span_weighting")
    defs.append(c.kernel("swProduct", c.node(ast.BinOp, "nb * w"), [("nb", R), ("w", R)]))
    defs.append(c.kernel("swQuot", c.node(ast.BinOp, "p / s"), [("p", R), ("s", R)]))
    defs.append(c.kernel("swTest", (c.node(ast.If, "s != 0") if pyx else c.node(ast.IfExp, "s == 0.0")).test, [("s", R)]))
    done(c)
    c = Cut(prog, SRC["bspline"], "Basis.basis_vector")
    done(c)

    # ------------------------------------------------------------------------------------------ Basis.basis_funcs_derivatives (A2.3)
    c = Cut(prog, SRC["bspline"], "Basis.basis_funcs_derivatives")
    if pyx:
        defs.append(c.kernel("bdIndex", c.stmts("i1 = span + 1 - j", 2), [("span", R), ("j", R)], returns=["i1"]))
        kcell = "knots[i1]"
    else:
        defs.append(c.kernel("bdIndex", c.node(ast.Call, "max(0, span + 1 - j)"), [("span", R), ("j", R)]))
        kcell = "knots[max(0, span + 1 - j)]"
    defs.append(c.kernel("bdLeft", c.node(ast.Assign, "left[j] =").value, [("u", R), ("k_i", R)], scalar={kcell: "k_i"}))
    defs.append(c.kernel("bdRight", c.node(ast.Assign, "right[j] =").value, [("u", R), ("k_sj", R)], scalar={"knots[span + j]": "k_sj"}))
    defs.append(c.kernel("bdInner", c.loop("for r in range(j)").body, [("right_r1", R), ("left_jr", R), ("ndu_rj1", R), ("saved", R)],
                         returns=["ndu_jr", "ndu_rj", "saved"],
                         scalar={"ndu[j][r]": "ndu_jr", "right[r + 1]": "right_r1", "left[j - r]": "left_jr", "ndu[r][j - 1]": "ndu_rj1", "ndu[r][j]": "ndu_rj"}))
    # the loops over the function index r and the derivative order k (alternating rows s1 / s2 of `a`), the scaling loop
    defs.append(c.kernel("bdA0", c.node(ast.Assign, "a[s2][0] = a[s1][0] / ndu[pk + 1][rk]").value, [("a_s1_0", R), ("ndu_x", R)],
                         scalar={"a[s1][0]": "a_s1_0", "ndu[pk + 1][rk]": "ndu_x"}))
    defs.append(c.kernel("bdD0", c.node(ast.Assign, "d = a[s2][0] * ndu[rk][pk]").value, [("a_s2_0", R), ("ndu_y", R)],
                         scalar={"a[s2][0]": "a_s2_0", "ndu[rk][pk]": "ndu_y"}))
    defs.append(c.kernel("bdAj", c.node(ast.Assign, "a[s2][j] = (a[s1][j] - a[s1][j - 1]) / ndu[pk + 1][rk + j]").value, [("a_j", R), ("a_j1", R), ("ndu_x", R)],
                         scalar={"a[s1][j]": "a_j", "a[s1][j - 1]": "a_j1", "ndu[pk + 1][rk + j]": "ndu_x"}))
    defs.append(c.kernel("bdDj", c.stmts("d += a[s2][j] * ndu[rk + j][pk]", 1), [("d", R), ("a_s2_j", R), ("ndu_y", R)], returns=["d"],
                         scalar={"a[s2][j]": "a_s2_j", "ndu[rk + j][pk]": "ndu_y"}))
    defs.append(c.kernel("bdAk", c.node(ast.Assign, "a[s2][k] = -a[s1][k - 1] / ndu[pk + 1][r]").value, [("a_k1", R), ("ndu_x", R)],
                         scalar={"a[s1][k - 1]": "a_k1", "ndu[pk + 1][r]": "ndu_x"}))
    defs.append(c.kernel("bdDk", c.stmts("d += a[s2][k] * ndu[r][pk]", 1), [("d", R), ("a_s2_k", R), ("ndu_y", R)], returns=["d"],
                         scalar={"a[s2][k]": "a_s2_k", "ndu[r][pk]": "ndu_y"}))
    rn = "rr" if pyx else "r"
    defs.append(c.kernel("bdScale", c.stmts(f"derivatives[k][j] *= {rn}", 1), [("x", R), (rn, R, "r")], returns=["x"], scalar={"derivatives[k][j]": "x"}))
    defs.append(c.kernel("bdNext", c.stmts(f"{rn} *= p - k", 1), [(rn, R, "r"), ("p", R), ("k", R)], returns=[rn]))
    done(c)

    # ------------------------------------------------------------------------------------------ Evaluator.point / derivative
    c = Cut(prog, SRC["bspline"], "Evaluator.point")
    defs.append(c.kernel("epSnap", c.node(ast.If, "isclose(u, basis.max_t").test, [("u", R), ("max_t", R)], scalar={"basis.max_t": "max_t"}))
    cells = {"N[i]": "n_i", "control_points[span - p + i]": "cp"}
    if pyx:
        defs.append(c.kernel("epAccum", c.loop("for i in range(p + 1)").body, [("v3_sum", V3, "acc"), ("n_i", R), ("cp", V3)], returns=["v3_sum"], scalar=cells))
    else:
        defs.append(c.kernel("epTerm", c.node(ast.BinOp, "N[i] * control_points[span - p + i]"), [("n_i", R), ("cp", V3)], scalar=cells))
    done(c)

    c = Cut(prog, SRC["bspline"], "Evaluator.derivative")
    defs.append(c.kernel("edSnap", c.node(ast.If, "isclose(u, basis.max_t").test, [("u", R), ("max_t", R)], scalar={"basis.max_t": "max_t"}))
    if pyx:
        rat = c.node(ast.If, "basis.is_rational")
        l1 = c.loop("for j in range(p + 1)", 0, within=rat)
        defs.append(c.kernel("edWeight", c.node(ast.Assign, "bas_func_weight = basis_funcs_ders[k][j] * weights[i]", within=l1).value, [("d_kj", R), ("w_i", R)],
                             scalar={"basis_funcs_ders[k][j]": "d_kj", "weights[i]": "w_i"}))
        defs.append(c.kernel("edAccV", c.stmts("cpoint = control_points[i]", 4, within=l1), [("v3_sum", V3, "acc"), ("cp", V3), ("bas_func_weight", R, "bw")],
                             returns=["v3_sum"], scalar={"control_points[i]": "cp"}))
        defs.append(c.kernel("edAccW", c.stmts("wder += bas_func_weight", 1, within=l1), [("wder", R), ("bas_func_weight", R, "bw")], returns=["wder"]))
        l2 = c.loop("for j in range(1, k + 1)", 0, within=rat)
        defs.append(c.kernel("edSub", l2.body, [("v3_sum", V3, "acc"), ("binom", R), ("wd_j", R), ("ck", V3)], returns=["v3_sum"],
                             scalar={"binomial_coefficient(k, j)": "binom", "wders[j]": "wd_j", "CK[k - j]": "ck"}))
        defs.append(c.kernel("edDiv", c.node(ast.BinOp, "v3_sum / wders[0]"), [("v3_sum", V3, "acc"), ("wd_0", R)], scalar={"wders[0]": "wd_0"}))
        l3 = c.loop("for j in range(p + 1)", 1)
        defs.append(c.kernel("edAccum", l3.body, [("v3_sum", V3, "acc"), ("d_kj", R), ("cp", V3)], returns=["v3_sum"],
                             scalar={"basis_funcs_ders[k][j]": "d_kj", "control_points[span - p + j]": "cp"}))
    else:
        l1 = c.loop("for j in range(p + 1)")
        defs.append(c.kernel("edWeight", c.node(ast.Assign, "bas_func_weight = basis_funcs_ders[k][j] * weights[index]", within=l1).value, [("d_kj", R), ("w_i", R)],
                             scalar={"basis_funcs_ders[k][j]": "d_kj", "weights[index]": "w_i"}))
        defs.append(c.kernel("edAccV", c.stmts("v += control_points[index] * bas_func_weight", 1, within=l1), [("v", V3, "acc"), ("cp", V3), ("bas_func_weight", R, "bw")],
                             returns=["v"], scalar={"control_points[index]": "cp"}))
        defs.append(c.kernel("edAccW", c.stmts("wder += bas_func_weight", 1, within=l1), [("wder", R), ("bas_func_weight", R, "bw")], returns=["wder"]))
        l2 = c.loop("for i in range(1, k + 1)")
        defs.append(c.kernel("edSub", l2.body, [("v", V3, "acc"), ("binom", R), ("wd_j", R), ("ck", V3)], returns=["v"],
                             scalar={"binomial_coefficient(k, i)": "binom", "wders[i]": "wd_j", "CK[k - i]": "ck"}))
        defs.append(c.kernel("edDiv", c.node(ast.BinOp, "v / wders[0]"), [("v", V3, "acc"), ("wd_0", R)], scalar={"wders[0]": "wd_0"}))
        defs.append(c.kernel("edTerm", c.node(ast.BinOp, "basis_funcs_ders[k][j] * control_points[span - p + j]"), [("d_kj", R), ("cp", V3)],
                             scalar={"basis_funcs_ders[k][j]": "d_kj", "control_points[span - p + j]": "cp"}))
    done(c)

    # ------------------------------------------------------------------------------------------ _LineTypeRenderer
    LT = "_LineTypeRenderer"
    cdl = "self.current_dash_length" if pyx else "self._current_dash_length"
    c = Cut(prog, SRC["linetypes"], LT + "._render_dashes")
    defs.append(c.kernel("rdFits", c.test("length <= " + cdl), [("length", R), ("cdl", R)], scalar={cdl: "cdl"}))
    defs.append(c.kernel("rdRemain", c.stmts(cdl + " -= length", 1), [("cdl", R), ("length", R)], returns=["cdl"], scalar={cdl: "cdl"}))
    defs.append(c.kernel("rdCycleTest", c.test(cdl + " < ABS_TOL"), [("cdl", R)], scalar={cdl: "cdl"}))
    lp = c.loop("while length > " + cdl)
    defs.append(c.kernel("rdMore", lp.test, [("length", R), ("cdl", R)], scalar={cdl: "cdl"}))
    defs.append(c.kernel("rdLess", c.stmts("length -= " + cdl, 1, within=lp), [("length", R), ("cdl", R)], returns=["length"], scalar={cdl: "cdl"}))
    defs.append(c.kernel("rdRest", c.test("length > 0.0"), [("length", R)]))
    done(c)
    c = Cut(prog, SRC["linetypes"], LT + "._cycle_dashes")
    done(c)
    c = Cut(prog, SRC["linetypes"], LT + ".__init__")
    done(c)
    c = Cut(prog, SRC["linetypes"], LT + ".line_segment")
    s0, e0 = ("v3_start", "v3_end") if pyx else ("_start", "_end")
    test = c.node(ast.If, "isclose").test
    defs.append(c.kernel("lsSame", test.values[1], [(s0, V3, "a"), (e0, V3, "b")]))
    first = "segment_vec = v3_sub(v3_end, v3_start)" if pyx else "segment_vec = _end - _start"
    defs.append(c.kernel("lsLength", c.stmts(first, 2), [(s0, V3, "a"), (e0, V3, "b")], returns=["segment_length"]))
    defs.append(c.kernel("lsDir", c.stmts(first, 3), [(s0, V3, "a"), (e0, V3, "b")], returns=["segment_dir"]))
    lp = c.loop("for (is_dash, dash_length) in dashes") if pyx else c.loop("for (is_dash, dash_length) in self._render_dashes(segment_length)")
    step = c.node(ast.Assign, e0 + " =", within=lp).value
    defs.append(c.kernel("lsStep", step, [(s0, V3, "a"), ("segment_dir", V3, "dir"), ("dash_length", R, "mag")]))
    done(c)

    # ------------------------------------------------------------------------------------------ has_clockwise_orientation
    c = Cut(prog, SRC["construct"], "has_clockwise_orientation")
    if pyx:
        defs.append(c.kernel("cwClosed", c.node(ast.Call, "v2_isclose(p1, p2"), [("p1", V2, "a"), ("p2", V2, "b")]))
        defs.append(c.kernel("cwAccum", c.stmts("s += (p2.x - p1.x) * (p2.y + p1.y)", 1), [("s", R), ("p1", V2, "a"), ("p2", V2, "b")], returns=["s"]))
        defs.append(c.kernel("cwSign", c.node(ast.Compare, "s > 0.0"), [("s", R)]))
    else:
        defs.append(c.kernel("cwClosed", c.node(ast.Call, "vertices[0].isclose(vertices[-1])"), [("p1", V2, "a"), ("p2", V2, "b")],
                             scalar={"vertices[0]": "p1", "vertices[-1]": "p2"}))
        defs.append(c.kernel("cwTerm", c.node(ast.BinOp, "(p2.x - p1.x) * (p2.y + p1.y)"), [("p1", V2, "a"), ("p2", V2, "b")]))
        cmp_ = c.node(ast.Compare, "> 0.0")
        defs.append(c.kernel("cwSign", cmp_, [("s", R)], scalar={ast.unparse(cmp_.left): "s"}, keep=True))
    done(c)
    if pyx:
        c = Cut(prog, SRC["np_support"], "_has_clockwise_orientation")
        defs.append(c.kernel("npCloseX", c.node(ast.Assign, "x_is_close =").value, [("p1x", R), ("p2x", R)]))
        defs.append(c.kernel("npCloseY", c.node(ast.Assign, "y_is_close =").value, [("p1y", R), ("p2y", R)]))
        defs.append(c.kernel("npAccum", c.stmts("s += (p2x - p1x) * (p2y + p1y)", 1), [("s", R), ("p1x", R), ("p1y", R), ("p2x", R), ("p2y", R)], returns=["s"]))
        defs.append(c.kernel("npSign", c.node(ast.Compare, "s > 0.0"), [("s", R)]))
        done(c)
        c = Cut(prog, SRC["np_support"], "has_clockwise_orientation")
        done(c)
    # ------------------------------------------------------------------------------------------ arc_angle_span_deg / _rad (construct)
    # the float modulo results are PARAMETERS (Python `%` in both twins: Cython without cdivision has Python semantics); `x %= m` is read as `x = x % m`
    class _ExpandMod(ast.NodeTransformer):
        def visit_AugAssign(self, node):
            if isinstance(node.op, ast.Mod):
                new_ = ast.Assign(targets=[node.target], value=ast.BinOp(left=ast.Name(id=node.target.id, ctx=ast.Load()), op=ast.Mod(), right=node.value))
                return ast.fix_missing_locations(ast.copy_location(new_, node))
            return node
    for fn, m, extra, sc in (("arc_angle_span_deg", "360.0", [], {}),
                             ("arc_angle_span_rad", "M_TAU" if pyx else "tau", [("tau", R)], {"M_TAU": "tau"} if pyx else {"math.tau": "tau"})):
        c = Cut(prog, SRC["construct"], fn)
        if not getattr(c.fn, "_c10_expanded", False):
            c.fn.body = [_ExpandMod().visit(st) for st in c.fn.body]
            c.fn._c10_expanded = True
        body = [st for st in c.fn.body if not (isinstance(st, ast.Expr) and isinstance(st.value, ast.Constant))]
        m2 = dict(sc)
        m2.update({f"start % {m}": "s_mod", f"end % {m}": "e_mod"})
        defs.append(c.kernel("span" + ("Deg" if fn.endswith("deg") else "Rad"), body, [("start", R, "st"), ("end", R, "en"), ("s_mod", R), ("e_mod", R)] + extra,
                             returns=["__unreachable__"], scalar=m2))
        done(c)

    # ------------------------------------------------------------------------------------------ is_point_in_polygon_2d (construct)
    c = Cut(prog, SRC["construct"], "is_point_in_polygon_2d")
    if pyx:
        defs.append(c.kernel("pipClosed", c.expr("v2_isclose(p1, p2, REL_TOL, ABS_TOL)"), [("p1", V2, "a"), ("p2", V2, "b")]))
    else:
        defs.append(c.kernel("pipClosed", c.expr("polygon[0].isclose(polygon[-1])"), [("p1", V2, "a"), ("p2", V2, "b")],
                             scalar={"polygon[0]": "p1", "polygon[-1]": "p2"}))
    lp = c.loop("for i in range(size)") if pyx else c.loop("for (x2, y2) in polygon")
    xy = [(n, R) for n in ("x", "y", "x1", "y1", "x2", "y2")]
    # the boundary test: 0 = `return 0` was reached, 1 = fell through (the constant parameter `through` is returned at the end)
    defs.append(c.kernel("pipOnEdge", c.stmts("a, b = (x2, x1) if x2 < x1 else (x1, x2)", 2, within=lp), xy + [("abs_tol", R), ("through", ("const", 1))],
                         returns=["through"]))
    tg = [t for t in c.nodes(ast.If, None, within=lp) if ast.unparse(t.test).startswith("(y1 <= y < y2 or y2 <= y < y1)")]
    defs.append(c.kernel("pipToggle", tg[0].test, xy))
    done(c)

    # ------------------------------------------------------------------------------------------ Bezier4P / Bezier3P flattening
    # stack machine (Python) vs recursion (Cython `_Flattening.flatten`): the loop structure is C14's model (Model/Flatten.lean bezierFlat with
    # stackSub / recSub, theorem twins_agree); here the arithmetic of both twins is cut and proved equal, Props/C10Flat.lean ties the two
    from translate.py2lean import translate as _translate
    for n_, cls, mod in ((4, "Bezier4P", "bezier4p"), (3, "Bezier3P", "bezier3p")):
        BP = f"src/ezdxf/acc/{mod}.pyx" if pyx else f"src/ezdxf/math/_{mod}.py"
        pre = f"fl{n_}"
        pts = [(f"p{i}", V3) for i in range(n_)]
        ctor = f"{cls}(({', '.join(p for p, _ in pts)}))"
        d = _translate(prog, BP, None, pts + [("t", R)], lean_name=pre + "Point", expr=ctor + (".curve.point(t)" if pyx else "._get_curve_point(t)"))
        defs.append(d)
        c = Cut(prog, BP, cls + ".approximate")
        defs.append(c.kernel(f"ax{n_}Bad", c.test("segments < 1"), [("segments", R)]))
        defs.append(c.kernel(f"ax{n_}Delta", c.node((ast.Assign, ast.AnnAssign), "delta_t").value, [("segments", R)]))
        defs.append(c.kernel(f"ax{n_}Param", c.expr("delta_t * segment"), [("delta_t", R), ("segment", R)]))
        done(c)
        c = Cut(prog, BP, cls + ".approximated_length")
        if pyx:
            defs.append(c.kernel(f"al{n_}Add", c.stmts("length += v3_dist(prev_point, point)", 1), [("length", R), ("prev_point", V3, "a"), ("point", V3, "b")], returns=["length"]))
        else:
            defs.append(c.kernel(f"al{n_}Add", c.stmts("length += prev_point.distance(point)", 1), [("length", R), ("prev_point", V3, "a"), ("point", V3, "b")], returns=["length"]))
        done(c)
        c = Cut(prog, BP, cls + ".flattening")
        defs.append(c.kernel(pre + "Dt", c.node((ast.Assign, ast.AnnAssign), "dt").value, [("segments", R)]))
        defs.append(c.kernel(pre + "NextT", c.expr("t0 + dt"), [("t0", R), ("dt", R)]))
        defs.append(c.kernel(pre + "Snap", c.test("isclose(t1, 1.0, REL_TOL, ABS_TOL)" if pyx else "math.isclose(t1, 1.0)"), [("t1", R)]))
        defs.append(c.kernel(pre + "More", c.test("t0 < 1.0"), [("t0", R)]))
        if pyx:
            done(c)
            c = Cut(prog, BP, "_Flattening.flatten")
            defs.append(c.kernel(pre + "Mid", c.node((ast.Assign, ast.AnnAssign), "mid_t").value, [("start_t", R, "t0"), ("end_t", R, "t1")]))
            defs.append(c.kernel(pre + "Dist", c.node((ast.Assign, ast.AnnAssign), "d = ").value,
                                 [("start_point", V3, "s"), ("end_point", V3, "e"), ("mid_point", V3, "m")]))
            defs.append(c.kernel(pre + "Accept", c.test("d < self.distance"), [("d", R), ("distance", R)], scalar={"self.distance": "distance"}))
        else:
            defs.append(c.kernel(pre + "Mid", c.node((ast.Assign, ast.AnnAssign), "mid_t").value, [("t0", R), ("t1", R)]))
            defs.append(c.kernel(pre + "Dist", c.stmts("chk_point: T = start_point.lerp(end_point)", 2),
                                 [("start_point", V3, "s"), ("end_point", V3, "e"), ("mid_point", V3, "m")], returns=["d"]))
            defs.append(c.kernel(pre + "Accept", c.test("d < distance"), [("d", R), ("distance", R)]))
        done(c)

    # ------------------------------------------------------------------------------------------ cubic_bezier_arc_parameters (bezier4p)
    # ceil / tan / cos / sin values are PARAMETERS (the same libm function on both sides); the algebraic rest is translated
    BZ = "src/ezdxf/acc/bezier4p.pyx" if pyx else "src/ezdxf/math/_bezier4p.py"
    c = Cut(prog, BZ, "cubic_bezier_arc_parameters")
    defs.append(c.kernel("apSegmentsBad", c.test("segments < 1"), [("segments", R)]))
    defs.append(c.kernel("apDelta", c.node((ast.Assign, ast.AnnAssign), "delta_angle").value, [("start_angle", R), ("end_angle", R)]))
    defs.append(c.kernel("apPositive", c.test("delta_angle > 0"), [("delta_angle", R)]))
    if pyx:
        defs.append(c.kernel("apCeilArg", c.expr("ceil(delta_angle / M_PI * 2.0)").args[0], [("delta_angle", R), ("pi", R)], scalar={"M_PI": "pi"}))
        defs.append(c.kernel("apCount", c.stmts("arc_count = ceil(delta_angle / M_PI * 2.0)", 2), [("cl", R), ("segments", R)], returns=["arc_count"],
                             scalar={"ceil(delta_angle / M_PI * 2.0)": "cl"}))
        tanx, fa = "tan(segment_angle / 4.0)", "v3_from_angle(angle, 1.0)"
    else:
        defs.append(c.kernel("apCeilArg", c.expr("math.ceil(delta_angle / math.pi * 2.0)").args[0], [("delta_angle", R), ("pi", R)], scalar={"math.pi": "pi"}))
        defs.append(c.kernel("apCount", c.expr("max(math.ceil(delta_angle / math.pi * 2.0), segments)"), [("cl", R), ("segments", R)],
                             scalar={"math.ceil(delta_angle / math.pi * 2.0)": "cl"}))
        tanx, fa = "math.tan(segment_angle / 4.0)", "Vec3.from_angle(angle)"
    defs.append(c.kernel("apSegAngle", c.node((ast.Assign, ast.AnnAssign), "segment_angle").value, [("delta_angle", R), ("arc_count", R)]))
    tl = c.node((ast.Assign, ast.AnnAssign), "tangent_length")
    defs.append(c.kernel("apTanArg", c.expr(tanx, within=tl).args[0], [("segment_angle", R)]))
    defs.append(c.kernel("apTanLen", tl.value, [("tn", R)], scalar={tanx: "tn"}))
    defs.append(c.kernel("apFromAngle", c.expr(fa), [("angle", "angle")], keep=True))
    lp = c.loop("for _ in range(arc_count)")
    defs.append(c.kernel("apAngle", c.stmts("angle += segment_angle", 1, within=lp), [("angle", R), ("segment_angle", R)], returns=["angle"]))
    if pyx:
        defs.append(c.kernel("apCp1", c.stmts("cp1 = Vec3()", 3, within=lp), [("start_point", V3, "sp"), ("tangent_length", R, "tl")], returns=["cp1"]))
        defs.append(c.kernel("apCp2", c.stmts("cp2 = Vec3()", 3, within=lp), [("end_point", V3, "ep"), ("tangent_length", R, "tl")], returns=["cp2"]))
    else:
        defs.append(c.kernel("apCp1", c.node(ast.Assign, "control_point_1 =", within=lp).value, [("start_point", V3, "sp"), ("tangent_length", R, "tl")]))
        defs.append(c.kernel("apCp2", c.node(ast.Assign, "control_point_2 =", within=lp).value, [("end_point", V3, "ep"), ("tangent_length", R, "tl")]))
    done(c)

    # ------------------------------------------------------------------------------------------ cubic_bezier_from_arc (bezier4p)
    # arc_angle_span_deg (kernel spanDeg), the float modulo and math.radians are parameters; cubic_bezier_arc_parameters is the skeleton above
    c = Cut(prog, BZ, "cubic_bezier_from_arc")
    defs.append(c.kernel("faTiny", c.test("abs(angle_span) < 1e-09"), [("angle_span", R)]))
    if pyx:
        defs.append(c.kernel("faStartRad", c.expr("s * DEG2RAD"), [("s", R), ("deg2rad", R)], scalar={"DEG2RAD": "deg2rad"}))
        defs.append(c.kernel("faEndRad", c.expr("(s + angle_span) * DEG2RAD"), [("s", R), ("angle_span", R), ("deg2rad", R)], scalar={"DEG2RAD": "deg2rad"}))
        defs.append(c.kernel("faBump", c.stmts("end_angle += M_TAU", 1), [("end_angle", R), ("tau", R)], returns=["end_angle"], scalar={"M_TAU": "tau"}))
        defs.append(c.kernel("faPoint", c.expr("v3_add(center_, v3_mul(tmp, radius))"), [("center_", V3, "center"), ("tmp", V3, "p"), ("radius", R)]))
    else:
        defs.append(c.kernel("faEndArg", c.expr("s + angle_span"), [("s", R), ("angle_span", R)]))
        defs.append(c.kernel("faBump", c.stmts("end_angle += math.tau", 1), [("end_angle", R), ("tau", R)], returns=["end_angle"], scalar={"math.tau": "tau"}))
        defs.append(c.kernel("faPoint", c.expr("center_ + p * radius"), [("center_", V3, "center"), ("p", V3), ("radius", R)]))
    defs.append(c.kernel("faMore", c.test("start_angle > end_angle"), [("start_angle", R), ("end_angle", R)]))
    done(c)

    # ------------------------------------------------------------------------------------------ banded LU (linalg.py / np_support.pyx)
    LU = SRC["np_support"] if pyx else PY["linalg"]
    c = Cut(prog, LU, "_lu_decompose_cext" if pyx else "_lu_decompose")
    defs.append(c.kernel("luPivotTest", c.test("abs(upper[j][0]) > abs(dum)"), [("u_j0", R), ("dum", R)], scalar={"upper[j][0]": "u_j0"}))
    fac = c.node(ast.Assign, "dum = float(upper[i][0]) / float(upper[k][0])" if not pyx else "dum = upper[i][0] / upper[k][0]").value
    defs.append(c.kernel("luFactor", fac, [("u_i0", R), ("u_k0", R)], scalar={"upper[i][0]": "u_i0", "upper[k][0]": "u_k0"}))
    defs.append(c.kernel("luElim", c.node(ast.Assign, "upper[i][j - 1] = upper[i][j] - dum * upper[k][j]").value, [("u_ij", R), ("dum", R), ("u_kj", R)],
                         scalar={"upper[i][j]": "u_ij", "upper[k][j]": "u_kj"}))
    done(c, "LU::decompose::" + twin)
    c = Cut(prog, LU, "_solve_vector_banded_matrix_cext" if pyx else "_solve_vector_banded_matrix")
    defs.append(c.kernel("svFwd", c.stmts("x[j] -= al[k][j - k - 1] * x[k]", 1), [("x_j", R), ("al_kj", R), ("x_k", R)], returns=["x_j"],
                         scalar={"x[j]": "x_j", "al[k][j - k - 1]": "al_kj", "x[k]": "x_k"}))
    defs.append(c.kernel("svBack", c.stmts("dum -= au[i][k] * x[k + i]", 1), [("dum", R), ("au_ik", R), ("x_ki", R)], returns=["dum"],
                         scalar={"au[i][k]": "au_ik", "x[k + i]": "x_ki"}))
    dv = c.node(ast.Assign, "x[i] = ").value
    defs.append(c.kernel("svDiv", dv, [("dum", R), ("au_i0", R)], scalar={"au[i][0]": "au_i0"}))
    done(c, "LU::solve::" + twin)

    # ------------------------------------------------------------------------------------------ earcut: the functions that differ in text
    EC = EARCUT_PYX if pyx else EARCUT_PY
    tri = ["a_x", "a_y", "b_x", "b_y", "c_x", "c_y"]
    abc = ({"a.x": "a_x", "a.y": "a_y", "b.x": "b_x", "b.y": "b_y", "c.x": "c_x", "c.y": "c_y"} if pyx else
           {"ax": "a_x", "ay": "a_y", "bx": "b_x", "by": "b_y", "cx": "c_x", "cy": "c_y"})
    boxp = [(n, R) for n in tri]
    blockp = [(n, R) for n in ["x0", "x1", "y0", "y1"] + tri + ["p_x", "p_y", "ar"]]
    for fn, pre in (("is_ear", "ec"), ("is_ear_hashed", "eh")):
        c = Cut(prog, EC, fn)
        if pyx:
            box = c.stmts("x0 = min(a.x, min(b.x, c.x))", 4)
            sc = {"a.x": "a_x", "a.y": "a_y", "b.x": "b_x", "b.y": "b_y", "c.x": "c_x", "c.y": "c_y"}
        else:
            box = c.stmts("ax = a.x", 10)
            sc = {"a.x": "a_x", "a.y": "a_y", "b.x": "b_x", "b.y": "b_y", "c.x": "c_x", "c.y": "c_y"}
        defs.append(c.kernel(pre + "Box", box, boxp, returns=["x0", "x1", "y0", "y1"], scalar=sc))
        for var, count in (("p", 1), ("n", 0)) if fn == "is_ear" else (("p", 2), ("n", 2)):
            tests = [t for t in c.nodes((ast.If,)) if ast.unparse(t.test).startswith(f"x0 <= {var}.x <= x1")]
            if len(tests) != count:
                from translate.py2lean import Unsupported
                raise Unsupported(f"{EC}: {fn}: expected {count} bounding box tests of {var}, found {len(tests)}")
            for i, t in enumerate(tests):
                m = dict(abc)
                m.update({f"{var}.x": "p_x", f"{var}.y": "p_y", f"area({var}.prev, {var}, {var}.next)": "ar"})
                params = list(blockp)
                if fn == "is_ear_hashed":
                    m.update({f"{var} is not a": "not_a", f"{var} is not c": "not_c"})
                    params = params + [("not_a", B), ("not_c", B)]
                defs.append(c.kernel(f"{pre}Blocked{var.upper()}{i + 1}", t.test, params, scalar=m))
        done(c)
    c = Cut(prog, EC, "signed_area")
    lp = c.loop("for point in points")
    if pyx:
        defs.append(c.kernel("saStep", lp.body, [("s", R), ("prev_x", R), ("prev_y", R), ("pt_x", R), ("pt_y", R)], returns=["s", "prev_x", "prev_y"],
                             scalar={"point.x": "pt_x", "point.y": "pt_y"}))
    else:
        defs.append(c.kernel("saTerm", c.stmts("s += (point.x - prev.x) * (point.y + prev.y)", 1, within=lp),
                             [("s", R), ("prev_x", R), ("prev_y", R), ("pt_x", R), ("pt_y", R)], returns=["s"],
                             scalar={"point.x": "pt_x", "point.y": "pt_y", "prev.x": "prev_x", "prev.y": "prev_y"}))
    done(c)
    if pyx:
        c = Cut(prog, EC, "node_key")
        defs.append(c.kernel("holeKey", c.node(ast.Return).value, [("x", R), ("y", R)], scalar={"node.x": "x", "node.y": "y"}))
        done(c)
        c = Cut(prog, EC, "eliminate_holes")
        done(c)
    else:
        c = Cut(prog, EC, "eliminate_holes")
        defs.append(c.kernel("holeKey", c.node(ast.Lambda).body, [("x", R), ("y", R)], scalar={"node.x": "x", "node.y": "y"}))
        done(c)
    return defs, skel, prog


# ================================================================================================ Gen text
def _inst(twin: str) -> str:
    """instantiation of the skeletons of Model/TwinLoops.lean with the kernels of one twin (fixed text)"""
    pyx = twin == "pyx"
    V = "VectorPyx" if pyx else "VectorPy"
    t = """
/-! ## the loop skeletons of Model/TwinLoops.lean instantiated with the kernels above -/
def findSpanK : TwinLoops.FindSpanK := ⟨fsSpecial, fsBack, fsUseBisect, fsLinear, bisectLess⟩
def bisectRight := TwinLoops.bisectRight bisectLess
def findSpan := TwinLoops.findSpan findSpanK
def basisFuncsK : TwinLoops.BasisFuncsK := ⟨bfIndex, bfLeft, bfRight, bfInner⟩
def basisFuncsN := TwinLoops.basisFuncsN basisFuncsK
def spanWeightK : TwinLoops.SpanWeightK := ⟨swProduct, swQuot, swTest⟩
def spanWeighting := TwinLoops.spanWeighting@TW@ spanWeightK
def basisFuncs := TwinLoops.basisFuncs basisFuncsK spanWeighting
def basisVector := TwinLoops.basisVector TwinLoops.basisVector@TW@ findSpan basisFuncs
def pointSum := @POINTSUM@
def evalPoint := TwinLoops.evalPoint epSnap findSpan basisFuncs pointSum
def renderK : TwinLoops.RenderK := ⟨rdFits, rdRemain, rdCycleTest, rdMore, rdLess, rdRest⟩
/-- `_render_dashes(length)` from state `st`, as (state, [(is_dash, length)]) -/
def renderDashes (dashes : List Rat) (fuel : Nat) (length : Rat) (st : TwinLoops.LtState) : Option (TwinLoops.LtState × List (Bool × Rat)) :=
  @RENDER@
def lineSegK : TwinLoops.LineSegK := ⟨lsSame, lsLength, lsDir, lsStep⟩
def lineSegment (dashes : List Rat) (fuel : Nat) := TwinLoops.lineSegment lineSegK dashes (renderDashes dashes fuel)
def clockwise := @CW@
"""
    t = t.replace("@TW@", "Pyx" if pyx else "Py")
    t = t.replace("@POINTSUM@", "TwinLoops.pointSumPyx epAccum" if pyx else f"TwinLoops.pointSumPy epTerm {V}.v3add")
    # both twins record the pair (is_dash, length): a generator in Python, a list of tuples in Cython (fix of D15; before it the Cython
    # twin stored `length if is_dash else -length` and read the flag back from the sign bit, see TwinLoops.emitPyx / decodePyx)
    t = t.replace("@RENDER@", "TwinLoops.renderDashes renderK dashes TwinLoops.emitPy fuel length (st, [])")
    t = t.replace("@CW@", "TwinLoops.cwPyx cwClosed cwAccum cwSign" if pyx else "TwinLoops.cwPy cwClosed cwTerm cwSign")
    t += """def derivK : TwinLoops.DerivK := ⟨edWeight, edAccV, edAccW, edSub, edDiv⟩
/-- `Evaluator.derivative(u, n)` with the table of basis function derivatives (A2.3) as parameter `dersFn` -/
def evalDerivative (binom : Nat → Nat → Rat) (dersFn : Int → Rat → Nat → Except PyErr (List (List Rat))) :=
  TwinLoops.evalDerivative edSnap findSpan dersFn (TwinLoops.derivRational derivK binom) (TwinLoops.derivPlain @PLAIN@)
"""
    t = t.replace("@PLAIN@", "(TwinLoops.pointSumPyx edAccum)" if pyx else f"(TwinLoops.pointSumPy edTerm {V}.v3add)")
    t += """/-- `Bezier4P.approximate(segments)` / `Bezier3P.approximate(segments)` for any segment count, and `approximated_length(segments)` with the square root
    function as parameter -/
def approximate4 (p0 p1 p2 p3 : V3) := TwinLoops.approximate ax4Bad ax4Delta ax4Param (fl4Point p0 p1 p2 p3) p0 p3
def approximate3 (p0 p1 p2 : V3) := TwinLoops.approximate ax3Bad ax3Delta ax3Param (fl3Point p0 p1 p2) p0 p2
def approximatedLength4 (sqrt : Rat → Rat) (p0 p1 p2 p3 : V3) (segments : Rat) :=
  (approximate4 p0 p1 p2 p3 segments).map (TwinLoops.polylineLength (fun l a b => al4Add l a b (sqrt (al4Add_rad1 l a b))))
def approximatedLength3 (sqrt : Rat → Rat) (p0 p1 p2 : V3) (segments : Rat) :=
  (approximate3 p0 p1 p2 segments).map (TwinLoops.polylineLength (fun l a b => al3Add l a b (sqrt (al3Add_rad1 l a b))))
"""
    t += """def pipK : TwinLoops.PipK := ⟨pipClosed, pipOnEdge, pipToggle⟩
/-- `is_point_in_polygon_2d(point, polygon, abs_tol)` -/
def pointInPolygon := TwinLoops.pip@TW@ pipK
""".replace("@TW@", "Pyx" if pyx else "Py")
    t += """def arcK : TwinLoops.ArcK := ⟨apSegmentsBad, apDelta, apPositive, apCeilArg, apCount, apSegAngle, apTanArg, apTanLen, apAngle, apCp1, apCp2⟩
/-- `cubic_bezier_arc_parameters(start_angle, end_angle, segments)`; ceil, tan, cos, sin and the double pi are parameters -/
def arcParameters (ceil tan cos sin : Rat → Rat) :=
  TwinLoops.arcParameters arcK ceil tan (fun a => apFromAngle (cos a) (sin a))
"""
    t += """/-- `cubic_bezier_from_arc`; ceil, tan, cos, sin, math.radians, the float modulo and the doubles pi, tau, pi/180 are parameters -/
def fromArc (ceil tan cos sin radians : Rat → Rat) (fmod : Rat → Rat → Rat) (pi tau deg2rad : Rat) :=
  TwinLoops.fromArc faTiny faMore faBump faPoint (fun a b => spanDeg a b (fmod a 360) (fmod b 360))
    @STARTRAD@ @ENDRAD@ fmod tau (arcParameters ceil tan cos sin pi)
""".replace("@STARTRAD@", "(fun s => faStartRad s deg2rad)" if pyx else "radians").replace("@ENDRAD@", "(fun s sp => faEndRad s sp deg2rad)" if pyx else "(fun s sp => radians (faEndArg s sp))")
    t += """def dersK : TwinLoops.DersK := ⟨bdIndex, bdLeft, bdRight, bdInner, bdA0, bdD0, bdAj, bdDj, bdAk, bdDk, bdScale, bdNext⟩
/-- `Basis.basis_funcs_derivatives(span, u, n)` (A2.3) -/
def basisFuncsDerivatives := TwinLoops.basisFuncsDerivatives dersK
"""
    t += """def luK : TwinLoops.LuK := ⟨luPivotTest, luFactor, luElim⟩
def svK : TwinLoops.SvK := ⟨svFwd, svBack, svDiv⟩
/-- `lu_decompose(A, m1, m2)` -/
def luDecompose := TwinLoops.luDecompose luK
/-- `solve_vector_banded_matrix(x, upper, lower, index, m1, m2)` -/
def svSolve := TwinLoops.svSolve svK
"""
    t += "/-- earcut `signed_area(points)` -/\ndef signedArea := " + ("TwinLoops.signedAreaPyx saStep" if pyx else "TwinLoops.signedAreaPy saTerm") + "\n"
    if pyx:
        t += "def clockwiseNp := TwinLoops.cwNp npCloseX npCloseY npAccum npSign\n"
    return t


def factorial_table(prog) -> str:
    """`cdef double[19] FACTORIAL = [...]` of bspline.pyx -> Lean list"""
    from fractions import Fraction as Fr
    from translate.py2lean import Unsupported
    node = prog.module(PYX["bspline"]).assigns.get("FACTORIAL")
    if isinstance(node, ast.Call) and ast.unparse(node.func) == "__c_array_copy__" and len(node.args) == 1:
        node = node.args[0]  # pyxprep's form of a C array initialiser
    if not isinstance(node, (ast.List, ast.Tuple)) or not all(isinstance(e, ast.Constant) for e in node.elts):
        raise Unsupported("bspline.pyx: FACTORIAL table not found")
    vals = [Fr(e.value) for e in node.elts]
    return ("/-- the table `FACTORIAL` of bspline.pyx (binomial_coefficient) -/\ndef factorialTable : List Rat := ["
            + ", ".join(str(v.numerator) if v.denominator == 1 else f"({v.numerator} : Rat) / {v.denominator}" for v in vals) + "]\n")


class _Unfloat(ast.NodeTransformer):
    """`float(x)` -> `x`: the pure Python twin converts numpy scalars to Python floats before dividing (so that a zero divisor
    raises ZeroDivisionError as the C division of the Cython twin does); the value is the same double"""

    def visit_Call(self, node):
        self.generic_visit(node)
        if isinstance(node.func, ast.Name) and node.func.id == "float" and len(node.args) == 1 and not node.keywords:
            return node.args[0]
        return node


def _loop_nest_text(fn: ast.FunctionDef, start: str) -> str:
    """normal form of the statements of `fn` from the first statement printing as `start` on (annotations, pass, return dropped)"""
    out, on = [], False
    for st in fn.body:
        if isinstance(st, ast.AnnAssign) and st.value is not None:
            st = ast.Assign(targets=[st.target], value=st.value)
            ast.fix_missing_locations(st)
        st = _Unfloat().visit(copy.deepcopy(st))
        txt = ast.unparse(st)
        if txt.split("\n")[0].strip() == start:
            on = True
        if on and not isinstance(st, (ast.Pass, ast.Return)) and not (isinstance(st, ast.Assign) and ast.unparse(st.targets[0]) in ("al", "au")):
            out.append(txt)
    return "\n".join(out)


def lu_identity(ctx) -> list:
    """banded LU: `_lu_decompose` / `_solve_vector_banded_matrix` of math/linalg.py and the `_cext` functions of np_support.pyx
    must be the same loop nest, text for text (after the C declarations are removed).  -> list of problems"""
    from translate.py2lean_c10 import Program
    from translate.py2lean import find_function
    prog = Program(ctx.src)
    py, cx = prog.module(PY["linalg"]), prog.module(PYX["np_support"])
    out = []
    for fpy, fcx, start in (("_lu_decompose", "_lu_decompose_cext", "mm = m1 + m2 + 1"),
                            ("_solve_vector_banded_matrix", "_solve_vector_banded_matrix_cext", "mm = m1 + m2 + 1")):
        a = _loop_nest_text(find_function(py, fpy).node, start)
        b = _loop_nest_text(find_function(cx, fcx).node, start)
        if not a or a != b:
            import difflib
            d = "\n".join(list(difflib.unified_diff(a.split("\n"), b.split("\n"), fpy, fcx, lineterm="", n=0))[:20])
            out.append(f"{fpy} (linalg.py) and {fcx} (np_support.pyx) are no longer the same loop nest:\n{d}")
    return out


# the rest of A2.3 (the loops over the function index r and the derivative order k with the alternating rows of `a`, the
# scaling loop) is the SAME text in both twins up to these rewrites, each of which preserves the meaning:
DERIV_REWRITES = [
    # (what, python form, cython form) - the cython form is rewritten to the python form before the comparison
    ("three statement swap through a temporary that is not used elsewhere", "s1, s2 = (s2, s1)", "t = s1\ns1 = s2\ns2 = t"),
    ("clamp n to the degree", "n = min(n, p)", "if n > p:\n    n = p"),
    ("the scaling factor is the C double `rr` (initialised from the int p) / the Python float `r = float(p)`", "r = float(p)", "rr = p"),
    ("attribute name of the order", "order = self._order", "order = self.order"),
    ("arrays filled with 1.0 / 0.0: Python lists of `order` cells, C arrays of MAX_SPLINE_ORDER cells of which the loops touch the first `order`",
     "left = [1.0] * order\nright = [1.0] * order\nndu = [[1.0] * order for _ in range(order)]",
     "reset_double_array(left, order, 1.0)\nreset_double_array(right, order, 1.0)\nreset_double_array(ndu, MAX_SPLINE_ORDER * MAX_SPLINE_ORDER, 1.0)"),
    ("same", "derivatives = [[0.0] * order for _ in range(order)]", "reset_double_array(derivatives, MAX_SPLINE_ORDER * MAX_SPLINE_ORDER, 0.0)"),
    ("same", "a = [[1.0] * order, [1.0] * order]", "reset_double_array(a, 2 * MAX_SPLINE_ORDER, 1.0)"),
    ("the clamped index is computed by KERNEL_bdIndex inside the subscript (Python) / in two statements before it (Cython)", "", "KERNEL_bdIndex\n"),
    ("rows 0..n of the first `order` columns: a slice of the list of lists / copied cell by cell out of the C array",
     "return derivatives[:n + 1]",
     "result = []\nfor k in range(0, n + 1):\n    row = []\n    result.append(row)\n    for j in range(order):\n        row.append(derivatives[k][j])\nreturn result"),
]


def _dedent_lines(text: str) -> list:
    return [ln.strip() for ln in text.split("\n")]


def deriv_identity(skeletons: dict) -> list:
    a = skeletons.get(PY["bspline"] + "::Basis.basis_funcs_derivatives")
    b = skeletons.get(PYX["bspline"] + "::Basis.basis_funcs_derivatives")
    if a is None or b is None:
        return ["basis_funcs_derivatives: skeleton missing"]
    # compare the indentation-free line sequences (the block structure is fixed by the pinned skeletons themselves)
    la, lb = "\n".join(_dedent_lines(a)), "\n".join(_dedent_lines(b))
    for what, pyform, cxform in DERIV_REWRITES:
        cx = "\n".join(_dedent_lines(cxform))
        if cx not in lb:
            return [f"basis_funcs_derivatives (Cython): expected text not found ({what}): {cxform!r}"]
        lb = lb.replace(cx, "\n".join(_dedent_lines(pyform)), 1)
    la = [x for x in la.split("\n") if x]
    lb = [x for x in lb.split("\n") if x]
    if la != lb:
        import difflib
        d = "\n".join(list(difflib.unified_diff(la, lb, "python", "cython after the declared rewrites", lineterm="", n=0))[:20])
        return ["Basis.basis_funcs_derivatives: the two twins are no longer the same loops up to the declared rewrites:\n" + d]
    return []


# ================================================================================================ earcut: text identity
EARCUT_PY, EARCUT_PYX = "src/ezdxf/math/_mapbox_earcut.py", "src/ezdxf/acc/mapbox_earcut.pyx"
# token level rewrites applied to the Cython text (the C library names fmin/fmax/fabs/INFINITY are already replaced by earcut_pyx_text):
# the `equals` method that stands for Node.__eq__ (bodies compared), a parameter renamed because `by` is a Cython keyword
EARCUT_TOKENS = [(r"([A-Za-z_][\w.]*)\.equals\(([^()]+)\)", r"\1 == \2"), (r"\bby_\b", "by")]
# functions that are NOT the same text after the cuts and rewrites; their unified diff is pinned (any change of it is reported)
EARCUT_DIFFERENT = {
    "earcut": "order of the setup statements (the Cython twin returns for an empty exterior before building the list); `if holes` vs `len(holes) > 0`",
}
# functions whose loop differs in STATE representation: modelled in Model/TwinLoops.lean (pinned skeletons), proved equal in Props/C10
EARCUT_MODELLED = {"signed_area": "twin_signedArea"}

BITOP = r"[^a-z]&[^&]|<<|\| \("


def earcut_pyx_text(ctx) -> str:
    """mapbox_earcut.pyx as the translator sees it: z_order's bit operation lines blanked (pyxprep rejects `&`; they are compared as text by
    earcut_identity) and the C library names fmin/fmax/fabs/INFINITY replaced by the Python names of the same IEEE operations"""
    import re
    out = []
    for ln in ctx.src(EARCUT_PYX).split("\n"):
        if re.search(BITOP, ln) and "=" in ln and not ln.strip().startswith("#"):
            out.append(" " * (len(ln) - len(ln.lstrip())) + "pass")
        else:
            out.append(ln)
    out = [("" if ln.startswith("from libc.math cimport") else ln) for ln in out]
    t = "\n".join(out)
    for a, b in ((r"\bfmin\(", "min("), (r"\bfmax\(", "max("), (r"\bfabs\(", "abs("), (r"\bINFINITY\b", "math.inf")):
        t = re.sub(a, b, t)
    return t


def _earcut_main_normal(a: str, b: str, ctx):
    """`earcut()`: the Cython twin (1) returns early for an empty exterior, (2) builds the linked list AFTER the constant initialisations
    `min_x = 0.0 …`, (3) tests `if holes` instead of `len(holes) > 0`.  -> (a', b', None) with the three differences removed when each is
    justified by a check, else (a, b, reason):
      (1) the Python twin's `linked_list([], 0, ccw=True)` IS None (executed here), so it returns the same empty list at its first test
      (2) the statements the block is moved across are assignments of literals to names the block does not assign, and every such name
          the block reads (`triangles`) is assigned before the block in both twins
      (3) `holes` is a list: truthiness = `len(holes) > 0`"""
    import re
    la, lb = a.split("\n"), b.split("\n")
    block = ["    outer_node = linked_list(exterior, 0, ccw=True)", "    if outer_node is None or outer_node.next is outer_node.prev:", "        return triangles",
             "    if len(holes) > 0:", "        outer_node = eliminate_holes(holes, len(exterior), outer_node)"]
    lb = [("    if len(holes) > 0:" if x == "    if holes:" else x) for x in lb]
    early = ["    if not exterior:", "        return triangles"]
    try:
        i = lb.index(early[0])
        if lb[i:i + 2] != early:
            return a, b, "early return of the Cython twin not found"
        import importlib
        PY = importlib.import_module("ezdxf.math._mapbox_earcut")
        if PY.linked_list([], 0, ccw=True) is not None:
            return a, b, "linked_list([], 0, ccw=True) is not None in the Python twin: the early return of the Cython twin is not harmless"
        del lb[i:i + 2]
    except ValueError:
        return a, b, "early return of the Cython twin not found"
    lit = re.compile(r"    (\w+) = (0\.0|\[\])$")

    def pull(lines):
        """remove the block lines (in order), return (rest, positions ok?)"""
        rest, k, first_block = [], 0, None
        for n, x in enumerate(lines):
            if k < len(block) and x == block[k]:
                first_block = n if first_block is None else first_block
                k += 1
            else:
                rest.append(x)
        ok = k == len(block)
        # names assigned by literal statements anywhere before the end of the block must not be assigned inside the block, and `triangles`
        # must be initialised before the block's `return triangles`
        tri = next((n for n, x in enumerate(lines) if x == "    triangles = []"), None)
        ret = next((n for n, x in enumerate(lines) if x == "        return triangles"), None)
        ok = ok and tri is not None and ret is not None and tri < ret
        crossed = [lit.match(x).group(1) for x in lines[: (first_block or 0) + len(block) + 2] if lit.match(x)]
        ok = ok and not any(re.match(rf"\s*{nm} = ", x) for nm in crossed for x in block)
        ok = ok and all(nm == "triangles" or not any(re.search(rf"\b{nm}\b", x) for x in block) for nm in crossed)
        return rest, ok

    ra, oka = pull(la)
    rb, okb = pull(lb)
    if not (oka and okb):
        return a, b, "the moved block is not independent of the statements it crosses"
    return "\n".join(ra), "\n".join(rb), None


def earcut_identity(ctx, progs: dict) -> tuple:
    """-> (problems, {key: pinned text}).  Every top level function of the two earcut modules, AFTER the kernels cut by build() are replaced by
    KERNEL_<name> (their equality is a theorem), must be the same text up to rewrites that are each justified by a check made here:
      .equals() <-> ==          Node.equals and Node.__eq__ have the same body
      key=node_key              node_key is `return KERNEL_holeKey`, the Python twin sorts with `lambda node: KERNEL_holeKey`
      `if X is not None` <-> `if X`   (remove_node) the Python class Node defines neither __bool__ nor __len__
      placement of `NAME = None`      (find_hole_bridge) the first mention of NAME in the function is that initialisation in both twins
      z_order's bit operations        the lines blanked for pyxprep are compared as Python expressions
      earcut(): early return / moved setup block / `if holes`      see _earcut_main_normal
    except `signed_area` (modelled in Lean); a function that still differs and is listed in EARCUT_DIFFERENT gets its diff pinned."""
    import difflib
    import re
    from translate.py2lean_c10 import Cut
    problems, pins, same = [], {}, []
    try:
        py, cx = progs["py"].module(EARCUT_PY).tree, progs["pyx"].module(EARCUT_PYX).tree
    except KeyError:
        return [("earcut: a twin could not be cut, functions not compared")], {}

    def norm(fn, tokens=False):
        c = Cut.__new__(Cut)
        c.fn, c.kernels = fn, []
        t = "\n".join(ln for ln in c.skeleton().split("\n") if not re.fullmatch(r"\s*\w+: \w+", ln))
        if tokens:
            for a, b in EARCUT_TOKENS:
                t = re.sub(a, b, t)
        return t

    def method(tree, cls, name):
        for n in tree.body:
            if isinstance(n, ast.ClassDef) and n.name == cls:
                for m in n.body:
                    if isinstance(m, ast.FunctionDef) and m.name == name:
                        return "\n".join(ast.unparse(st) for st in m.body if not isinstance(st, ast.Pass))
        return None

    eq_py, eq_cx = method(py, "Node", "__eq__"), method(cx, "Node", "equals")
    if eq_py is None or eq_py != eq_cx:
        problems.append(f"earcut: Node.__eq__ (Python) and Node.equals (Cython) differ: {eq_py!r} / {eq_cx!r}")
    node_truthy = method(py, "Node", "__bool__") is None and method(py, "Node", "__len__") is None
    fa = {n.name: n for n in py.body if isinstance(n, ast.FunctionDef) and not n.name.startswith("c10cut_")}
    fb = {n.name: n for n in cx.body if isinstance(n, ast.FunctionDef) and not n.name.startswith("c10cut_")}
    key_ok = "node_key" in fb and norm(fb["node_key"]).split("\n")[1:] == ["    return KERNEL_holeKey"]
    # z_order: the lines blanked in the Cython text vs the same lines of the Python text
    bit = lambda text: [ast.unparse(ast.parse(ln.strip())) for ln in text.split("\n") if re.search(BITOP, ln) and "=" in ln and not ln.strip().startswith("#")]
    bits_same = bit(ctx.src(EARCUT_PY)) == bit(ctx.src(EARCUT_PYX)) and len(bit(ctx.src(EARCUT_PY))) > 0
    for k in sorted(set(fa) | set(fb)):
        if k not in fa or k not in fb:
            if k != "node_key":
                problems.append(f"earcut: function {k} exists only in the {'Python' if k in fa else 'Cython'} twin")
            continue
        if k in EARCUT_MODELLED:
            continue
        a, b = norm(fa[k]), norm(fb[k], tokens=True)
        if k == "eliminate_holes" and key_ok:
            b = b.replace("key=node_key)", "key=lambda node: KERNEL_holeKey)")
        if k == "remove_node" and node_truthy:
            b = re.sub(r"if ([\w.]+) is not None:", r"if \1:", b)
        if k == "z_order" and bits_same:
            a = "\n".join(ln for ln in a.split("\n") if not re.search(BITOP, ln) or "=" not in ln)
        if k == "find_hole_bridge" and a != b:
            inits = [ln for ln in a.split("\n") if re.fullmatch(r"\s*\w+ = None", ln)]
            ok = True
            for ln in inits:
                name = ln.strip().split(" ")[0]
                for t in (a, b):
                    body = t.split("\n")[1:]
                    first = next((x for x in body if re.search(rf"\b{name}\b", x)), None)
                    ok = ok and first is not None and first.strip() == ln.strip()
            if ok:
                strip = lambda t: "\n".join(x for x in t.split("\n") if x not in inits)
                a, b = strip(a), strip(b)
        if k == "earcut" and a != b:
            a2, b2, why = _earcut_main_normal(a, b, ctx)
            if why is None:
                a, b = a2, b2
            else:
                pins["earcut-main-note"] = why
        if a == b:
            same.append(k)
        elif k in EARCUT_DIFFERENT:
            pins[f"earcut-diff::{k}"] = "\n".join(difflib.unified_diff(a.split("\n"), b.split("\n"), "python", "cython", lineterm="", n=0))
        else:
            d = "\n".join(list(difflib.unified_diff(a.split("\n"), b.split("\n"), "python", "cython", lineterm="", n=0))[:16])
            problems.append(f"earcut: {k} is no longer the same text in both twins (after the cuts and the justified rewrites):\n{d}")
    pins["earcut-same"] = " ".join(same)
    return problems, pins


def regenerate_loops(ctx, pin: bool = False):
    """-> (skeletons, problems); problems = [(suspect, one-line summary + diff)], suspect = 'Class.method' / 'module.function' name that
    the differential oracle uses to search for a concrete failing input.  Nothing is raised for a changed pinned text: a broken
    obligation is reported together with the result of that search (props/c10.py)."""
    from translate.py2lean import lean_file, Unsupported
    from translate.py2lean_c10 import check_skeletons
    skeletons, problems, progs = {}, [], {}
    for twin, suffix in (("py", "Py"), ("pyx", "Pyx")):
        try:
            defs, skel, prog = build(ctx, twin)
            progs[twin] = prog
        except Unsupported as e:  # a cut no longer finds its statements: the function changed
            msg = str(e)
            problems.append((_suspect_of(msg), f"cut failed in the {twin} twin (source changed): {msg}"))
            continue
        skeletons.update(skel)
        srcs = sorted(set((PYX if twin == "pyx" else PY).values())) + (PXD if twin == "pyx" else [])
        extra = "".join(d.sqrt_wrapper() + "\n" for d in defs if d.sqrt_params) + _inst(twin) + (factorial_table(prog) if twin == "pyx" else "")
        text = lean_file(f"EzdxfVerif.Gen.TwinLoops{suffix}", defs,
                         imports=("EzdxfVerif.Model.Rat3", "EzdxfVerif.Model.TwinLoops", f"EzdxfVerif.Gen.Vector{suffix}"),
                         opens=("EzdxfVerif.Rat3", "EzdxfVerif"), extra=extra)
        ctx.write_gen(f"TwinLoops{suffix}", text, srcs)
    eproblems, epins = earcut_identity(ctx, progs)
    skeletons.update(epins)
    if pin and problems:
        raise Unsupported("refusing to pin: " + "; ".join(m for _, m in problems))
    if len([1 for _, m in problems if m.startswith("cut failed")]) == 0:
        texts = check_skeletons(skeletons, PINNED, write=pin)
    else:  # compare only what could be built
        texts = [t for t in check_skeletons(skeletons, PINNED) if not t.endswith("no longer cut")]
    texts += eproblems + lu_identity(ctx) + deriv_identity(skeletons)
    problems += [(_suspect_of(t), t) for t in texts]
    return skeletons, problems


def _suspect_of(msg: str) -> str:
    """name of the API function a problem text is about (used to pick the targeted search)"""
    import re
    head = msg.split("\n")[0]
    m = re.search(r"::([A-Za-z_][\w.]*)", head) or re.search(r"\.pyx?: ([A-Za-z_][\w.]*)", head) or re.search(r"earcut-diff::(\w+)", head) \
        or re.search(r"earcut: (\w+) ", head) or re.search(r"^(_?\w+) \(", head)
    name = m.group(1) if m else head[:60]
    if "earcut" in head:
        return "mapbox_earcut." + name.split(".")[-1]
    return name


# ================================================================================================ correspondence X3
def _fr(x):
    from props import c11
    return c11.fr(x)


def _frs(xs):
    from props import c11
    return c11.frs(xs)


def impl_loop(im, k: str, a: list) -> str:
    """one loop level function on the real code (`im` = props.c10.Impl of one twin)"""
    import numpy as np
    from fractions import Fraction as Fr
    from props import c11
    pl = c11.parse_list
    f = lambda s: float(Fr(s))
    try:
        if k == "findSpan":
            knots, order, count = pl(a[0]), int(a[1]), int(a[2])
            return f"ok {im.Basis(knots, order, count).find_span(f(a[3]))}"
        if k == "basisFuncs":
            knots, w, order = pl(a[0]), pl(a[1]), int(a[2])
            b = im.Basis(knots, order, len(knots) - order, w or None)
            return c11._ok(b.basis_funcs(int(a[3]), f(a[4])))
        if k == "basisVector":
            knots, w, order, count = pl(a[0]), pl(a[1]), int(a[2]), int(a[3])
            return c11._ok(im.Basis(knots, order, count, w or None).basis_vector(f(a[4])))
        if k == "evalPoint":
            knots, w, order = pl(a[0]), pl(a[1]), int(a[2])
            cps = [im.V3(*pl(s)) for s in a[3].split(";")]
            b = im.Basis(knots, order, len(cps), w or None)
            return c11._ok(im.Evaluator(b, cps).point(f(a[4])))
        if k == "evalDerivative":
            knots, w, order = pl(a[0]), pl(a[1]), int(a[2])
            cps = [im.V3(*pl(s)) for s in a[3].split(";")]
            b = im.Basis(knots, order, len(cps), w or None)
            r = im.Evaluator(b, cps).derivative(f(a[4]), int(a[5]))
            return c11._ok([c for v in r for c in v], f"{len(r)};")
        if k == "basisDers":
            knots, order = pl(a[0]), int(a[1])
            rows = im.Basis(knots, order, len(knots) - order).basis_funcs_derivatives(int(a[2]), f(a[3]), int(a[4]))
            return c11._ok([x for row in rows for x in row], f"{len(rows)};")
        if k == "evalDerivativeFull":
            knots, w, order = pl(a[0]), pl(a[1]), int(a[2])
            cps = [im.V3(*pl(s)) for s in a[3].split(";")]
            r = im.Evaluator(im.Basis(knots, order, len(cps), w or None), cps).derivative(f(a[4]), int(a[5]))
            return c11._ok([c for v in r for c in v], f"{len(r)};")
        if k in ("approximate4", "approximate3", "approxLength4"):
            npts = 3 if k.endswith("3") else 4
            cv = (im.B3 if npts == 3 else im.B4)([im.V3(*pl(s)) for s in a[:npts]])
            if k == "approxLength4":
                return c11._ok([cv.approximated_length(int(a[npts]))])
            r = list(cv.approximate(int(a[npts])))
            return c11._ok([c for v in r for c in v], f"{len(r)};")
        if k == "spanDeg":
            return c11._ok([im.construct.arc_angle_span_deg(f(a[0]), f(a[1]))])
        if k == "spanRad":
            return c11._ok([im.construct.arc_angle_span_rad(f(a[0]), f(a[1]))])
        if k == "pointInPolygon":
            return f"ok {im.construct.is_point_in_polygon_2d(im.V2(*pl(a[0])), [im.V2(*pl(s)) for s in a[1].split(';')] if a[1] else [], f(a[2]))}"
        if k == "arcParameters":
            r = list(im.bez4.cubic_bezier_arc_parameters(f(a[0]), f(a[1]), int(Fr(a[2]))))
            return c11._ok([c for q in r for v in q for c in (list(v) + [0.0])[:3]], f"{len(r)};")
        if k == "luSolve":
            import warnings
            from ezdxf.math import linalg
            A = np.array([pl(r_) for r_ in a[0].split(";")], dtype=np.float64)
            b = np.array(pl(a[1]), dtype=np.float64)
            m1, m2 = int(a[2]), int(a[3])
            with warnings.catch_warnings():
                warnings.simplefilter("ignore", RuntimeWarning)
                if im.np_support is None:
                    up, lo, idx = linalg._lu_decompose(A, m1, m2)
                    x = linalg._solve_vector_banded_matrix(b, up, lo, idx, m1, m2)
                else:
                    up, lo, idx = im.np_support.lu_decompose(A, m1, m2)
                    x = im.np_support.solve_vector_banded_matrix(b, up, lo, idx, m1, m2)
            return c11._ok([float(t) for t in up.flatten()] + [float(t) for t in lo.flatten()] + [float(t) for t in x], ",".join(str(int(t)) for t in idx) + ";")
        if k == "lineSegments":
            r = im.LTR(pl(a[0]))
            counts, vals = [], []
            for seg in a[1].split(";"):
                s, e = seg.split(">")
                out = list(r.line_segment(im.V3(*pl(s)), im.V3(*pl(e))))
                counts.append(len(out))
                vals += [c for p, q in out for c in list(p) + list(q)]
            return c11._ok(vals, ",".join(map(str, counts)) + ";")
        if k == "clockwise":
            return "ok " + c11._b(im.construct.has_clockwise_orientation([im.V2(*pl(s)) for s in a[0].split(";")] if a[0] else []))
        if k == "clockwiseNp":
            from ezdxf.acc import np_support
            arr = np.array([pl(s) for s in a[0].split(";")] if a[0] else [], dtype=np.float64).reshape(-1, 2)
            return "ok " + c11._b(np_support.has_clockwise_orientation(arr))
        raise KeyError(k)
    except ZeroDivisionError:
        return "err ZeroDivisionError"
    except (TypeError, ValueError, IndexError) as e:
        return "err " + type(e).__name__


def _dy(r, den=4, lo=-8, hi=8):
    from fractions import Fraction as Fr
    return Fr(r.randint(lo * den, hi * den), den)


def loop_cases(ctx, twin: str, im=None):
    """yield (mode, kernel, args, tol, nontrivial); all inputs dyadic"""
    from fractions import Fraction as Fr
    r = ctx.rng(f"loops/{twin}")
    tol = "rel:1/1099511627776:1"  # 2^-40 relative to max(|value|, 1)
    for _ in range(ctx.n(120, 1500)):
        order = r.choice([2, 3, 4, 4, 5, 6])
        count = r.randint(max(order, 2), order + 5)
        n = order + count
        kind = r.choice(["clamped", "clamped", "uniform", "shifted", "weird", "negative"])
        if kind == "clamped":
            inner = sorted(_dy(r, 4, 0, 4) if r.random() < 0.6 else Fr(r.choice([1, 2, 2, 3])) for _ in range(n - 2 * order))
            knots = [Fr(0)] * order + inner + [Fr(4)] * order
        elif kind == "uniform":
            knots = [Fr(i) for i in range(n)]
        elif kind == "shifted":
            knots = [Fr(i) + Fr(5, 2) for i in range(n)]
        elif kind == "negative":
            knots = sorted(_dy(r, 2, -6, 0) for _ in range(n))
        else:
            knots = sorted(Fr(r.choice([0, 1, 1, 2, 3])) for _ in range(n))
        lo, hi = knots[order - 1], knots[count]
        us = [lo, hi, (lo + hi) / 2, knots[r.randrange(n)], lo + (hi - lo) * Fr(r.randint(0, 64), 64), lo - 1, hi + Fr(1, 2), knots[0], knots[-1]]
        u = r.choice(us)
        ks = _frs(knots)
        yield "x", "findSpan", [ks, str(order), str(count), _fr(u)], None, lo <= u <= hi
        weights = [] if r.random() < 0.6 else [Fr(r.choice([1, 2, 3, 1, 1])) / r.choice([1, 2, 4]) for _ in range(count)]
        if r.random() < 0.15 and weights:
            weights = [w * r.choice([1, -1]) for w in weights]  # the weighted sum may vanish: the zero branch of span_weighting
        ws = _frs(weights)
        # any span whose cells exist (also spans that do not contain u: the loop is the same)
        span = r.randint(order - 1, count - 1)
        yield "t", "basisFuncs", [ks, ws, str(order), str(span), _fr(u)], tol, True
        yield "t", "basisVector", [ks, ws, str(order), str(count), _fr(u)], tol, lo <= u <= hi
        cps = [tuple(_dy(r, 4) for _ in range(3)) for _ in range(count)]
        if u != knots[-1] and abs(u - knots[-1]) < Fr(1, 1000):
            continue
        yield "t", "evalPoint", [ks, ws, str(order), ";".join(_frs(p) for p in cps), _fr(u)], "rel:1/1099511627776:8", lo <= u <= hi
        # Evaluator.derivative: the table of basis function derivatives comes from the twin under test (A2.3 is not modelled in Lean)
        n_der = r.choice([1, 2, 3])
        try:
            b = im.Basis([float(x) for x in knots], order, count, [float(x) for x in weights] or None)
            uu = float(u)
            table = b.basis_funcs_derivatives(b.find_span(uu), uu, n_der)
        except (ZeroDivisionError, IndexError, ValueError):
            continue
        ders = ";".join(_frs(Fr(x) for x in row) for row in table)
        yield "t", "basisDers", [ks, str(order), str(span), _fr(u), str(n_der)], "rel:1/68719476736:64", True
        if n_der <= order - 1:
            yield "t", "evalDerivativeFull", [ks, ws, str(order), ";".join(_frs(p) for p in cps), _fr(u), str(n_der)], "rel:1/68719476736:64", lo <= u <= hi
        yield "t", "evalDerivative", [ks, ws, str(order), ";".join(_frs(p) for p in cps), _fr(u), str(n_der), ders], "rel:1/68719476736:64", lo <= u <= hi
    for _ in range(ctx.n(150, 2000)):
        m = r.choice([0, 1, 2, 2, 3, 4, 4, 5, 6])
        dashes = [Fr(r.choice([0, 1, 2, 3, 4, 6, 8]), 8) if i % 2 == 0 else Fr(r.choice([1, 2, 4, 0, 3]), 8) for i in range(m)]
        if m >= 2 and sum(dashes) < Fr(1, 8):
            continue
        segs, p = [], (Fr(0), Fr(0), Fr(0))
        for _ in range(r.randint(1, 4)):
            ax = r.randrange(3)
            step = r.choice([Fr(r.randint(0, 40), 8), sum(dashes) * r.randint(0, 3) if dashes else Fr(1), dashes[r.randrange(m)] if m else Fr(1, 2)])
            step *= r.choice([1, 1, -1])
            q = tuple(p[i] + (step if i == ax else 0) for i in range(3))
            segs.append(_frs(p) + ">" + _frs(q))
            p = q
        yield "x", "lineSegments", [_frs(dashes), ";".join(segs)], None, m >= 2
    for _ in range(ctx.n(60, 800)):
        pts = [tuple(_dy(r, 4) for _ in range(3)) for _ in range(4)]
        nseg = r.choice([0, 1, 2, 3, 4, 5, 7, 8, 10, 13, 16])
        P = [_frs(p) for p in pts]
        yield "t", "approximate4", P + [str(nseg)], "rel:1/1099511627776:8", nseg >= 1
        yield "t", "approximate3", P[:3] + [str(nseg)], "rel:1/1099511627776:8", nseg >= 1
        yield "t", "approxLength4", P + [str(nseg)], "rel:1/1099511627776:8", nseg >= 1
    import math
    for _ in range(ctx.n(80, 1000)):
        # arc_angle_span: the harness supplies the float modulo results the implementation computes (start % m is taken BEFORE `end % m`)
        st = r.choice([Fr(0), Fr(360), Fr(-360), Fr(180), Fr(-180), Fr(720), Fr(90), _dy(r, 4, -800, 800), _dy(r, 4, -800, 800)])
        en = r.choice([Fr(0), Fr(360), Fr(-360), Fr(180), Fr(-180), Fr(720), st, st + 360, _dy(r, 4, -800, 800)])
        yield "t", "spanDeg", [_fr(st), _fr(en), _fr(Fr(float(st) % 360.0)), _fr(Fr(float(en) % 360.0))], "rel:1/1099511627776:1", True
        tau = math.tau
        rs, re_ = math.radians(float(st)), math.radians(float(en))
        yield "t", "spanRad", [_fr(Fr(rs)), _fr(Fr(re_)), _fr(Fr(rs % tau)), _fr(Fr(re_ % tau)), _fr(Fr(tau))], "rel:1/1099511627776:1", True
    for _ in range(ctx.n(60, 800)):
        # cubic_bezier_arc_parameters: the harness follows the exact angles of the model and supplies libm's tan / cos / sin at them
        start = Fr(r.randint(-16, 16), 4)
        end = start + r.choice([Fr(r.randint(1, 40), 8), Fr(0), Fr(-1, 2), Fr(r.randint(1, 12), 2)])
        segs = r.choice([1, 1, 2, 3, 5, 0])
        pi = Fr(math.pi)
        delta = end - start
        tab, tanv = [], Fr(0)
        if segs >= 1 and delta > 0:
            count = max(math.ceil(delta / pi * 2), segs)
            sa = delta / count
            tanv = Fr(math.tan(float(sa / 4)))
            ang = start
            for _i in range(count + 1):
                tab.append(f"{ang.numerator}/{ang.denominator}:{_fr(Fr(math.cos(float(ang))))}:{_fr(Fr(math.sin(float(ang))))}")  # exact key
                ang += sa
        yield "t", "arcParameters", [_fr(start), _fr(end), str(segs), _fr(pi), _fr(tanv), ";".join(tab)], "rel:1/1099511627776:2", segs >= 1 and delta > 0
    for _ in range(ctx.n(80, 1000)):
        # banded LU: compact band matrices n x (m1 + m2 + 1); diagonally dominant, with pivoting (large sub-diagonal), singular
        m1, m2 = r.choice([1, 2, 1, 3]), r.choice([1, 2, 1, 0])
        # n > m1, m2 only: the C twin runs with boundscheck(False) and WRITES outside the arrays for n <= m1 (heap corruption, observed as
        # "corrupted size vs. prev_size" abort), the Python twin raises IndexError; BandedMatrixLU never calls it that way (banded_matrix gives m1, m2 < n)
        size = r.randint(max(m1, m2) + 1, 8)
        kind = r.choice(["dominant", "dominant", "pivot", "singular"])
        A = [[Fr(0)] * (m1 + m2 + 1) for _ in range(size)]
        for i in range(size):
            for j in range(m1 + m2 + 1):
                col = i + j - m1
                if 0 <= col < size:
                    A[i][j] = Fr(r.randint(-3, 3)) if j != m1 else Fr(r.choice([8, -9, 10]))
                    if kind == "pivot" and j < m1:
                        A[i][j] = Fr(r.choice([16, -12, 20]))
        if kind == "singular":
            A[r.randrange(size)] = [Fr(0)] * (m1 + m2 + 1)
        rhs = [Fr(r.randint(-5, 5)) for _ in range(size)]
        yield "t", "luSolve", [";".join(_frs(row) for row in A), _frs(rhs), str(m1), str(m2)], "rel:1/1099511627776:16", kind != "singular"
    for _ in range(ctx.n(150, 2000)):
        m = r.choice([0, 2, 3, 3, 4, 5, 6, 8, 12])
        pts = [(_dy(r, 2, -6, 6), _dy(r, 2, -6, 6)) for _ in range(m)]
        c = r.random()
        if m >= 3 and c < 0.3:
            pts.append(pts[0])  # closed
        elif m >= 3 and c < 0.4:
            dx, dy = _dy(r, 2, -2, 2), _dy(r, 2, -2, 2)
            pts = [(i * dx, i * dy) for i in range(m)]  # zero area
        arg = ";".join(_frs(p) for p in pts)
        yield "x", "clockwise", [arg], None, m >= 3
        # point in polygon: vertices, edge points, mid points, outside points; tolerance 0, 1e-10, 1/2
        if pts:
            a, b = pts[r.randrange(len(pts))], pts[r.randrange(len(pts))]
            pt = r.choice([a, ((a[0] + b[0]) / 2, (a[1] + b[1]) / 2), (_dy(r, 2, -7, 7), _dy(r, 2, -7, 7)), (a[0], _dy(r, 2, -7, 7))])
        else:
            pt = (Fr(0), Fr(0))
        yield "x", "pointInPolygon", [_frs(pt), arg, _fr(r.choice([Fr(1, 10 ** 10), Fr(0), Fr(1, 2)]))], None, m >= 3
        if twin == "pyx" and m > 0:
            yield "x", "clockwiseNp", [arg], None, m >= 3


def correspond_loops(ctx, Impl, twins, driver_deps):
    exact, tolerant = [], []
    for t in twins:
        im = Impl(t)
        for mode, k, a, tol, nt in loop_cases(ctx, t, im):
            val = impl_loop(im, k, a)
            ctx.hist("X3/X4 loops by kernel", f"{t}:{k}")
            if val.startswith("err"):
                ctx.hist("X3/X4 loops by kernel", "result:" + val)
            if mode == "x":
                exact.append((f"x|{t}|{k}|" + "|".join(a), val, nt))
            else:
                tolerant.append((f"t|{t}|{k}|" + "|".join(a) + f"|{val}|{tol}", "agree", nt))
    ctx.correspond("X3 loops (skeleton + translated bodies vs both twins), exact", "C10", exact, build=driver_deps)
    ctx.correspond("X4 loops (skeleton + translated bodies vs both twins), tolerant", "C10", tolerant, build=driver_deps)

"""C20  Text content tools are total and consistent (DESIGN.md section 7, C20)."""
from __future__ import annotations

import itertools
import re

from leanfmt import cps, lean_list, lean_str

ID = "C20"
LEAN_MODULES = ["EzdxfVerif.Props.C20"]
DRIVER_DEPS = ["EzdxfVerif.Model.Text", "EzdxfVerif.Gen.TextTables", "Drivers.Proto"]
RULE = (
    "correspondence: every string over a 12-symbol MTEXT control alphabet up to length 4 (quick) / 5 (thorough), "
    "command templates (\\\\X + all argument strings up to length 3 over a numeric alphabet), seeded random strings "
    "to length 600 and digit runs around the 4300-digit int() limit; ops caret/split/fast/ptext/tokens/plain on the "
    "Lean model vs. the real functions; non-trivial = contains at least one control symbol; distinct by hash of "
    "(op, string). oracle: same strings on the real code (no exception, split/join identity, chunk bounds, "
    "fast==slow on the sub-grammar, MTextEditor round trip)."
)
TRUSTED_BASE = [
    "CPython str/re semantics for the modelled regexes (hand model of RE_FLOAT/RE_FLOAT_X/\\d+ tied to the pattern text by Gen/TextTables)",
    "MTextContext values (fonts, heights, colours) are not modelled, only whether computing them can raise",
    "non-ASCII decimal digits (matched by \\d) are outside the model",
]
ASSUMPTIONS = [
    "sys.get_int_max_str_digits() == 4300",
    "fonts/text size estimators are exercised by the oracle only (not modelled)",
]
OPEN = ["fast_eq_slow is proved for the sub-grammar SubDoc (plain text, \\P, escaped chars, groups, ;-terminated commands)"]

ALPHA = ["\\", "{", "}", ";", "^", "%", ",", "0", "a", " ", "S", "H"]
ARGALPHA = ["0", "1", ".", ":", "e", "x", ";", "+", "-", "\\", "a", ",", "^", "/", "#", "*", "c", "r", "t", "q", "i", "l"]
CMDS = "LlOoKkACcHWQTpfFSPNX~;\\{}%z"
RICH = list("\\\\\\{}{};;^^%%|,,01239.:eExX+-*/# \t\naépqilrtcCHSAQWTFfPNLOK~d")


def regenerate(ctx):
    src = ctx.src("src/ezdxf/tools/text.py")
    ctx.src("src/ezdxf/lldxf/const.py")
    from ezdxf.lldxf import const
    from ezdxf.tools import text as T

    special, kou = [], []
    for o in range(0x110000):
        if 0xD800 <= o < 0xE000:
            continue
        ch = chr(o)
        low = ch.lower()
        v = const.SPECIAL_CHAR_ENCODING.get(low)
        if v:
            if len(v) != 1:
                raise ValueError("SPECIAL_CHAR_ENCODING value is not a single character")
            special.append((o, ord(v)))
        if low in "kou":
            kou.append(o)
    m1 = re.search(r'^RE_FLOAT = re\.compile\(r"(.*)"\)$', src, re.M)
    m2 = re.search(r'^RE_FLOAT_X = re\.compile\(r"(.*)"\)$', src, re.M)
    if not (m1 and m2):
        raise ValueError("RE_FLOAT / RE_FLOAT_X definitions not found")
    assert T.RE_FLOAT.pattern == m1.group(1) and T.RE_FLOAT_X.pattern == m2.group(1)
    text = f"""
namespace EzdxfVerif.Gen.TextTables

/-- (c, SPECIAL_CHAR_ENCODING[c.lower()]) for every Unicode scalar c with c.lower() in the table -/
def specialList : List (Nat × Nat) := {lean_list(f"({a}, {b})" for a, b in special)}

/-- every Unicode scalar c with `c.lower() in "kou"` -/
def kouList : List Nat := {lean_list(str(a) for a in kou)}

def special (c : Char) : Option Char :=
  (specialList.find? (fun p => p.1 = c.toNat)).map (fun p => Char.ofNat p.2)

def kou (c : Char) : Bool := kouList.contains c.toNat

def reFloat : String := {lean_str(T.RE_FLOAT.pattern)}
def reFloatX : String := {lean_str(T.RE_FLOAT_X.pattern)}
def oneCharCommands : String := {lean_str(T.ONE_CHAR_COMMANDS)}

end EzdxfVerif.Gen.TextTables
"""
    ctx.write_gen("TextTables", text, ["src/ezdxf/tools/text.py", "src/ezdxf/lldxf/const.py"])


# ------------------------------------------------------------------ implementation side
def _exc(e: BaseException) -> str:
    return "err " + type(e).__name__


def impl_tokens(s: str) -> str:
    from ezdxf.tools.text import MTextParser, TokenType as TT

    names = {TT.SPACE: "SP", TT.NBSP: "NB", TT.TABULATOR: "TAB", TT.NEW_PARAGRAPH: "NP",
             TT.NEW_COLUMN: "NC", TT.WRAP_AT_DIMLINE: "WD"}
    try:
        out = []
        for t in MTextParser(s):
            if t.type == TT.WORD:
                out.append("W:" + cps(t.data))
            elif t.type == TT.STACK:
                u, l, d = t.data
                out.append("K:" + cps(u) + "/" + cps(l) + "/" + cps(d))
            else:
                out.append(names[t.type])
        return "ok " + ";".join(out)
    except Exception as e:  # noqa
        return _exc(e)


def impl_plain(s: str) -> str:
    from ezdxf.tools.text import plain_mtext

    try:
        return "ok " + ";".join(cps(l) for l in plain_mtext(s, split=True))
    except Exception as e:  # noqa
        return _exc(e)


def impl(op: str, s: str, size: int = 0) -> str:
    from ezdxf.tools import text as T

    if op == "caret":
        return cps(T.caret_decode(s))
    if op == "fast":
        return cps(T.fast_plain_mtext(s))
    if op == "ptext":
        return cps(T.plain_text(s))
    if op == "tokens":
        return impl_tokens(s)
    if op == "plain":
        return impl_plain(s)
    if op == "split":
        return ";".join(cps(c) for c in T.split_mtext_string(s, size))
    raise ValueError(op)


# ------------------------------------------------------------------ generators
def strings(ctx):
    """yield (kind, string)"""
    maxlen = ctx.n(4, 5)
    for n in range(0, maxlen + 1):
        for t in itertools.product(ALPHA, repeat=n):
            yield "exh", "".join(t)
    arglen = ctx.n(2, 3)
    for c in CMDS:
        for n in range(0, arglen + 1):
            for t in itertools.product(ARGALPHA, repeat=n):
                yield "cmd", "\\" + c + "".join(t)
    # paragraph / stacking / special templates
    for body in ["i1,l2,r3,qc,t1,c2,r3", "i1:.2", "xqj", "t*,z", "i-1.5e3,l+2.,r.5", "q", "t", "tc", "tr1e", "i1e+"]:
        for tail in ["", ";", ";x"]:
            yield "tmpl", "\\p" + body + tail
    for body in ["1/2", "a^ b", "a#b", "a\\/b/c", "a\\", "\\", "a\\;b;c", "^", "1^J2", "\x01/\x02"]:
        for tail in ["", ";", ";x"]:
            yield "tmpl", "x\\S" + body + tail
    for s in ["%%c", "%%C", "%%d%%p", "%%", "%", "%%%", "%%k%%o%%u%%K", "%%x", "a%%", "%%K", "^", "a^", "^^", "^I^J^M", "^ ", "\\~\\X\\N"]:
        yield "tmpl", s
    rng = ctx.rng("strings")
    for _ in range(ctx.n(3000, 60000)):
        n = rng.choice([1, 2, 3, 5, 8, 13, 21, 40, 80, 200, 600])
        yield "rnd", "".join(rng.choice(RICH) for _ in range(rng.randint(0, n)))
    for c in "Cc":
        for k in (4299, 4300, 4301, 5000):
            yield "digits", "a\\" + c + "1" * k + ";b"
    yield "digits", "\\H" + "9" * 5000 + ";b"
    yield "digits", "\\H1e" + "9" * 400 + "x;b"


CONTROL = set("\\{};^%")


def correspond(ctx):
    cases = []
    seen = set()
    for kind, s in strings(ctx):
        if s in seen:
            continue
        seen.add(s)
        ctx.hist("X1 text tools", kind)
        nontriv = any(c in CONTROL for c in s)
        ops = ["caret", "fast", "ptext", "tokens", "plain"]
        if kind in ("exh",) and len(s) > 4:
            ops = ["tokens", "fast"]  # thorough length-5 layer: the two parsers only
        for op in ops:
            cases.append((f"{op}|{cps(s)}", impl(op, s), nontriv))
        if kind != "cmd":
            for size in (2, 3, 7):
                cases.append((f"split|{size}|{cps(s)}", impl("split", s, size), "^" in s))
    rng = ctx.rng("split")
    for _ in range(ctx.n(300, 3000)):
        n = rng.choice([249, 250, 251, 499, 500, 501, 750, 1000])
        s = "".join(rng.choice("^^^ab") for _ in range(n))
        cases.append((f"split|250|{cps(s)}", impl("split", s, 250), True))
    ctx.correspond("X1 text tools", "C20", cases, build=["EzdxfVerif.Model.Text", "EzdxfVerif.Gen.TextTables", "Drivers.Proto"])


# ------------------------------------------------------------------ oracle on the real code
SUB_WORDS = ["a", "b0", "é", "x y", "1,2", ""]


def subgrammar_docs(ctx):
    """content made of plain text, \\P, escaped chars, groups and ;-terminated commands"""
    rng = ctx.rng("subdoc")
    atoms = ["\\P", "\\\\", "\\{", "\\}", "{", "}", "\\C1;", "\\H2.5x;", "\\fArial|b0|i1;", "\\A1;", "\\Q15;",
             "\\W0.8;", "\\T1.5;", "\\c255;", "\\pi1,l2;", "\\L", "\\l", "\\O", "\\o", "\\K", "\\k"] + SUB_WORDS
    for n in range(0, 3):
        for t in itertools.product(atoms, repeat=n):
            yield "".join(t)
    for _ in range(ctx.n(2000, 30000)):
        yield "".join(rng.choice(atoms) for _ in range(rng.randint(3, 25)))


def oracle(ctx):
    from ezdxf.tools import text as T
    import ezdxf

    doc = ezdxf.new()
    msp = doc.modelspace()
    mtext = msp.add_mtext("")
    n = 0
    every = ctx.n(37, 11)
    for kind, s in strings(ctx):
        n += 1
        ctx.count("O1 totality", s, any(c in CONTROL for c in s))
        for name, fn in (("MTextParser", lambda s: list(T.MTextParser(s))), ("plain_mtext", T.plain_mtext),
                         ("fast_plain_mtext", T.fast_plain_mtext), ("plain_text", T.plain_text)):
            try:
                fn(s)
            except Exception as e:  # noqa
                ctx.fail(f"total/{name}/{type(e).__name__}/{s[:40]!r}", f"{name}({s[:80]!r}) raised {type(e).__name__}: {e}",
                         {"op": "total", "fn": name, "text": s})
        if n % every == 0 or kind in ("tmpl", "digits"):
            try:
                mtext.text = s
                mtext.plain_text()
                mtext.plain_text(fast=False)
                T.estimate_mtext_extents(mtext)
                T.estimate_mtext_content_extents(s, ezdxf.fonts.fonts.MonospaceFont(2.5), 0, 1.0) if hasattr(T, "estimate_mtext_content_extents") else None
            except Exception as e:  # noqa
                ctx.fail(f"total/estimators/{type(e).__name__}/{s[:40]!r}", f"MText tools on {s[:80]!r} raised {type(e).__name__}: {e}",
                         {"op": "estimate", "text": s})
        # split / join
        for size in (2, 3, 7, 250):
            chunks = T.split_mtext_string(s, size)
            ok = "".join(chunks) == s and all(0 < len(c) <= size for c in chunks)
            if not ok:
                ctx.fail(f"split/{size}/{s[:40]!r}", f"split_mtext_string({s[:80]!r}, {size}) -> {chunks[:5]!r}",
                         {"op": "split", "text": s, "size": size})
    # the decoders are pure: a caller that edits a returned line list (MText.all_columns_plain_text does)
    # must not influence later calls
    n = 0
    for kind, s in strings(ctx):
        n += 1
        if n % 5 and kind not in ("tmpl",):
            continue
        ctx.count("O4 purity", s, "\\P" in s)
        for name, fn in (("fast_plain_mtext", T.fast_plain_mtext), ("plain_mtext", T.plain_mtext)):
            try:
                first = fn(s, split=True)
                expect = list(first)
                first.append("<edited by caller>")
                if first:
                    first[0] = "<edited>"
                second = fn(s, split=True)
            except Exception:  # noqa  (totality is checked above)
                continue
            if second != expect:
                ctx.fail(f"impure/{name}/{s[:30]!r}", f"{name}({s[:60]!r}, split=True) returns {second!r} after the caller edited the earlier result {expect!r}",
                         {"op": "purity", "fn": name, "text": s})
    # fast == slow on the sub-grammar
    for s in subgrammar_docs(ctx):
        ctx.count("O2 fast==slow", s, True)
        a, b = T.fast_plain_mtext(s), T.plain_mtext(s)
        if a != b:
            # plain_mtext drops exactly one trailing (empty) paragraph: classified separately (finding F16)
            kind = "trailing-paragraph-break" if a == b + "\n" and s.rstrip("{}").endswith("\\P") or (a == b + "\n" and a.endswith("\n")) else "other"
            ctx.fail(f"fastslow/{kind}/{s[:40]!r}", f"fast_plain_mtext({s!r})={a!r} plain_mtext={b!r}", {"op": "fastslow", "text": s})
    editor_oracle(ctx)


WORDS = ["alpha", "B2", "é", "x", "12"]


def editor_oracle(ctx):
    from ezdxf.tools import text as T
    from ezdxf.tools.text import MTextEditor, ParagraphProperties

    rng = ctx.rng("editor")

    def ops():
        w = lambda: rng.choice(WORDS)
        return [
            ("append", lambda e, a: e.append(a), w), ("font", lambda e, a: e.font("Arial", bold=True), lambda: ""),
            ("height", lambda e, a: e.height(2.5), lambda: ""), ("scale_height", lambda e, a: e.scale_height(1.5), lambda: ""),
            ("width_factor", lambda e, a: e.width_factor(0.8), lambda: ""), ("char_tracking_factor", lambda e, a: e.char_tracking_factor(1.2), lambda: ""),
            ("oblique", lambda e, a: e.oblique(15), lambda: ""), ("color", lambda e, a: e.color("red"), lambda: ""),
            ("aci", lambda e, a: e.aci(3), lambda: ""), ("rgb", lambda e, a: e.rgb((1, 2, 3)), lambda: ""),
            ("group", lambda e, a: e.group(a), w), ("underline", lambda e, a: e.underline(a), w),
            ("overline", lambda e, a: e.overline(a), w), ("strike_through", lambda e, a: e.strike_through(a), w),
            ("paragraph", lambda e, a: e.paragraph(ParagraphProperties(indent=1, left=2, right=3, align=T.MTextParagraphAlignment.CENTER, tab_stops=(1, "c2", "r3"))), lambda: ""),
            ("newpar", lambda e, a: e.append(MTextEditor.NEW_PARAGRAPH), lambda: "\n"),
            ("stack", lambda e, a: e.stack(a, "z", "/"), lambda: w()),
        ]

    table = ops()
    count = 0
    seqs = [t for n in range(1, ctx.n(3, 4)) for t in itertools.product(range(len(table)), repeat=n)]
    for _ in range(ctx.n(500, 5000)):
        seqs.append(tuple(rng.randrange(len(table)) for _ in range(rng.randint(4, 12))))
    for seq in seqs:
        e = MTextEditor()
        expect = ""
        desc = []
        for i in seq:
            name, fn, arg = table[i]
            a = arg()
            fn(e, a)
            desc.append((name, a))
            if name == "stack":
                expect += a + "/" + "z"
            elif name == "newpar":
                expect += "\n"
            else:
                expect += a
        s = str(e)
        count += 1
        ctx.count("O3 editor", tuple(desc), True)
        try:
            got = T.plain_mtext(s)
            gotf = T.fast_plain_mtext(s)
        except Exception as ex:  # noqa
            ctx.fail(f"editor/raise/{desc[:4]}", f"MTextEditor {desc} -> {s!r} raised {type(ex).__name__}", {"op": "editor", "seq": desc})
            continue
        exp_plain = expect[:-1] if False else expect
        # plain_mtext drops an empty trailing paragraph
        norm = lambda x: x.rstrip("\n")
        if norm(got) != norm(exp_plain):
            ctx.fail(f"editor/words/{desc[:4]}", f"MTextEditor {desc} -> {s!r} decodes to {got!r}, expected {exp_plain!r}", {"op": "editor", "seq": desc})


def replay(ctx, rep):
    from ezdxf.tools import text as T

    bad = []
    for f in rep.get("failing_inputs", []):
        r = f["replay"]
        try:
            if r["op"] in ("total", "estimate"):
                T.plain_mtext(r["text"]); T.fast_plain_mtext(r["text"]); T.plain_text(r["text"]); list(T.MTextParser(r["text"]))
            elif r["op"] == "split":
                c = T.split_mtext_string(r["text"], r["size"])
                assert "".join(c) == r["text"] and all(0 < len(x) <= r["size"] for x in c)
            elif r["op"] == "fastslow":
                assert T.fast_plain_mtext(r["text"]) == T.plain_mtext(r["text"])
        except Exception as e:  # noqa
            bad.append(f"{f['key']}: {type(e).__name__}")
    return (not bad, "; ".join(bad) or "all recorded failing inputs pass now")
